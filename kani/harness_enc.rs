// @attach yrs/src/updates/encoder.rs as vx_kani_enc
// Wrappers that expose the private v2 column encoders of yrs/src/updates/encoder.rs to the decoder-side
// harnesses (kani/harness_dec.rs). Attached under cfg(kani) to a scratch copy only.
use super::*;

pub(crate) fn enc_uintopt(vals: &[u64]) -> Vec<u8> {
    let mut e = UIntOptRleEncoder::new();
    for v in vals {
        e.write_u64(*v);
    }
    e.to_vec()
}

pub(crate) fn enc_intdiff(vals: &[u32]) -> Vec<u8> {
    let mut e = IntDiffOptRleEncoder::new();
    for v in vals {
        e.write_u32(*v);
    }
    e.to_vec()
}

pub(crate) fn enc_rle(vals: &[u8]) -> Vec<u8> {
    let mut e = RleEncoder::new();
    for v in vals {
        e.write_u8(*v);
    }
    e.to_vec()
}
