// Kani harnesses for the string offset kernel of C03 (yrs/src/block.rs: split_str, SplittableString).
// BOUNDED stand-ins: every valid UTF-8 string of at most N bytes (N = 4 covers every single character of every
// width, including astral-plane characters that need a UTF-16 surrogate pair, and every mix that fits).
use crate::block::{split_str, SplittableString};
use crate::OffsetKind;

fn any_str<'a>(buf: &'a [u8]) -> &'a str {
    let n: usize = kani::any();
    kani::assume(n <= buf.len());
    match std::str::from_utf8(&buf[..n]) {
        Ok(s) => s,
        Err(_) => {
            kani::assume(false);
            ""
        }
    }
}

/// length of `s` in the offset unit
fn unit_len(s: &str, utf16: bool) -> usize {
    let mut n = 0;
    for c in s.chars() {
        n += if utf16 { c.len_utf16() } else { c.len_utf8() };
    }
    n
}

/// `off` falls on a character boundary of `s` when measured in the offset unit
fn on_boundary(s: &str, off: usize, utf16: bool) -> bool {
    let mut n = 0;
    if off == 0 {
        return true;
    }
    for c in s.chars() {
        n += if utf16 { c.len_utf16() } else { c.len_utf8() };
        if n == off {
            return true;
        }
    }
    false
}

// @harness name=c03_split_str_4 kind=bounded tiers=quick,thorough domain="every valid UTF-8 string of <= 4 bytes x both offset kinds x every offset on a character boundary" bound="string length <= 4 bytes" target="block::split_str" timeout=600
#[kani::proof]
#[kani::unwind(6)]
fn c03_split_str_4() {
    let buf: [u8; 4] = kani::any();
    let s = any_str(&buf);
    let utf16: bool = kani::any();
    let off: usize = kani::any();
    kani::assume(off <= 8);
    kani::assume(on_boundary(s, off, utf16));
    let kind = if utf16 { OffsetKind::Utf16 } else { OffsetKind::Bytes };
    let (l, r) = split_str(s, off, kind);
    // the two parts are the string, cut where the unit count says
    assert!(l.len() + r.len() == s.len());
    assert!(unit_len(l, utf16) == off);
    assert!(unit_len(l, utf16) + unit_len(r, utf16) == unit_len(s, utf16));
}

// @harness name=c03_len_block_offset_4 kind=bounded tiers=quick,thorough domain="every valid UTF-8 string of <= 4 bytes x both offset kinds x every byte offset on a character boundary" bound="string length <= 4 bytes" target="SplittableString::{len, utf16_len, block_offset}" timeout=600
#[kani::proof]
#[kani::unwind(6)]
fn c03_len_block_offset_4() {
    let buf: [u8; 4] = kani::any();
    let s = any_str(&buf);
    let ss = SplittableString::from(s);
    // len in either unit is the unit count of the content
    assert!(ss.len(OffsetKind::Bytes) == s.len());
    assert!(ss.len(OffsetKind::Utf16) == unit_len(s, true));
    // block_offset maps a byte offset (on a boundary) to the UTF-16 length of that byte prefix
    let off: usize = kani::any();
    kani::assume(off <= s.len());
    kani::assume(on_boundary(s, off, false));
    let b = ss.block_offset(off as u32, OffsetKind::Bytes) as usize;
    let (l, _) = s.split_at(off);
    assert!(b == unit_len(l, true));
    assert!(ss.block_offset(off as u32, OffsetKind::Utf16) == off as u32);
}
