// Kani harnesses for the few composite decoding entry points CBMC can finish (no HashMap/BTreeMap on the path).
// BOUNDED stand-ins: all inputs of at most N bytes.
use crate::updates::decoder::Decode;
use crate::{Assoc, StickyIndex};

fn any_prefix<'a>(buf: &'a [u8]) -> &'a [u8] {
    let n: usize = kani::any();
    kani::assume(n <= buf.len());
    &buf[..n]
}

// @harness name=total_sticky_v1 kind=bounded tiers=thorough domain="all byte strings of length 0..=12 whose scope tag is 0 or 2 (ID scopes; tag 1 allocates a string)" bound="input length <= 12 bytes" target="StickyIndex::decode_v1 (IndexScope::decode, Assoc::decode, ClientID::new)" timeout=900
#[kani::proof]
#[kani::unwind(24)]
fn total_sticky_v1() {
    let buf: [u8; 12] = kani::any();
    let input = any_prefix(&buf);
    kani::assume(input.len() == 0 || input[0] != 1);
    let _ = StickyIndex::decode_v1(input).map(|_| ());
}

// @harness name=total_assoc_v1 kind=complete tiers=quick,thorough domain="all byte strings (reads <= 11 bytes; lengths 0..=12)" bound="unwind 24, unwinding assertions on" target="Assoc::decode"
#[kani::proof]
#[kani::unwind(24)]
fn total_assoc_v1() {
    let buf: [u8; 12] = kani::any();
    let input = any_prefix(&buf);
    let _ = Assoc::decode_v1(input).map(|_| ());
}
