// Kani harnesses for the few composite decoding entry points CBMC can finish (no HashMap/BTreeMap on the path).
// BOUNDED stand-ins: all inputs of at most N bytes.
use crate::updates::decoder::Decode;
use crate::{Assoc, StickyIndex};

fn any_prefix<'a>(buf: &'a [u8]) -> &'a [u8] {
    let n: usize = kani::any();
    kani::assume(n <= buf.len());
    &buf[..n]
}

// (retired: the bounded harness total_sticky_v1 - StickyIndex::decode_v1 on inputs <= 12 bytes - was a stand-in until unit
// sticky proved IndexScope / StickyIndex / Assoc decoding total for ALL inputs; DESIGN.md 9.2)

// @harness name=total_assoc_v1 kind=complete tiers=quick,thorough domain="all byte strings (reads <= 11 bytes; lengths 0..=12)" bound="unwind 24, unwinding assertions on" target="Assoc::decode"
#[kani::proof]
#[kani::unwind(24)]
fn total_assoc_v1() {
    let buf: [u8; 12] = kani::any();
    let input = any_prefix(&buf);
    let _ = Assoc::decode_v1(input).map(|_| ());
}
