// Kani harnesses for the y-sync message framing (yrs/src/sync/protocol.rs). Public API only.
use crate::sync::protocol::{Message, SyncMessage};
use crate::updates::decoder::Decode;
use crate::updates::encoder::Encode;

fn any_data(max: usize) -> Vec<u8> {
    let n: usize = kani::any();
    kani::assume(n <= max);
    let mut v = Vec::with_capacity(max);
    let mut i = 0;
    while i < n {
        v.push(kani::any());
        i += 1;
    }
    v
}

// @harness name=rt_msg_custom kind=bounded tiers=quick,thorough domain="every custom tag 4..=255 x every payload of 0..=2 bytes" bound="payload length <= 2 (the tag byte, the point of the harness, ranges over its full domain)" target="Message::Custom encode/decode"
#[kani::proof]
#[kani::unwind(8)]
fn rt_msg_custom() {
    let tag: u8 = kani::any();
    kani::assume(tag >= 4); // tags 0..=3 are the built-in message kinds
    let data = any_data(2);
    let bytes = Message::Custom(tag, data.clone()).encode_v1();
    match Message::decode_v1(&bytes) {
        Ok(Message::Custom(t, d)) => {
            assert!(t == tag);
            assert!(d == data);
        }
        _ => panic!("custom message did not decode as a custom message"),
    }
}

// @harness name=rt_msg_sync kind=bounded tiers=quick,thorough domain="SyncStep2 / Update with every payload of 0..=2 bytes, AwarenessQuery, Auth(None)" bound="payload length <= 2" target="Message::{Sync,AwarenessQuery,Auth} / SyncMessage::{SyncStep2,Update} encode/decode"
#[kani::proof]
#[kani::unwind(8)]
fn rt_msg_sync() {
    let which: u8 = kani::any();
    kani::assume(which < 4);
    let data = any_data(2);
    let msg = match which {
        0 => Message::Sync(SyncMessage::SyncStep2(data.clone())),
        1 => Message::Sync(SyncMessage::Update(data.clone())),
        2 => Message::AwarenessQuery,
        _ => Message::Auth(None),
    };
    let bytes = msg.encode_v1();
    let back = Message::decode_v1(&bytes);
    match (which, back) {
        (0, Ok(Message::Sync(SyncMessage::SyncStep2(d)))) => assert!(d == data),
        (1, Ok(Message::Sync(SyncMessage::Update(d)))) => assert!(d == data),
        (2, Ok(Message::AwarenessQuery)) => {}
        (3, Ok(Message::Auth(None))) => {}
        _ => panic!("message kind changed in the round trip"),
    }
}
