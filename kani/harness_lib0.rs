// Kani harnesses for the lib0 primitive layer (yrs/src/encoding/{varint,read,write}.rs).
// Attached to a scratch copy of the crate as a cfg(kani) module; they call the REAL functions through the
// crate's own API (Write for Vec<u8>, Read for Cursor).  Every loop in this layer is bounded by the operand
// width (<= 11 iterations for 64-bit var-ints, 19 for u128), so with unwinding assertions on (Kani default)
// a SUCCESS is a complete proof over the full stated domain, not a bounded stand-in.
use crate::encoding::read::{Cursor, Read};
use crate::encoding::varint::Signed;
use crate::encoding::write::Write;

fn any_prefix<'a>(buf: &'a [u8]) -> &'a [u8] {
    let n: usize = kani::any();
    kani::assume(n <= buf.len());
    &buf[..n]
}

macro_rules! rt_var {
    ($name:ident, $t:ty) => {
        #[kani::proof]
        #[kani::unwind(12)]
        fn $name() {
            let v: $t = kani::any();
            let mut w: Vec<u8> = Vec::new();
            w.write_var(v);
            // a trailing byte shows the decoder stops exactly at the end of the encoding
            w.push(0xA5);
            let mut c = Cursor::new(&w);
            let r: $t = c.read_var().unwrap();
            assert!(r == v);
            assert!(c.next == w.len() - 1);
        }
    };
}

// ---- C09: decode(encode(x)) == x for every var-int width -------------------------------------------------
// @harness name=rt_var_u8 kind=complete tiers=quick,thorough domain="all u8" bound="unwind 12 >= max 5 iterations, unwinding assertions on" target="VarInt for u8"
rt_var!(rt_var_u8, u8);
// @harness name=rt_var_u16 kind=complete tiers=quick,thorough domain="all u16" bound="unwind 12, unwinding assertions on" target="VarInt for u16"
rt_var!(rt_var_u16, u16);
// @harness name=rt_var_u32 kind=complete tiers=quick,thorough domain="all u32" bound="unwind 12 >= 5 iterations, unwinding assertions on" target="write_var_u32/read_var_u32"
rt_var!(rt_var_u32, u32);
// @harness name=rt_var_u64 kind=complete tiers=quick,thorough domain="all u64" bound="unwind 12 >= 10 iterations, unwinding assertions on" target="write_var_u64/read_var_u64"
rt_var!(rt_var_u64, u64);
// @harness name=rt_var_usize kind=complete tiers=quick,thorough domain="all usize (64-bit)" bound="unwind 12, unwinding assertions on" target="VarInt for usize"
rt_var!(rt_var_usize, usize);
// @harness name=rt_var_i8 kind=complete tiers=quick,thorough domain="all i8" bound="unwind 12, unwinding assertions on" target="VarInt for i8"
rt_var!(rt_var_i8, i8);
// @harness name=rt_var_i16 kind=complete tiers=quick,thorough domain="all i16" bound="unwind 12, unwinding assertions on" target="VarInt for i16"
rt_var!(rt_var_i16, i16);
// @harness name=rt_var_i32 kind=complete tiers=quick,thorough domain="all i32" bound="unwind 12, unwinding assertions on" target="VarInt for i32"
rt_var!(rt_var_i32, i32);
// @harness name=rt_var_i64 kind=complete tiers=quick,thorough domain="all i64" bound="unwind 12 >= 10 iterations, unwinding assertions on" target="write_var_i64/read_var_i64"
rt_var!(rt_var_i64, i64);
// @harness name=rt_var_isize kind=complete tiers=quick,thorough domain="all isize (64-bit)" bound="unwind 12, unwinding assertions on" target="VarInt for isize"
rt_var!(rt_var_isize, isize);

// @harness name=rt_var_u128 kind=complete tiers=thorough domain="all u128" bound="unwind 21 >= 19 iterations, unwinding assertions on" target="VarInt for u128" timeout=900
#[kani::proof]
#[kani::unwind(21)]
fn rt_var_u128() {
    let v: u128 = kani::any();
    let mut w: Vec<u8> = Vec::new();
    w.write_var(v);
    let mut c = Cursor::new(&w);
    let r: u128 = c.read_var().unwrap();
    assert!(r == v);
    assert!(c.next == w.len());
}

// @harness name=rt_signed_i64 kind=complete tiers=quick,thorough domain="all Signed<i64> with value >= 0 or !neg... i.e. every (magnitude, sign) pair the encoder accepts: value in i64, is_negative == (value < 0) or value == 0 (the -0 case)" bound="unwind 12, unwinding assertions on" target="SignedVarInt for i64"
#[kani::proof]
#[kani::unwind(12)]
fn rt_signed_i64() {
    let v: i64 = kani::any();
    let neg: bool = kani::any();
    // Signed values are produced by the column codecs as (value, value < 0), plus -0
    kani::assume(neg == (v < 0) || v == 0);
    let s = Signed::new(v, neg);
    let mut w: Vec<u8> = Vec::new();
    w.write_var_signed(&s);
    w.push(0xA5);
    let mut c = Cursor::new(&w);
    let r: Signed<i64> = c.read_var_signed().unwrap();
    assert!(r.value() == v);
    assert!(r.is_negative() == neg);
    assert!(c.next == w.len() - 1);
}

// @harness name=rt_fixed kind=complete tiers=quick,thorough domain="all u16,u32,u64,i64 and all f32/f64 bit patterns" bound="loop-free" target="Write::{write_u16,write_u32,write_u32_be,write_u64,write_i64,write_f32,write_f64} / Read::{read_*}"
#[kani::proof]
#[kani::unwind(10)]
fn rt_fixed() {
    let a: u16 = kani::any();
    let b: u32 = kani::any();
    let c_: u32 = kani::any();
    let d: u64 = kani::any();
    let e: i64 = kani::any();
    let f: u32 = kani::any();
    let g: u64 = kani::any();
    let mut w: Vec<u8> = Vec::new();
    w.write_u16(a);
    w.write_u32(b);
    w.write_u32_be(c_);
    w.write_u64(d);
    w.write_i64(e);
    w.write_f32(f32::from_bits(f));
    w.write_f64(f64::from_bits(g));
    assert!(w.len() == 2 + 4 + 4 + 8 + 8 + 4 + 8);
    let mut c = Cursor::new(&w);
    assert!(c.read_u16().unwrap() == a);
    assert!(c.read_u32().unwrap() == b);
    assert!(c.read_u32_be().unwrap() == c_);
    assert!(c.read_u64().unwrap() == d);
    assert!(c.read_i64().unwrap() == e);
    assert!(c.read_f32().unwrap().to_bits() == f);
    assert!(c.read_f64().unwrap().to_bits() == g);
    assert!(!c.has_content());
}

// ---- C10: the primitive decoders are total on arbitrary bytes --------------------------------------------
// Each decoder reads at most 11 bytes (19 for u128) before it returns; the input is every byte string of
// length 0..=N (a symbolic prefix of a symbolic array), so every behaviour of the function is covered.
macro_rules! total_var {
    ($name:ident, $t:ty, $n:expr) => {
        #[kani::proof]
        #[kani::unwind(22)]
        fn $name() {
            let buf: [u8; $n] = kani::any();
            let input = any_prefix(&buf);
            let mut c = Cursor::new(input);
            let r: Result<$t, _> = c.read_var();
            // progress: a successful read consumed at least one byte and never ran past the input
            assert!(c.next <= input.len());
            if r.is_ok() {
                assert!(c.next >= 1);
            }
        }
    };
}
// @harness name=total_var_u8 kind=complete tiers=quick,thorough domain="all byte strings (function reads <= 11 bytes; inputs of length 0..=12)" bound="unwind 22, unwinding assertions on" target="VarInt::read for u8"
total_var!(total_var_u8, u8, 12);
// @harness name=total_var_u16 kind=complete tiers=quick,thorough domain="all byte strings (reads <= 11 bytes; lengths 0..=12)" bound="unwind 22, unwinding assertions on" target="VarInt::read for u16"
total_var!(total_var_u16, u16, 12);
// @harness name=total_var_u32 kind=complete tiers=quick,thorough domain="all byte strings (reads <= 11 bytes; lengths 0..=12)" bound="unwind 22, unwinding assertions on" target="read_var_u32"
total_var!(total_var_u32, u32, 12);
// @harness name=total_var_u64 kind=complete tiers=quick,thorough domain="all byte strings (reads <= 11 bytes; lengths 0..=12)" bound="unwind 22, unwinding assertions on" target="read_var_u64"
total_var!(total_var_u64, u64, 12);
// @harness name=total_var_usize kind=complete tiers=quick,thorough domain="all byte strings (reads <= 11 bytes; lengths 0..=12)" bound="unwind 22, unwinding assertions on" target="VarInt::read for usize"
total_var!(total_var_usize, usize, 12);
// @harness name=total_var_i64 kind=complete tiers=quick,thorough domain="all byte strings (reads <= 11 bytes; lengths 0..=12)" bound="unwind 22, unwinding assertions on" target="read_var_i64"
total_var!(total_var_i64, i64, 12);
// @harness name=total_var_i32 kind=complete tiers=quick,thorough domain="all byte strings (reads <= 11 bytes; lengths 0..=12)" bound="unwind 22, unwinding assertions on" target="VarInt::read for i32"
total_var!(total_var_i32, i32, 12);
// @harness name=total_var_i16 kind=complete tiers=thorough domain="all byte strings (reads <= 11 bytes; lengths 0..=12)" bound="unwind 22, unwinding assertions on" target="VarInt::read for i16"
total_var!(total_var_i16, i16, 12);
// @harness name=total_var_i8 kind=complete tiers=thorough domain="all byte strings (reads <= 11 bytes; lengths 0..=12)" bound="unwind 22, unwinding assertions on" target="VarInt::read for i8"
total_var!(total_var_i8, i8, 12);
// @harness name=total_var_isize kind=complete tiers=thorough domain="all byte strings (reads <= 11 bytes; lengths 0..=12)" bound="unwind 22, unwinding assertions on" target="VarInt::read for isize"
total_var!(total_var_isize, isize, 12);
// @harness name=total_var_u128 kind=complete tiers=thorough domain="all byte strings (reads <= 27 bytes; lengths 0..=28)" bound="unwind 30" target="VarInt::read for u128" timeout=900
#[kani::proof]
#[kani::unwind(30)]
fn total_var_u128() {
    let buf: [u8; 28] = kani::any();
    let input = any_prefix(&buf);
    let mut c = Cursor::new(input);
    let r: Result<u128, _> = c.read_var();
    assert!(c.next <= input.len());
    if r.is_ok() {
        assert!(c.next >= 1);
    }
}

// @harness name=total_signed_i64 kind=complete tiers=quick,thorough domain="all byte strings (reads <= 11 bytes; lengths 0..=12)" bound="unwind 22, unwinding assertions on" target="SignedVarInt::read_signed for i64"
#[kani::proof]
#[kani::unwind(22)]
fn total_signed_i64() {
    let buf: [u8; 12] = kani::any();
    let input = any_prefix(&buf);
    let mut c = Cursor::new(input);
    let r: Result<Signed<i64>, _> = c.read_var_signed();
    assert!(c.next <= input.len());
    if r.is_ok() {
        assert!(c.next >= 1);
    }
}

// @harness name=total_signed_i32 kind=complete tiers=thorough domain="all byte strings (reads <= 11 bytes; lengths 0..=12)" bound="unwind 22, unwinding assertions on" target="SignedVarInt::read_signed for i32"
#[kani::proof]
#[kani::unwind(22)]
fn total_signed_i32() {
    let buf: [u8; 12] = kani::any();
    let input = any_prefix(&buf);
    let mut c = Cursor::new(input);
    let r: Result<Signed<i32>, _> = c.read_var_signed();
    assert!(c.next <= input.len());
    if r.is_ok() {
        assert!(c.next >= 1);
    }
}

// @harness name=total_fixed kind=complete tiers=quick,thorough domain="all byte strings of length 0..=9 for each fixed-width reader (each reads <= 8 bytes)" bound="loop-free" target="Read::{read_u8,read_u16,read_u32,read_u32_be,read_u64,read_i64,read_f32,read_f64}, Cursor::{read_exact,read_u8}"
#[kani::proof]
#[kani::unwind(10)]
fn total_fixed() {
    let buf: [u8; 9] = kani::any();
    let input = any_prefix(&buf);
    let which: u8 = kani::any();
    let mut c = Cursor::new(input);
    match which {
        0 => { let _ = c.read_u8(); }
        1 => { let _ = c.read_u16(); }
        2 => { let _ = c.read_u32(); }
        3 => { let _ = c.read_u32_be(); }
        4 => { let _ = c.read_u64(); }
        5 => { let _ = c.read_i64(); }
        6 => { let _ = c.read_f32(); }
        _ => { let _ = c.read_f64(); }
    }
    assert!(c.next <= input.len());
}

// `read_exact(len)` is only ever called inside the crate with a constant or with a length that was read as a u32
// (read_buf), so the domain is len <= u32::MAX; on 64-bit targets `next + len` then cannot overflow.
// (On 32-bit targets it can: not covered here, listed as an unchecked assumption.)
// @harness name=total_read_exact kind=complete tiers=quick,thorough domain="every cursor position 0..=len over a buffer of length 0..=4 and every requested length 0..=u32::MAX (64-bit usize)" bound="loop-free" target="Cursor::read_exact"
#[kani::proof]
fn total_read_exact() {
    let buf: [u8; 4] = kani::any();
    let input = any_prefix(&buf);
    let mut c = Cursor::new(input);
    let pos: usize = kani::any();
    kani::assume(pos <= input.len());
    c.next = pos;
    let len: usize = kani::any();
    kani::assume(len <= u32::MAX as usize);
    let r = c.read_exact(len).map(|s| s.len());
    match r {
        Ok(n) => { assert!(n == len); assert!(c.next == pos + len); }
        Err(_) => { assert!(c.next == pos); }
    }
}

// @harness name=total_read_buf kind=complete tiers=quick,thorough domain="all byte strings of length 0..=8 (length prefix is any u32 var-int incl. values far beyond the input)" bound="unwind 22" target="Read::read_buf, Read::read_string framing"
#[kani::proof]
#[kani::unwind(22)]
fn total_read_buf() {
    let buf: [u8; 8] = kani::any();
    let input = any_prefix(&buf);
    let mut c = Cursor::new(input);
    let r = c.read_buf().map(|s| s.len());
    assert!(c.next <= input.len());
    if let Ok(n) = r {
        // the returned slice is taken from the input: its length is bounded by the input
        assert!(n <= input.len());
    }
}

// ---- delete-set range codec (yrs/src/id_set.rs: Encode/Decode for Range<u32>), v1 wire format
// @harness name=total_range_v1 kind=complete tiers=quick,thorough domain="all byte strings (reads <= 22 bytes; lengths 0..=23)" bound="unwind 24, unwinding assertions on" target="<Range<u32> as Decode>::decode (DecoderV1::read_ds_clock/read_ds_len)"
#[kani::proof]
#[kani::unwind(24)]
fn total_range_v1() {
    use crate::updates::decoder::Decode;
    let buf: [u8; 23] = kani::any();
    let input = any_prefix(&buf);
    if let Ok(r) = <std::ops::Range<u32> as Decode>::decode_v1(input) {
        assert!(r.start <= r.end);
    }
}

// (slow: EncoderV1::new pre-allocates 1 KiB; thorough tier only)
// @harness name=rt_range_v1 kind=complete tiers=thorough domain="all ranges start <= end over u32" bound="unwind 12, unwinding assertions on" timeout=1500 target="<Range<u32> as Encode>::encode / Decode::decode (v1)"
#[kani::proof]
#[kani::unwind(12)]
fn rt_range_v1() {
    use crate::updates::decoder::Decode;
    use crate::updates::encoder::{Encode, Encoder, EncoderV1};
    let start: u32 = kani::any();
    let end: u32 = kani::any();
    kani::assume(start <= end);
    let r = start..end;
    let mut e = EncoderV1::new();
    r.encode(&mut e);
    let bytes = e.to_vec();
    let back = <std::ops::Range<u32> as Decode>::decode_v1(&bytes).unwrap();
    assert!(back.start == start && back.end == end);
}
