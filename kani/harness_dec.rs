// @attach yrs/src/updates/decoder.rs as vx_kani_dec
// Kani harnesses for the v2 column decoders and the section framing of yrs/src/updates/decoder.rs.
// Attached (cfg(kani)) inside the module so that the private decoder structs are reachable.
use super::*;
use crate::updates::encoder::vx_kani_enc::enc_rle;

fn any_prefix<'a>(buf: &'a [u8]) -> &'a [u8] {
    let n: usize = kani::any();
    kani::assume(n <= buf.len());
    &buf[..n]
}

// ---- C10: one decoding step from an ARBITRARY decoder state on arbitrary bytes never panics.
// Every reachable state is a state, so this is the inductive step of "the column decoder is total";
// each step reads at most 22 bytes (an i32/i64 var-int and a u32 var-int), inputs are all strings of 0..=23 bytes.

// @harness name=total_intdiff_step kind=complete tiers=quick,thorough domain="all states (last,count,diff) x all byte strings of length 0..=23 (a step reads <= 22 bytes)" bound="unwind 24, unwinding assertions on" target="IntDiffOptRleDecoder::read_u32"
#[kani::proof]
#[kani::unwind(24)]
fn total_intdiff_step() {
    let buf: [u8; 23] = kani::any();
    let input = any_prefix(&buf);
    let mut d = IntDiffOptRleDecoder::new(Cursor::new(input));
    d.last = kani::any();
    d.count = kani::any();
    d.diff = kani::any();
    let before = d.cursor.next;
    let c0 = d.count;
    let r = d.read_u32();
    assert!(d.cursor.next <= input.len());
    // progress: a step that had to refill consumed input
    if r.is_ok() && c0 == 0 {
        assert!(d.cursor.next > before);
    }
}

// @harness name=total_uintopt_step kind=complete tiers=quick,thorough domain="all states (last,count) x all byte strings of length 0..=23" bound="unwind 24, unwinding assertions on" target="UIntOptRleDecoder::read_u64"
#[kani::proof]
#[kani::unwind(24)]
fn total_uintopt_step() {
    let buf: [u8; 23] = kani::any();
    let input = any_prefix(&buf);
    let mut d = UIntOptRleDecoder::new(Cursor::new(input));
    d.last = kani::any();
    d.count = kani::any();
    let before = d.cursor.next;
    let c0 = d.count;
    let r = d.read_u64();
    assert!(d.cursor.next <= input.len());
    if r.is_ok() && c0 == 0 {
        assert!(d.cursor.next > before);
    }
}

// @harness name=total_rle_step kind=complete tiers=quick,thorough domain="all states (last,count) x all byte strings of length 0..=13" bound="unwind 14, unwinding assertions on" target="RleDecoder::read_u8"
#[kani::proof]
#[kani::unwind(14)]
fn total_rle_step() {
    let buf: [u8; 13] = kani::any();
    let input = any_prefix(&buf);
    let mut d = RleDecoder::new(Cursor::new(input));
    d.last = kani::any();
    d.count = kani::any();
    let _ = d.read_u8();
    assert!(d.cursor.next <= input.len());
}

// @harness name=total_v2_read_buf kind=bounded tiers=quick,thorough domain="all buffers of length 0..=21 and every start index <= len" bound="buffer length <= 21 (read_usize reads <= 19 bytes; longer buffers only change the comparison end <= buf.len())" target="DecoderV2::read_usize, DecoderV2::read_buf"
#[kani::proof]
#[kani::unwind(22)]
fn total_v2_read_buf() {
    let buf: [u8; 21] = kani::any();
    let input = any_prefix(&buf);
    let mut idx: usize = kani::any();
    kani::assume(idx <= input.len());
    let i0 = idx;
    let r = DecoderV2::read_buf(input, &mut idx).map(|s| s.len());
    if let Ok(n) = r {
        assert!(idx <= input.len());
        assert!(idx == i0 + (idx - i0));
        assert!(n <= input.len());
    }
}

// (retired: the bounded harness total_v2_new - DecoderV2::new on inputs <= 12 bytes - was a stand-in until unit lib0_v2 proved
// DecoderV2::new and StringDecoder::new total and exact for ALL inputs (labels v2_new, string_dec_new); DESIGN.md 9.2)

// @harness name=total_v2_ds kind=complete tiers=quick,thorough domain="all accumulator values ds_curr_val x all byte strings of length 0..=12" bound="unwind 22, unwinding assertions on" target="DecoderV2::{read_ds_clock,read_ds_len,reset_ds_cur_val}"
#[kani::proof]
#[kani::unwind(22)]
fn total_v2_ds() {
    let buf: [u8; 12] = kani::any();
    let input = any_prefix(&buf);
    let empty: &[u8] = &[];
    // built field by field (DecoderV2::new itself is the subject of total_v2_new)
    let mut d = DecoderV2 {
        cursor: Cursor::new(input),
        keys: Vec::new(),
        ds_curr_val: kani::any(),
        key_clock_decoder: IntDiffOptRleDecoder::new(Cursor::new(empty)),
        client_decoder: UIntOptRleDecoder::new(Cursor::new(empty)),
        left_clock_decoder: IntDiffOptRleDecoder::new(Cursor::new(empty)),
        right_clock_decoder: IntDiffOptRleDecoder::new(Cursor::new(empty)),
        info_decoder: RleDecoder::new(Cursor::new(empty)),
        string_decoder: StringDecoder { buf: "", len_decoder: UIntOptRleDecoder::new(Cursor::new(empty)), pos: 0 },
        parent_info_decoder: RleDecoder::new(Cursor::new(empty)),
        type_ref_decoder: UIntOptRleDecoder::new(Cursor::new(empty)),
        len_decoder: UIntOptRleDecoder::new(Cursor::new(empty)),
    };
    let which: bool = kani::any();
    let before = d.ds_curr_val;
    if which {
        if let Ok(c) = d.read_ds_clock() {
            assert!(c >= before);
        }
    } else {
        if let Ok(l) = d.read_ds_len() {
            assert!(l >= 1);
            assert!(d.ds_curr_val >= before);
        }
    }
}

// ---- C09: RLE byte column round trip for all byte triples (bounded sequence length; slow: Vec growth)
// @harness name=rt_rle_3 kind=bounded tiers=thorough domain="all sequences of 3 bytes" bound="sequence length 3" target="RleEncoder::{write_u8,to_vec} / RleDecoder::read_u8" timeout=1500
#[kani::proof]
#[kani::unwind(12)]
fn rt_rle_3() {
    let v: [u8; 3] = kani::any();
    let bytes = enc_rle(&v);
    let mut d = RleDecoder::new(Cursor::new(&bytes));
    assert!(d.read_u8().unwrap() == v[0]);
    assert!(d.read_u8().unwrap() == v[1]);
    assert!(d.read_u8().unwrap() == v[2]);
}

// ---- C10: StringDecoder::read_str on an arbitrary string table and arbitrary length column
// @harness name=total_read_str kind=bounded tiers=quick,thorough domain="every valid UTF-8 string table of <= 4 bytes x every position on a character boundary x every requested UTF-16 length in u64 (also beyond the table and inside a surrogate pair)" bound="string table <= 4 bytes" target="StringDecoder::read_str" timeout=600
#[kani::proof]
#[kani::unwind(6)]
fn total_read_str() {
    let sbuf: [u8; 4] = kani::any();
    let n: usize = kani::any();
    kani::assume(n <= 4);
    let table = match std::str::from_utf8(&sbuf[..n]) {
        Ok(s) => s,
        Err(_) => {
            kani::assume(false);
            ""
        }
    };
    let pos: usize = kani::any();
    kani::assume(pos <= table.len() && table.is_char_boundary(pos));
    // the length column is put into the state "one pending value": read_u64 then returns `last` without touching bytes,
    // so the requested UTF-16 length ranges over every u64 (the column decoder itself is the subject of total_uintopt_step)
    let empty: &[u8] = &[];
    let mut len_decoder = UIntOptRleDecoder::new(Cursor::new(empty));
    len_decoder.last = kani::any();
    len_decoder.count = 1;
    let mut d = StringDecoder { buf: table, len_decoder, pos };
    if let Ok(s) = d.read_str() {
        // the returned piece comes from the table and the position only moves forward inside it
        assert!(d.pos <= table.len());
        assert!(d.pos == pos + s.len());
    }
}
