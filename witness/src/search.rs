//! Exhaustive small-scope enumeration of cases per target.

use crate::json::J;
use crate::model::*;
use crate::sut::{self, INSERT_BUILDS, REMOVE_BUILDS};
use std::collections::HashSet;
use std::panic::{catch_unwind, AssertUnwindSafe};
use std::sync::atomic::{AtomicBool, AtomicUsize, Ordering};
use std::time::Instant;

/// Attributed states are enumerated exhaustively while there are at most this
/// many (4^6); above that a deterministic sample of this size is used (plus
/// every state made of at most two runs).
const MAP_STATE_LIMIT: usize = 4096;
/// Attributed ordered pairs are enumerated exhaustively while there are at
/// most this many (universe <= 4); above that a deterministic sample of about
/// this size is used.
const MAP_PAIR_BUDGET: usize = 65536;
/// Same for attributed two-client pairs (256 states over a 2-clock universe):
/// those exist for the per-client lifting only.
const MAP_PAIR_BUDGET_2C: usize = 8192;

#[derive(Clone, Copy, PartialEq, Eq, Debug)]
pub enum Group {
    Insert,
    Remove,
    Merge,
    Exclude,
    Intersect,
    SubsetOf,
    ContainsClock,
    FindStart,
    ClockStart,
    ClockEnd,
    Lift,
    NonMut,
    FromIdMap,
    FromStore,
    Filter,
}

pub const TARGETS: &str = "insert_with | insert | remove | merge | exclude | intersect | subset_of | \
is_range_covered | contains_clock | find_start | clock_start | clock_end | push_coalesced | all | lift | \
nonmut | from_idmap | from_store | filter | lift_all";

/// `(group, target label written into the witness)`.
pub fn groups_for(target: &str) -> Option<Vec<(Group, String)>> {
    let own = |g: Group| Some(vec![(g, target.to_string())]);
    match target {
        "insert_with" | "insert" => own(Group::Insert),
        "remove" => own(Group::Remove),
        "merge" => own(Group::Merge),
        "exclude" => own(Group::Exclude),
        "intersect" => own(Group::Intersect),
        "subset_of" | "is_range_covered" => own(Group::SubsetOf),
        "contains_clock" => own(Group::ContainsClock),
        "find_start" => own(Group::FindStart),
        "clock_start" => own(Group::ClockStart),
        "clock_end" => own(Group::ClockEnd),
        // internal helper of insert_with and merge
        "push_coalesced" => Some(vec![
            (Group::Insert, target.to_string()),
            (Group::Merge, target.to_string()),
        ]),
        // per-client lifting of empty-range inserts (see README); not part of `all`
        "lift" => own(Group::Lift),
        // per-client lifting (IdMapInner / IdSet / IdMap level); not part of `all`
        "nonmut" => own(Group::NonMut),
        "from_idmap" => own(Group::FromIdMap),
        "from_store" => own(Group::FromStore),
        "filter" => own(Group::Filter),
        "lift_all" => Some(vec![
            (Group::NonMut, "nonmut".to_string()),
            (Group::FromIdMap, "from_idmap".to_string()),
            (Group::FromStore, "from_store".to_string()),
            (Group::Filter, "filter".to_string()),
        ]),
        "all" => Some(vec![
            (Group::ContainsClock, "contains_clock".to_string()),
            (Group::ClockStart, "clock_start".to_string()),
            (Group::ClockEnd, "clock_end".to_string()),
            (Group::FindStart, "find_start".to_string()),
            (Group::Insert, "insert_with".to_string()),
            (Group::Remove, "remove".to_string()),
            (Group::SubsetOf, "subset_of".to_string()),
            (Group::Merge, "merge".to_string()),
            (Group::Exclude, "exclude".to_string()),
            (Group::Intersect, "intersect".to_string()),
        ]),
        _ => None,
    }
}

pub struct Found {
    pub case: Case,
    pub failure: Failure,
}

pub enum Stop {
    Found(Box<Found>),
    Timeout,
}

/// Runs one case against the real crate; a panic of the code under test is a
/// disagreement like any other.
pub fn run_guarded(case: &Case) -> Result<(), Failure> {
    match catch_unwind(AssertUnwindSafe(|| sut::run_case(case))) {
        Ok(r) => r,
        Err(payload) => {
            let msg = if let Some(s) = payload.downcast_ref::<&str>() {
                s.to_string()
            } else if let Some(s) = payload.downcast_ref::<String>() {
                s.clone()
            } else {
                "non-string panic payload".to_string()
            };
            Err(Failure {
                why: format!("panic: {}", msg),
                expected: J::Null,
                actual: J::Null,
                api: String::new(),
            })
        }
    }
}

pub fn found_json(case: &Case, f: &Failure) -> J {
    let mut fields = case.to_json_fields();
    fields.push(("expected", f.expected.clone()));
    fields.push(("actual", f.actual.clone()));
    fields.push(("why", J::str(&f.why)));
    fields.push(("api", J::str(&f.api)));
    J::obj(fields)
}

struct Rng(u64);

impl Rng {
    fn next(&mut self) -> u64 {
        // splitmix64
        self.0 = self.0.wrapping_add(0x9E37_79B9_7F4A_7C15);
        let mut z = self.0;
        z = (z ^ (z >> 30)).wrapping_mul(0xBF58_476D_1CE4_E5B9);
        z = (z ^ (z >> 27)).wrapping_mul(0x94D0_49BB_1331_11EB);
        z ^ (z >> 31)
    }
    fn below(&mut self, n: usize) -> usize {
        (self.next() % n as u64) as usize
    }
}

/// A list of starting states over one universe.
struct StateSet {
    states: Vec<O>,
    /// single-run states (plus the empty one) used as partners when pairs are sampled
    simple: Vec<O>,
    universe: u32,
    clients: &'static [u64],
}

pub struct Search {
    pub n: u32,
    pub seed: u64,
    pub deadline: Option<Instant>,
    pub jobs: usize,
    pub cases: u64,
    /// Enumerate the single-client state lists (universe `n`).
    pub single_client: bool,
    /// Enumerate the two-client state lists (their universe does not grow
    /// with `n`, so a staged search runs them once).
    pub two_clients: bool,
    /// Is this the last stage of a staged search (see `cmd_search`), the one
    /// whose `n` is the requested universe?
    pub last_stage: bool,
}

/// Per-thread executor of cases.
struct Worker {
    seed: u64,
    deadline: Option<Instant>,
    cases: u64,
}

impl Worker {
    fn exec(&mut self, target: &str, is_map: bool, universe: u32, state: O, other: Option<O>, op: Op) -> Result<(), Stop> {
        if self.cases % 64 == 0 {
            if let Some(d) = self.deadline {
                if Instant::now() >= d {
                    return Err(Stop::Timeout);
                }
            }
        }
        self.cases += 1;
        let case = Case {
            target: target.to_string(),
            is_map,
            universe,
            state,
            other,
            op,
        };
        match run_guarded(&case) {
            Ok(()) => Ok(()),
            Err(failure) => Err(Stop::Found(Box::new(Found { case, failure }))),
        }
    }
}

type StateFn = fn(&mut Worker, &str, bool, &StateSet, usize) -> Result<(), Stop>;

impl Search {
    /// Runs `f` for every state index of `ss`, spread over `jobs` threads.
    /// The reported disagreement is the one a sequential run would hit first
    /// (smallest state index; within a state the order is sequential).
    fn for_states(&mut self, label: &str, is_map: bool, ss: &StateSet, f: StateFn) -> Result<(), Stop> {
        self.for_indices(ss.states.len(), &|w: &mut Worker, i: usize| f(w, label, is_map, ss, i))
    }

    /// Runs `f` for every index below `count`, spread over `jobs` threads; the
    /// reported disagreement is the one with the smallest index.
    fn for_indices(
        &mut self,
        count: usize,
        f: &(dyn Fn(&mut Worker, usize) -> Result<(), Stop> + Sync),
    ) -> Result<(), Stop> {
        let jobs = self.jobs.max(1).min(count.max(1));
        let best = AtomicUsize::new(usize::MAX);
        let timed_out = AtomicBool::new(false);
        let (seed, deadline) = (self.seed, self.deadline);
        let mut results: Vec<(u64, Option<(usize, Box<Found>)>)> = Vec::new();
        std::thread::scope(|scope| {
            let handles: Vec<_> = (0..jobs)
                .map(|t| {
                    let (best, timed_out) = (&best, &timed_out);
                    scope.spawn(move || {
                        let mut w = Worker {
                            seed,
                            deadline,
                            cases: 0,
                        };
                        let mut found = None;
                        let mut i = t;
                        while i < count {
                            if i > best.load(Ordering::Relaxed) || timed_out.load(Ordering::Relaxed) {
                                break;
                            }
                            match f(&mut w, i) {
                                Ok(()) => {}
                                Err(Stop::Found(fd)) => {
                                    best.fetch_min(i, Ordering::Relaxed);
                                    found = Some((i, fd));
                                    break;
                                }
                                Err(Stop::Timeout) => {
                                    timed_out.store(true, Ordering::Relaxed);
                                    break;
                                }
                            }
                            i += jobs;
                        }
                        (w.cases, found)
                    })
                })
                .collect();
            for h in handles {
                match h.join() {
                    Ok(r) => results.push(r),
                    // cannot happen (panics of the code under test are caught per case)
                    Err(_) => results.push((0, None)),
                }
            }
        });
        let mut first: Option<(usize, Box<Found>)> = None;
        for (cases, found) in results {
            self.cases += cases;
            if let Some((i, fd)) = found {
                if first.as_ref().map(|(j, _)| i < *j).unwrap_or(true) {
                    first = Some((i, fd));
                }
            }
        }
        if let Some((_, fd)) = first {
            return Err(Stop::Found(fd));
        }
        if timed_out.load(Ordering::Relaxed) {
            return Err(Stop::Timeout);
        }
        Ok(())
    }

    // ---- starting states ---------------------------------------------------

    fn set_states(&self) -> Vec<StateSet> {
        let n = self.n;
        let single = StateSet {
            states: (0..(1u32 << n)).map(|m| O::from_mask(0, m)).collect(),
            simple: Vec::new(),
            universe: n,
            clients: &[1],
        };
        // two clients, for the per-client lifting
        let n2 = n.min(3);
        let mut two = Vec::new();
        for m1 in 0..(1u32 << n2) {
            for m2 in 0..(1u32 << n2) {
                let mut o = O::from_mask(0, m1);
                o.set_mask(1, m2);
                two.push(o);
            }
        }
        vec![
            single,
            StateSet {
                states: two,
                simple: Vec::new(),
                universe: n2,
                clients: &[1, 2],
            },
        ]
    }

    fn map_states(&self) -> Vec<StateSet> {
        let n = self.n;
        let mut simple = vec![O::empty()];
        for s in 0..n {
            for e in (s + 1)..=n {
                for v in 1..=3u8 {
                    simple.push(O::from_runs(0, &[(s, e, v)]));
                }
            }
        }
        let total: u128 = 1u128 << (2 * n);
        let states: Vec<O> = if total <= MAP_STATE_LIMIT as u128 {
            (0..total as u64)
                .map(|code| {
                    let mut o = O::empty();
                    o.set_code(0, code, n);
                    o
                })
                .collect()
        } else {
            let mut seen: HashSet<O> = HashSet::new();
            let mut out: Vec<O> = Vec::new();
            let mut push = |o: O, out: &mut Vec<O>| {
                if seen.insert(o) {
                    out.push(o);
                }
            };
            // every state made of at most two runs
            for o in &simple {
                push(*o, &mut out);
            }
            for s1 in 0..n {
                for e1 in (s1 + 1)..=n {
                    for s2 in e1..n {
                        for e2 in (s2 + 1)..=n {
                            for v1 in 1..=3u8 {
                                for v2 in 1..=3u8 {
                                    if s2 == e1 && v1 == v2 {
                                        continue;
                                    }
                                    push(O::from_runs(0, &[(s1, e1, v1), (s2, e2, v2)]), &mut out);
                                }
                            }
                        }
                    }
                }
            }
            // deterministic pseudo-random sample: half uniform, half run-biased
            let mut rng = Rng(self.seed ^ 0x5EED_0000_0000_0001);
            let want = out.len() + MAP_STATE_LIMIT;
            let mut i = 0u64;
            while out.len() < want {
                let mut o = O::empty();
                let biased = i % 2 == 1;
                let mut prev = 0u8;
                for k in 0..n as usize {
                    let r = rng.next();
                    let v = if biased && k > 0 && r & 4 != 0 { prev } else { (r & 3) as u8 };
                    o.0[0][k] = v;
                    prev = v;
                }
                i += 1;
                push(o, &mut out);
            }
            out
        };
        let single = StateSet {
            states,
            simple,
            universe: n,
            clients: &[1],
        };
        let n2 = n.min(2);
        let mut two = Vec::new();
        let per_client = 1u64 << (2 * n2);
        for c1 in 0..per_client {
            for c2 in 0..per_client {
                let mut o = O::empty();
                o.set_code(0, c1, n2);
                o.set_code(1, c2, n2);
                two.push(o);
            }
        }
        vec![
            single,
            StateSet {
                states: two,
                simple: Vec::new(),
                universe: n2,
                clients: &[1, 2],
            },
        ]
    }

    fn state_sets(&self, is_map: bool) -> Vec<StateSet> {
        let all = if is_map {
            self.map_states()
        } else {
            self.set_states()
        };
        all.into_iter()
            .filter(|ss| if ss.clients.len() > 1 { self.two_clients } else { self.single_client })
            .collect()
    }

    // ---- groups --------------------------------------------------------------

    pub fn run_group(&mut self, g: Group, label: &str) -> Result<(), Stop> {
        match g {
            // direct single-operation cases first: they make the simplest witnesses
            Group::Insert => {
                self.unary(label, &[false, true], insert_cases)?;
                self.unary(label, &[false, true], insert_build_cases)
            }
            Group::Lift => self.unary(label, &[false], lift_cases),
            Group::Remove => {
                self.unary(label, &[false, true], remove_cases)?;
                self.unary(label, &[false, true], remove_build_cases)
            }
            Group::ContainsClock => self.unary(label, &[false, true], contains_cases),
            Group::FindStart => self.unary(label, &[false, true], find_start_cases),
            Group::ClockStart => self.unary(label, &[false], clock_start_cases),
            Group::ClockEnd => self.unary(label, &[false], clock_end_cases),
            Group::Merge => self.unary(label, &[false, true], merge_pairs),
            Group::Exclude => self.unary(label, &[false, true], exclude_pairs),
            Group::Intersect => self.unary(label, &[false, true], intersect_pairs),
            Group::SubsetOf => self.unary(label, &[false], subset_pairs),
            Group::NonMut => {
                for ss in self.nonmut_states() {
                    self.for_states(label, false, &ss, nonmut_pairs)?;
                }
                Ok(())
            }
            Group::FromIdMap => {
                for ss in self.from_idmap_states() {
                    self.for_states(label, true, &ss, from_idmap_cases)?;
                }
                Ok(())
            }
            Group::Filter => {
                for ss in self.from_idmap_states() {
                    self.for_states(label, true, &ss, filter_cases)?;
                }
                Ok(())
            }
            Group::FromStore => {
                // the script list is its own iterative deepening (smallest
                // documents first): it runs once per search, in the stage that
                // carries the requested universe
                if !self.last_stage {
                    return Ok(());
                }
                let scripts = store_scripts(self.n);
                self.for_indices(scripts.len(), &|w: &mut Worker, i: usize| {
                    w.exec(label, false, script_universe(&scripts[i]), O::empty(), None, Op::FromStore(scripts[i].clone()))
                })
            }
        }
    }

    /// Set states for the non-mutating operations: one client over universe
    /// `n`, and two clients with an independent subset each over a smaller
    /// universe (2 clocks in the first stage of a staged search, 4 in the last:
    /// 256 states, 65536 ordered pairs).
    fn nonmut_states(&self) -> Vec<StateSet> {
        let n = self.n;
        let n2 = if self.last_stage { n.min(4) } else { n.min(2) };
        let mut two = Vec::new();
        for m1 in 0..(1u32 << n2) {
            for m2 in 0..(1u32 << n2) {
                let mut o = O::from_mask(0, m1);
                o.set_mask(1, m2);
                two.push(o);
            }
        }
        vec![
            StateSet {
                states: (0..(1u32 << n)).map(|m| O::from_mask(0, m)).collect(),
                simple: Vec::new(),
                universe: n,
                clients: &[1],
            },
            StateSet {
                states: two,
                simple: Vec::new(),
                universe: n2,
                clients: &[1, 2],
            },
        ]
    }

    /// The attributed states of `map_states` (single client over `n`, two
    /// clients over 2 clocks); when universe `n` is only sampled, the largest
    /// exhaustive universe (6 clocks, 4096 states) is enumerated as well.
    fn from_idmap_states(&self) -> Vec<StateSet> {
        let mut out = Vec::new();
        let exhaustive = (1u128 << (2 * self.n)) <= MAP_STATE_LIMIT as u128;
        if !exhaustive && self.single_client {
            let mut m = 1u32;
            while (1u128 << (2 * (m + 1))) <= MAP_STATE_LIMIT as u128 {
                m += 1;
            }
            let small = Search {
                n: m,
                seed: self.seed,
                deadline: None,
                jobs: 1,
                cases: 0,
                single_client: true,
                two_clients: false,
                last_stage: false,
            };
            out.extend(small.state_sets(true));
        }
        out.extend(self.state_sets(true));
        out
    }

    fn unary(&mut self, label: &str, variants: &[bool], f: StateFn) -> Result<(), Stop> {
        for &is_map in variants {
            for ss in self.state_sets(is_map) {
                self.for_states(label, is_map, &ss, f)?;
            }
        }
        Ok(())
    }
}

fn values(is_map: bool) -> &'static [u8] {
    if is_map {
        &[A_BIT, B_BIT, A_BIT | B_BIT]
    } else {
        &[UNIT]
    }
}

fn builds(w: &mut Worker, label: &str, is_map: bool, ss: &StateSet, st: &O, methods: &[&str]) -> Result<(), Stop> {
    for m in methods {
        let set_only = *m == "full_remove";
        let map_only = m.starts_with("layered");
        if (is_map && set_only) || (!is_map && map_only) {
            continue;
        }
        w.exec(label, is_map, ss.universe, *st, None, Op::Build { method: m.to_string() })?;
    }
    Ok(())
}

/// IdSet::insert with an empty range on a client that has no entry yet is
/// a question about the per-client lifting, not about IdRanges::insert_with;
/// those cases live in group `Lift`.
fn is_lift_case(is_map: bool, st: &O, ci: usize, s: u32, e: u32) -> bool {
    !is_map && s == e && st.client_is_empty(ci)
}

fn insert_cases(w: &mut Worker, label: &str, is_map: bool, ss: &StateSet, idx: usize) -> Result<(), Stop> {
    let st = &ss.states[idx];
    let u = ss.universe;
    for (ci, &client) in ss.clients.iter().enumerate() {
        for s in 0..=u {
            for e in s..=u {
                if is_lift_case(is_map, st, ci, s, e) {
                    continue;
                }
                for &v in values(is_map) {
                    w.exec(label, is_map, u, *st, None, Op::Insert { client, s, e, v })?;
                }
            }
        }
    }
    Ok(())
}

/// Alternative construction orders, and PartialEq / encoding against a
/// differently built equal value and against every one-clock neighbour.
fn insert_build_cases(w: &mut Worker, label: &str, is_map: bool, ss: &StateSet, idx: usize) -> Result<(), Stop> {
    let st = &ss.states[idx];
    let u = ss.universe;
    builds(w, label, is_map, ss, st, &INSERT_BUILDS)?;
    w.exec(label, is_map, u, *st, Some(*st), Op::Equal)?;
    for ci in 0..ss.clients.len() {
        for k in 0..u as usize {
            let mut o = *st;
            o.0[ci][k] = if is_map {
                (o.0[ci][k] + 1) % 4
            } else if o.0[ci][k] == 0 {
                UNIT
            } else {
                0
            };
            w.exec(label, is_map, u, *st, Some(o), Op::Equal)?;
        }
    }
    Ok(())
}

fn lift_cases(w: &mut Worker, label: &str, is_map: bool, ss: &StateSet, idx: usize) -> Result<(), Stop> {
    let st = &ss.states[idx];
    let u = ss.universe;
    // also probe client 2 on the single-client state lists
    for (ci, &client) in CLIENTS.iter().enumerate() {
        for s in 0..=u {
            if is_lift_case(is_map, st, ci, s, s) {
                w.exec(label, is_map, u, *st, None, Op::Insert { client, s, e: s, v: UNIT })?;
            }
        }
    }
    Ok(())
}

fn remove_cases(w: &mut Worker, label: &str, is_map: bool, ss: &StateSet, idx: usize) -> Result<(), Stop> {
    let st = &ss.states[idx];
    let u = ss.universe;
    for &client in ss.clients {
        for s in 0..=(u + 1) {
            for e in s..=(u + 1) {
                w.exec(label, is_map, u, *st, None, Op::Remove { client, s, e })?;
            }
        }
    }
    Ok(())
}

fn remove_build_cases(w: &mut Worker, label: &str, is_map: bool, ss: &StateSet, idx: usize) -> Result<(), Stop> {
    let st = &ss.states[idx];
    builds(w, label, is_map, ss, st, &REMOVE_BUILDS)
}

fn contains_cases(w: &mut Worker, label: &str, is_map: bool, ss: &StateSet, idx: usize) -> Result<(), Stop> {
    let st = &ss.states[idx];
    for &client in ss.clients {
        for clock in 0..=(ss.universe + 1) {
            w.exec(label, is_map, ss.universe, *st, None, Op::ContainsClock { client, clock })?;
        }
    }
    Ok(())
}

fn find_start_cases(w: &mut Worker, label: &str, is_map: bool, ss: &StateSet, idx: usize) -> Result<(), Stop> {
    let st = &ss.states[idx];
    let u = ss.universe;
    for &client in ss.clients {
        if is_map {
            // find_start is reached through IdMap::attributions
            for s in 0..=(u + 1) {
                for e in s..=(u + 1) {
                    w.exec(label, true, u, *st, None, Op::Attributions { client, s, e })?;
                }
            }
        } else {
            for clock in 0..=(u + 1) {
                w.exec(label, false, u, *st, None, Op::FindStart { client, clock })?;
            }
        }
    }
    Ok(())
}

fn clock_start_cases(w: &mut Worker, label: &str, is_map: bool, ss: &StateSet, idx: usize) -> Result<(), Stop> {
    let st = &ss.states[idx];
    for &client in ss.clients {
        w.exec(label, is_map, ss.universe, *st, None, Op::ClockStart { client })?;
    }
    Ok(())
}

fn clock_end_cases(w: &mut Worker, label: &str, is_map: bool, ss: &StateSet, idx: usize) -> Result<(), Stop> {
    let st = &ss.states[idx];
    for &client in ss.clients {
        w.exec(label, is_map, ss.universe, *st, None, Op::ClockEnd { client })?;
    }
    Ok(())
}

/// Binary operations: state `idx` against its partners, as ordered pairs.
fn pairs(w: &mut Worker, label: &str, is_map: bool, ss: &StateSet, idx: usize, op: Op, salt: u64) -> Result<(), Stop> {
    if matches!(op, Op::SubsetOf { .. }) && ss.clients.len() > 1 {
        return Ok(()); // subset_of is a per-client (IdRange) operation
    }
    let a = ss.states[idx];
    let len = ss.states.len();
    let budget = if ss.clients.len() > 1 { MAP_PAIR_BUDGET_2C } else { MAP_PAIR_BUDGET };
    let exhaustive = !is_map || len.saturating_mul(len) <= budget;
    if exhaustive {
        for b in &ss.states {
            w.exec(label, is_map, ss.universe, a, Some(*b), op.clone())?;
        }
        return Ok(());
    }
    // sampled: every state meets `k` partners, alternating between single-run
    // partners and arbitrary ones, in both orders; the choice depends on
    // (seed, operation, state index) only, never on thread scheduling
    let k = (budget / len).max(4);
    let mut rng = Rng(w.seed ^ (0xA11C_E000 + salt) ^ (idx as u64).wrapping_mul(0x2545_F491_4F6C_DD1D));
    for t in 0..k {
        let b = if t % 2 == 0 && !ss.simple.is_empty() {
            ss.simple[rng.below(ss.simple.len())]
        } else {
            ss.states[rng.below(len)]
        };
        let (x, y) = if t % 4 < 2 { (a, b) } else { (b, a) };
        w.exec(label, is_map, ss.universe, x, Some(y), op.clone())?;
    }
    Ok(())
}

fn merge_pairs(w: &mut Worker, label: &str, is_map: bool, ss: &StateSet, idx: usize) -> Result<(), Stop> {
    pairs(w, label, is_map, ss, idx, Op::Merge, 1)
}

fn exclude_pairs(w: &mut Worker, label: &str, is_map: bool, ss: &StateSet, idx: usize) -> Result<(), Stop> {
    pairs(w, label, is_map, ss, idx, Op::Exclude, 2)
}

fn intersect_pairs(w: &mut Worker, label: &str, is_map: bool, ss: &StateSet, idx: usize) -> Result<(), Stop> {
    pairs(w, label, is_map, ss, idx, Op::Intersect, 3)
}

fn subset_pairs(w: &mut Worker, label: &str, is_map: bool, ss: &StateSet, idx: usize) -> Result<(), Stop> {
    pairs(w, label, is_map, ss, idx, Op::SubsetOf { client: 1 }, 4)
}

// ---- lifted operations -------------------------------------------------------

/// Every ordered pair, every non-mutating operation.
fn nonmut_pairs(w: &mut Worker, label: &str, _is_map: bool, ss: &StateSet, idx: usize) -> Result<(), Stop> {
    let a = ss.states[idx];
    for b in &ss.states {
        for which in NONMUT_KINDS {
            w.exec(label, false, ss.universe, a, Some(*b), Op::NonMut { which: which.to_string() })?;
        }
    }
    Ok(())
}

/// The map is built in canonical order and through orders that make the map
/// split and re-join its ranges; the conversions must not care.
fn from_idmap_cases(w: &mut Worker, label: &str, _is_map: bool, ss: &StateSet, idx: usize) -> Result<(), Stop> {
    let st = ss.states[idx];
    for method in ["canonical", "desc_singles", "layered"] {
        w.exec(label, true, ss.universe, st, None, Op::FromIdMap { method: method.to_string() })?;
    }
    Ok(())
}

/// Every predicate on every construction order of the map.
fn filter_cases(w: &mut Worker, label: &str, _is_map: bool, ss: &StateSet, idx: usize) -> Result<(), Stop> {
    let st = ss.states[idx];
    for method in ["canonical", "desc_singles", "layered"] {
        for pred in FILTER_PREDS {
            w.exec(
                label,
                true,
                ss.universe,
                st,
                None,
                Op::Filter { pred: pred.to_string(), method: method.to_string() },
            )?;
        }
    }
    Ok(())
}

fn script_universe(script: &StoreScript) -> u32 {
    script.outcome().map(|o| o.next[0].max(o.next[1])).unwrap_or(0)
}

/// All sets of at most two `remove_range(index, len)` calls of `client` on a
/// sequence of `len` elements (every index/len combination within bounds,
/// `len == 0` included), smallest first.
fn removal_sets(client: u64, len: u32) -> Vec<Vec<Step>> {
    let ranges = |len: u32| -> Vec<(u32, u32)> {
        let mut out = Vec::new();
        for l in 0..=len {
            for i in 0..=(len - l) {
                out.push((i, l));
            }
        }
        out
    };
    let mut out: Vec<Vec<Step>> = vec![Vec::new()];
    for (i, l) in ranges(len) {
        out.push(vec![Step::Remove { client, index: i, len: l }]);
    }
    for (i1, l1) in ranges(len) {
        for (i2, l2) in ranges(len - l1) {
            out.push(vec![
                Step::Remove { client, index: i1, len: l1 },
                Step::Remove { client, index: i2, len: l2 },
            ]);
        }
    }
    out
}

/// The exhaustive script list of target `from_store`, smallest documents first.
fn store_scripts(universe: u32) -> Vec<StoreScript> {
    let max_n = universe.min(5);
    let mut out: Vec<StoreScript> = Vec::new();
    let emit = |doc: &str, steps: &[Step], out: &mut Vec<StoreScript>| {
        let calls: u32 = steps
            .iter()
            .map(|s| match s {
                Step::Push { n, .. } => *n,
                _ => 1,
            })
            .sum();
        let one_client_run = steps.windows(2).all(|w| w[0].client() == w[1].client());
        for gc in [true, false] {
            for txn in TXN_MODES {
                // modes that cannot differ for this script are not repeated
                if txn == "per_step" && calls as usize == steps.len() {
                    continue;
                }
                if txn == "whole" && steps.len() <= 1 {
                    continue;
                }
                if txn == "whole" && !one_client_run && steps.len() == 2 {
                    continue;
                }
                out.push(StoreScript {
                    doc: doc.to_string(),
                    gc,
                    txn: txn.to_string(),
                    steps: steps.to_vec(),
                });
            }
        }
    };
    let with_tail = |steps: &[Step], tail: Step| -> Vec<Vec<Step>> {
        let mut longer = steps.to_vec();
        longer.push(tail);
        vec![steps.to_vec(), longer]
    };

    // 1. text, one client: n appended characters (clock i = i-th character),
    //    at most two removals, optionally one more insertion
    for n in 0..=max_n {
        for removes in removal_sets(1, n) {
            let mut steps = vec![Step::Push { client: 1, n }];
            steps.extend(removes);
            for s in with_tail(&steps, Step::Push { client: 1, n: 1 }) {
                emit("text", &s, &mut out);
            }
        }
    }

    // 2. array, one client: `pre` primitives, one nested shared type with
    //    children, `post` primitives; then at most two removals (whole nested
    //    types are deleted: with GC their children become GC blocks),
    //    optionally one more insertion
    for pre in 0..=2u32 {
        for post in 0..=1u32 {
            for kind in NESTED_KINDS {
                for children in 0..=2u32 {
                    if children == 0 && kind != "array" && kind != "map" {
                        continue;
                    }
                    if nested_clocks(kind, children) + pre + post + 1 > L as u32 {
                        continue;
                    }
                    let mut base = Vec::new();
                    if pre > 0 {
                        base.push(Step::Push { client: 1, n: pre });
                    }
                    base.push(Step::PushNested { client: 1, kind: kind.to_string(), children });
                    if post > 0 {
                        base.push(Step::Push { client: 1, n: post });
                    }
                    for removes in removal_sets(1, pre + 1 + post) {
                        let mut steps = base.clone();
                        steps.extend(removes);
                        for s in with_tail(&steps, Step::Push { client: 1, n: 1 }) {
                            emit("array", &s, &mut out);
                        }
                    }
                }
            }
        }
    }
    // two nested types next to each other (adjacent deleted spans must coalesce)
    for removes in removal_sets(1, 3) {
        let mut steps = vec![
            Step::PushNested { client: 1, kind: "map".to_string(), children: 2 },
            Step::Push { client: 1, n: 1 },
            Step::PushNested { client: 1, kind: "array".to_string(), children: 2 },
        ];
        steps.extend(removes);
        emit("array", &steps, &mut out);
    }

    // 3. two clients: client 1 writes, client 2 (synchronised) appends and
    //    removes across both clients' elements; both documents are inspected
    for n1 in 1..=max_n.min(3) {
        for n2 in 0..=max_n.min(2) {
            for removes in removal_sets(2, n1 + n2) {
                let mut steps = vec![Step::Push { client: 1, n: n1 }];
                if n2 > 0 {
                    steps.push(Step::Push { client: 2, n: n2 });
                }
                steps.extend(removes);
                for s in with_tail(&steps, Step::Push { client: 1, n: 1 }) {
                    emit("text", &s, &mut out);
                }
            }
        }
    }
    for kind in ["array", "map"] {
        for removes in removal_sets(2, 3) {
            let mut steps = vec![
                Step::Push { client: 1, n: 1 },
                Step::PushNested { client: 1, kind: kind.to_string(), children: 2 },
                Step::PushNested { client: 2, kind: kind.to_string(), children: 1 },
            ];
            steps.extend(removes);
            emit("array", &steps, &mut out);
        }
    }
    out
}
