//! Exhaustive small-scope enumeration of cases per target.

use crate::json::J;
use crate::model::*;
use crate::sut::{self, INSERT_BUILDS, REMOVE_BUILDS};
use std::collections::HashSet;
use std::panic::{catch_unwind, AssertUnwindSafe};
use std::sync::atomic::{AtomicBool, AtomicUsize, Ordering};
use std::time::Instant;

/// Attributed states are enumerated exhaustively while there are at most this
/// many (4^6); above that a deterministic sample of this size is used (plus
/// every state made of at most two runs).
const MAP_STATE_LIMIT: usize = 4096;
/// Attributed ordered pairs are enumerated exhaustively while there are at
/// most this many (universe <= 4); above that a deterministic sample of about
/// this size is used.
const MAP_PAIR_BUDGET: usize = 65536;
/// Same for attributed two-client pairs (256 states over a 2-clock universe):
/// those exist for the per-client lifting only.
const MAP_PAIR_BUDGET_2C: usize = 8192;

#[derive(Clone, Copy, PartialEq, Eq, Debug)]
pub enum Group {
    Insert,
    Remove,
    Merge,
    Exclude,
    Intersect,
    SubsetOf,
    ContainsClock,
    FindStart,
    ClockStart,
    ClockEnd,
    Lift,
}

pub const TARGETS: &str = "insert_with | insert | remove | merge | exclude | intersect | subset_of | \
is_range_covered | contains_clock | find_start | clock_start | clock_end | push_coalesced | all | lift";

/// `(group, target label written into the witness)`.
pub fn groups_for(target: &str) -> Option<Vec<(Group, String)>> {
    let own = |g: Group| Some(vec![(g, target.to_string())]);
    match target {
        "insert_with" | "insert" => own(Group::Insert),
        "remove" => own(Group::Remove),
        "merge" => own(Group::Merge),
        "exclude" => own(Group::Exclude),
        "intersect" => own(Group::Intersect),
        "subset_of" | "is_range_covered" => own(Group::SubsetOf),
        "contains_clock" => own(Group::ContainsClock),
        "find_start" => own(Group::FindStart),
        "clock_start" => own(Group::ClockStart),
        "clock_end" => own(Group::ClockEnd),
        // internal helper of insert_with and merge
        "push_coalesced" => Some(vec![
            (Group::Insert, target.to_string()),
            (Group::Merge, target.to_string()),
        ]),
        // per-client lifting of empty-range inserts (see README); not part of `all`
        "lift" => own(Group::Lift),
        "all" => Some(vec![
            (Group::ContainsClock, "contains_clock".to_string()),
            (Group::ClockStart, "clock_start".to_string()),
            (Group::ClockEnd, "clock_end".to_string()),
            (Group::FindStart, "find_start".to_string()),
            (Group::Insert, "insert_with".to_string()),
            (Group::Remove, "remove".to_string()),
            (Group::SubsetOf, "subset_of".to_string()),
            (Group::Merge, "merge".to_string()),
            (Group::Exclude, "exclude".to_string()),
            (Group::Intersect, "intersect".to_string()),
        ]),
        _ => None,
    }
}

pub struct Found {
    pub case: Case,
    pub failure: Failure,
}

pub enum Stop {
    Found(Box<Found>),
    Timeout,
}

/// Runs one case against the real crate; a panic of the code under test is a
/// disagreement like any other.
pub fn run_guarded(case: &Case) -> Result<(), Failure> {
    match catch_unwind(AssertUnwindSafe(|| sut::run_case(case))) {
        Ok(r) => r,
        Err(payload) => {
            let msg = if let Some(s) = payload.downcast_ref::<&str>() {
                s.to_string()
            } else if let Some(s) = payload.downcast_ref::<String>() {
                s.clone()
            } else {
                "non-string panic payload".to_string()
            };
            Err(Failure {
                why: format!("panic: {}", msg),
                expected: J::Null,
                actual: J::Null,
                api: String::new(),
            })
        }
    }
}

pub fn found_json(case: &Case, f: &Failure) -> J {
    let mut fields = case.to_json_fields();
    fields.push(("expected", f.expected.clone()));
    fields.push(("actual", f.actual.clone()));
    fields.push(("why", J::str(&f.why)));
    fields.push(("api", J::str(&f.api)));
    J::obj(fields)
}

struct Rng(u64);

impl Rng {
    fn next(&mut self) -> u64 {
        // splitmix64
        self.0 = self.0.wrapping_add(0x9E37_79B9_7F4A_7C15);
        let mut z = self.0;
        z = (z ^ (z >> 30)).wrapping_mul(0xBF58_476D_1CE4_E5B9);
        z = (z ^ (z >> 27)).wrapping_mul(0x94D0_49BB_1331_11EB);
        z ^ (z >> 31)
    }
    fn below(&mut self, n: usize) -> usize {
        (self.next() % n as u64) as usize
    }
}

/// A list of starting states over one universe.
struct StateSet {
    states: Vec<O>,
    /// single-run states (plus the empty one) used as partners when pairs are sampled
    simple: Vec<O>,
    universe: u32,
    clients: &'static [u64],
}

pub struct Search {
    pub n: u32,
    pub seed: u64,
    pub deadline: Option<Instant>,
    pub jobs: usize,
    pub cases: u64,
    /// Enumerate the single-client state lists (universe `n`).
    pub single_client: bool,
    /// Enumerate the two-client state lists (their universe does not grow
    /// with `n`, so a staged search runs them once).
    pub two_clients: bool,
}

/// Per-thread executor of cases.
struct Worker {
    seed: u64,
    deadline: Option<Instant>,
    cases: u64,
}

impl Worker {
    fn exec(&mut self, target: &str, is_map: bool, universe: u32, state: O, other: Option<O>, op: Op) -> Result<(), Stop> {
        if self.cases % 64 == 0 {
            if let Some(d) = self.deadline {
                if Instant::now() >= d {
                    return Err(Stop::Timeout);
                }
            }
        }
        self.cases += 1;
        let case = Case {
            target: target.to_string(),
            is_map,
            universe,
            state,
            other,
            op,
        };
        match run_guarded(&case) {
            Ok(()) => Ok(()),
            Err(failure) => Err(Stop::Found(Box::new(Found { case, failure }))),
        }
    }
}

type StateFn = fn(&mut Worker, &str, bool, &StateSet, usize) -> Result<(), Stop>;

impl Search {
    /// Runs `f` for every state index of `ss`, spread over `jobs` threads.
    /// The reported disagreement is the one a sequential run would hit first
    /// (smallest state index; within a state the order is sequential).
    fn for_states(&mut self, label: &str, is_map: bool, ss: &StateSet, f: StateFn) -> Result<(), Stop> {
        let count = ss.states.len();
        let jobs = self.jobs.max(1).min(count.max(1));
        let best = AtomicUsize::new(usize::MAX);
        let timed_out = AtomicBool::new(false);
        let (seed, deadline) = (self.seed, self.deadline);
        let mut results: Vec<(u64, Option<(usize, Box<Found>)>)> = Vec::new();
        std::thread::scope(|scope| {
            let handles: Vec<_> = (0..jobs)
                .map(|t| {
                    let (best, timed_out) = (&best, &timed_out);
                    scope.spawn(move || {
                        let mut w = Worker {
                            seed,
                            deadline,
                            cases: 0,
                        };
                        let mut found = None;
                        let mut i = t;
                        while i < count {
                            if i > best.load(Ordering::Relaxed) || timed_out.load(Ordering::Relaxed) {
                                break;
                            }
                            match f(&mut w, label, is_map, ss, i) {
                                Ok(()) => {}
                                Err(Stop::Found(fd)) => {
                                    best.fetch_min(i, Ordering::Relaxed);
                                    found = Some((i, fd));
                                    break;
                                }
                                Err(Stop::Timeout) => {
                                    timed_out.store(true, Ordering::Relaxed);
                                    break;
                                }
                            }
                            i += jobs;
                        }
                        (w.cases, found)
                    })
                })
                .collect();
            for h in handles {
                match h.join() {
                    Ok(r) => results.push(r),
                    // cannot happen (panics of the code under test are caught per case)
                    Err(_) => results.push((0, None)),
                }
            }
        });
        let mut first: Option<(usize, Box<Found>)> = None;
        for (cases, found) in results {
            self.cases += cases;
            if let Some((i, fd)) = found {
                if first.as_ref().map(|(j, _)| i < *j).unwrap_or(true) {
                    first = Some((i, fd));
                }
            }
        }
        if let Some((_, fd)) = first {
            return Err(Stop::Found(fd));
        }
        if timed_out.load(Ordering::Relaxed) {
            return Err(Stop::Timeout);
        }
        Ok(())
    }

    // ---- starting states ---------------------------------------------------

    fn set_states(&self) -> Vec<StateSet> {
        let n = self.n;
        let single = StateSet {
            states: (0..(1u32 << n)).map(|m| O::from_mask(0, m)).collect(),
            simple: Vec::new(),
            universe: n,
            clients: &[1],
        };
        // two clients, for the per-client lifting
        let n2 = n.min(3);
        let mut two = Vec::new();
        for m1 in 0..(1u32 << n2) {
            for m2 in 0..(1u32 << n2) {
                let mut o = O::from_mask(0, m1);
                o.set_mask(1, m2);
                two.push(o);
            }
        }
        vec![
            single,
            StateSet {
                states: two,
                simple: Vec::new(),
                universe: n2,
                clients: &[1, 2],
            },
        ]
    }

    fn map_states(&self) -> Vec<StateSet> {
        let n = self.n;
        let mut simple = vec![O::empty()];
        for s in 0..n {
            for e in (s + 1)..=n {
                for v in 1..=3u8 {
                    simple.push(O::from_runs(0, &[(s, e, v)]));
                }
            }
        }
        let total: u128 = 1u128 << (2 * n);
        let states: Vec<O> = if total <= MAP_STATE_LIMIT as u128 {
            (0..total as u64)
                .map(|code| {
                    let mut o = O::empty();
                    o.set_code(0, code, n);
                    o
                })
                .collect()
        } else {
            let mut seen: HashSet<O> = HashSet::new();
            let mut out: Vec<O> = Vec::new();
            let mut push = |o: O, out: &mut Vec<O>| {
                if seen.insert(o) {
                    out.push(o);
                }
            };
            // every state made of at most two runs
            for o in &simple {
                push(*o, &mut out);
            }
            for s1 in 0..n {
                for e1 in (s1 + 1)..=n {
                    for s2 in e1..n {
                        for e2 in (s2 + 1)..=n {
                            for v1 in 1..=3u8 {
                                for v2 in 1..=3u8 {
                                    if s2 == e1 && v1 == v2 {
                                        continue;
                                    }
                                    push(O::from_runs(0, &[(s1, e1, v1), (s2, e2, v2)]), &mut out);
                                }
                            }
                        }
                    }
                }
            }
            // deterministic pseudo-random sample: half uniform, half run-biased
            let mut rng = Rng(self.seed ^ 0x5EED_0000_0000_0001);
            let want = out.len() + MAP_STATE_LIMIT;
            let mut i = 0u64;
            while out.len() < want {
                let mut o = O::empty();
                let biased = i % 2 == 1;
                let mut prev = 0u8;
                for k in 0..n as usize {
                    let r = rng.next();
                    let v = if biased && k > 0 && r & 4 != 0 { prev } else { (r & 3) as u8 };
                    o.0[0][k] = v;
                    prev = v;
                }
                i += 1;
                push(o, &mut out);
            }
            out
        };
        let single = StateSet {
            states,
            simple,
            universe: n,
            clients: &[1],
        };
        let n2 = n.min(2);
        let mut two = Vec::new();
        let per_client = 1u64 << (2 * n2);
        for c1 in 0..per_client {
            for c2 in 0..per_client {
                let mut o = O::empty();
                o.set_code(0, c1, n2);
                o.set_code(1, c2, n2);
                two.push(o);
            }
        }
        vec![
            single,
            StateSet {
                states: two,
                simple: Vec::new(),
                universe: n2,
                clients: &[1, 2],
            },
        ]
    }

    fn state_sets(&self, is_map: bool) -> Vec<StateSet> {
        let all = if is_map {
            self.map_states()
        } else {
            self.set_states()
        };
        all.into_iter()
            .filter(|ss| if ss.clients.len() > 1 { self.two_clients } else { self.single_client })
            .collect()
    }

    // ---- groups --------------------------------------------------------------

    pub fn run_group(&mut self, g: Group, label: &str) -> Result<(), Stop> {
        match g {
            // direct single-operation cases first: they make the simplest witnesses
            Group::Insert => {
                self.unary(label, &[false, true], insert_cases)?;
                self.unary(label, &[false, true], insert_build_cases)
            }
            Group::Lift => self.unary(label, &[false], lift_cases),
            Group::Remove => {
                self.unary(label, &[false, true], remove_cases)?;
                self.unary(label, &[false, true], remove_build_cases)
            }
            Group::ContainsClock => self.unary(label, &[false, true], contains_cases),
            Group::FindStart => self.unary(label, &[false, true], find_start_cases),
            Group::ClockStart => self.unary(label, &[false], clock_start_cases),
            Group::ClockEnd => self.unary(label, &[false], clock_end_cases),
            Group::Merge => self.unary(label, &[false, true], merge_pairs),
            Group::Exclude => self.unary(label, &[false, true], exclude_pairs),
            Group::Intersect => self.unary(label, &[false, true], intersect_pairs),
            Group::SubsetOf => self.unary(label, &[false], subset_pairs),
        }
    }

    fn unary(&mut self, label: &str, variants: &[bool], f: StateFn) -> Result<(), Stop> {
        for &is_map in variants {
            for ss in self.state_sets(is_map) {
                self.for_states(label, is_map, &ss, f)?;
            }
        }
        Ok(())
    }
}

fn values(is_map: bool) -> &'static [u8] {
    if is_map {
        &[A_BIT, B_BIT, A_BIT | B_BIT]
    } else {
        &[UNIT]
    }
}

fn builds(w: &mut Worker, label: &str, is_map: bool, ss: &StateSet, st: &O, methods: &[&str]) -> Result<(), Stop> {
    for m in methods {
        let set_only = *m == "full_remove";
        let map_only = m.starts_with("layered");
        if (is_map && set_only) || (!is_map && map_only) {
            continue;
        }
        w.exec(label, is_map, ss.universe, *st, None, Op::Build { method: m.to_string() })?;
    }
    Ok(())
}

/// IdSet::insert with an empty range on a client that has no entry yet is
/// a question about the per-client lifting, not about IdRanges::insert_with;
/// those cases live in group `Lift`.
fn is_lift_case(is_map: bool, st: &O, ci: usize, s: u32, e: u32) -> bool {
    !is_map && s == e && st.client_is_empty(ci)
}

fn insert_cases(w: &mut Worker, label: &str, is_map: bool, ss: &StateSet, idx: usize) -> Result<(), Stop> {
    let st = &ss.states[idx];
    let u = ss.universe;
    for (ci, &client) in ss.clients.iter().enumerate() {
        for s in 0..=u {
            for e in s..=u {
                if is_lift_case(is_map, st, ci, s, e) {
                    continue;
                }
                for &v in values(is_map) {
                    w.exec(label, is_map, u, *st, None, Op::Insert { client, s, e, v })?;
                }
            }
        }
    }
    Ok(())
}

/// Alternative construction orders, and PartialEq / encoding against a
/// differently built equal value and against every one-clock neighbour.
fn insert_build_cases(w: &mut Worker, label: &str, is_map: bool, ss: &StateSet, idx: usize) -> Result<(), Stop> {
    let st = &ss.states[idx];
    let u = ss.universe;
    builds(w, label, is_map, ss, st, &INSERT_BUILDS)?;
    w.exec(label, is_map, u, *st, Some(*st), Op::Equal)?;
    for ci in 0..ss.clients.len() {
        for k in 0..u as usize {
            let mut o = *st;
            o.0[ci][k] = if is_map {
                (o.0[ci][k] + 1) % 4
            } else if o.0[ci][k] == 0 {
                UNIT
            } else {
                0
            };
            w.exec(label, is_map, u, *st, Some(o), Op::Equal)?;
        }
    }
    Ok(())
}

fn lift_cases(w: &mut Worker, label: &str, is_map: bool, ss: &StateSet, idx: usize) -> Result<(), Stop> {
    let st = &ss.states[idx];
    let u = ss.universe;
    // also probe client 2 on the single-client state lists
    for (ci, &client) in CLIENTS.iter().enumerate() {
        for s in 0..=u {
            if is_lift_case(is_map, st, ci, s, s) {
                w.exec(label, is_map, u, *st, None, Op::Insert { client, s, e: s, v: UNIT })?;
            }
        }
    }
    Ok(())
}

fn remove_cases(w: &mut Worker, label: &str, is_map: bool, ss: &StateSet, idx: usize) -> Result<(), Stop> {
    let st = &ss.states[idx];
    let u = ss.universe;
    for &client in ss.clients {
        for s in 0..=(u + 1) {
            for e in s..=(u + 1) {
                w.exec(label, is_map, u, *st, None, Op::Remove { client, s, e })?;
            }
        }
    }
    Ok(())
}

fn remove_build_cases(w: &mut Worker, label: &str, is_map: bool, ss: &StateSet, idx: usize) -> Result<(), Stop> {
    let st = &ss.states[idx];
    builds(w, label, is_map, ss, st, &REMOVE_BUILDS)
}

fn contains_cases(w: &mut Worker, label: &str, is_map: bool, ss: &StateSet, idx: usize) -> Result<(), Stop> {
    let st = &ss.states[idx];
    for &client in ss.clients {
        for clock in 0..=(ss.universe + 1) {
            w.exec(label, is_map, ss.universe, *st, None, Op::ContainsClock { client, clock })?;
        }
    }
    Ok(())
}

fn find_start_cases(w: &mut Worker, label: &str, is_map: bool, ss: &StateSet, idx: usize) -> Result<(), Stop> {
    let st = &ss.states[idx];
    let u = ss.universe;
    for &client in ss.clients {
        if is_map {
            // find_start is reached through IdMap::attributions
            for s in 0..=(u + 1) {
                for e in s..=(u + 1) {
                    w.exec(label, true, u, *st, None, Op::Attributions { client, s, e })?;
                }
            }
        } else {
            for clock in 0..=(u + 1) {
                w.exec(label, false, u, *st, None, Op::FindStart { client, clock })?;
            }
        }
    }
    Ok(())
}

fn clock_start_cases(w: &mut Worker, label: &str, is_map: bool, ss: &StateSet, idx: usize) -> Result<(), Stop> {
    let st = &ss.states[idx];
    for &client in ss.clients {
        w.exec(label, is_map, ss.universe, *st, None, Op::ClockStart { client })?;
    }
    Ok(())
}

fn clock_end_cases(w: &mut Worker, label: &str, is_map: bool, ss: &StateSet, idx: usize) -> Result<(), Stop> {
    let st = &ss.states[idx];
    for &client in ss.clients {
        w.exec(label, is_map, ss.universe, *st, None, Op::ClockEnd { client })?;
    }
    Ok(())
}

/// Binary operations: state `idx` against its partners, as ordered pairs.
fn pairs(w: &mut Worker, label: &str, is_map: bool, ss: &StateSet, idx: usize, op: Op, salt: u64) -> Result<(), Stop> {
    if matches!(op, Op::SubsetOf { .. }) && ss.clients.len() > 1 {
        return Ok(()); // subset_of is a per-client (IdRange) operation
    }
    let a = ss.states[idx];
    let len = ss.states.len();
    let budget = if ss.clients.len() > 1 { MAP_PAIR_BUDGET_2C } else { MAP_PAIR_BUDGET };
    let exhaustive = !is_map || len.saturating_mul(len) <= budget;
    if exhaustive {
        for b in &ss.states {
            w.exec(label, is_map, ss.universe, a, Some(*b), op.clone())?;
        }
        return Ok(());
    }
    // sampled: every state meets `k` partners, alternating between single-run
    // partners and arbitrary ones, in both orders; the choice depends on
    // (seed, operation, state index) only, never on thread scheduling
    let k = (budget / len).max(4);
    let mut rng = Rng(w.seed ^ (0xA11C_E000 + salt) ^ (idx as u64).wrapping_mul(0x2545_F491_4F6C_DD1D));
    for t in 0..k {
        let b = if t % 2 == 0 && !ss.simple.is_empty() {
            ss.simple[rng.below(ss.simple.len())]
        } else {
            ss.states[rng.below(len)]
        };
        let (x, y) = if t % 4 < 2 { (a, b) } else { (b, a) };
        w.exec(label, is_map, ss.universe, x, Some(y), op.clone())?;
    }
    Ok(())
}

fn merge_pairs(w: &mut Worker, label: &str, is_map: bool, ss: &StateSet, idx: usize) -> Result<(), Stop> {
    pairs(w, label, is_map, ss, idx, Op::Merge, 1)
}

fn exclude_pairs(w: &mut Worker, label: &str, is_map: bool, ss: &StateSet, idx: usize) -> Result<(), Stop> {
    pairs(w, label, is_map, ss, idx, Op::Exclude, 2)
}

fn intersect_pairs(w: &mut Worker, label: &str, is_map: bool, ss: &StateSet, idx: usize) -> Result<(), Stop> {
    pairs(w, label, is_map, ss, idx, Op::Intersect, 3)
}

fn subset_pairs(w: &mut Worker, label: &str, is_map: bool, ss: &StateSet, idx: usize) -> Result<(), Stop> {
    pairs(w, label, is_map, ss, idx, Op::SubsetOf { client: 1 }, 4)
}
