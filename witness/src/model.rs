//! The mathematical oracle and the (JSON-serialisable) description of one case.
//!
//! Oracle value `O`: for each of two clients (ids 1 and 2) and each clock
//! `0..L` one byte: `0` = clock absent, otherwise the clock is present and the
//! byte is its attribute set as a bit mask (`A_BIT` = attribute "a",
//! `B_BIT` = attribute "b"). An `IdSet` has no attributes: present clocks carry
//! the marker `UNIT`.

use crate::json::J;

/// Number of clocks tracked per client (universe <= 10, plus slack so that
/// probes at `N` and `N + 1` stay inside the array).
pub const L: usize = 12;
pub const MAX_UNIVERSE: u32 = 10;
pub const A_BIT: u8 = 1;
pub const B_BIT: u8 = 2;
pub const UNIT: u8 = 4;
pub const CLIENTS: [u64; 2] = [1, 2];

#[derive(Clone, Copy, PartialEq, Eq, Hash, Debug)]
pub struct O(pub [[u8; L]; 2]);

/// `(start, end, value)`; value is an attribute mask (maps) or `UNIT` (sets).
pub type Run = (u32, u32, u8);

pub fn client_index(client: u64) -> Option<usize> {
    CLIENTS.iter().position(|c| *c == client)
}

impl O {
    pub fn empty() -> O {
        O([[0; L]; 2])
    }

    /// Single-client set from a bit mask over clocks.
    pub fn from_mask(ci: usize, mask: u32) -> O {
        let mut o = O::empty();
        o.set_mask(ci, mask);
        o
    }

    pub fn set_mask(&mut self, ci: usize, mask: u32) {
        for k in 0..L {
            self.0[ci][k] = if mask >> k & 1 == 1 { UNIT } else { 0 };
        }
    }

    /// Single-client map from a base-4 code (digit k = attribute mask of clock k).
    pub fn set_code(&mut self, ci: usize, mut code: u64, n: u32) {
        for k in 0..L {
            self.0[ci][k] = if (k as u32) < n { (code & 3) as u8 } else { 0 };
            if (k as u32) < n {
                code >>= 2;
            }
        }
    }

    pub fn from_runs(ci: usize, runs: &[Run]) -> O {
        let mut o = O::empty();
        for &(s, e, v) in runs {
            o.insert(ci, s, e, v);
        }
        o
    }

    pub fn is_empty(&self) -> bool {
        self.0.iter().all(|c| c.iter().all(|v| *v == 0))
    }

    pub fn client_is_empty(&self, ci: usize) -> bool {
        self.0[ci].iter().all(|v| *v == 0)
    }

    pub fn get(&self, ci: usize, clock: u32) -> u8 {
        if (clock as usize) < L {
            self.0[ci][clock as usize]
        } else {
            0
        }
    }

    /// Maximal runs of equal non-zero value: THE canonical form.
    pub fn runs(&self, ci: usize) -> Vec<Run> {
        let c = &self.0[ci];
        let mut out = Vec::new();
        let mut k = 0;
        while k < L {
            if c[k] == 0 {
                k += 1;
                continue;
            }
            let s = k;
            while k < L && c[k] == c[s] {
                k += 1;
            }
            out.push((s as u32, k as u32, c[s]));
        }
        out
    }

    /// Maximal runs of absent clocks inside `0..n`.
    pub fn gaps(&self, ci: usize, n: u32) -> Vec<(u32, u32)> {
        let c = &self.0[ci];
        let mut out = Vec::new();
        let mut k = 0usize;
        let n = (n as usize).min(L);
        while k < n {
            if c[k] != 0 {
                k += 1;
                continue;
            }
            let s = k;
            while k < n && c[k] == 0 {
                k += 1;
            }
            out.push((s as u32, k as u32));
        }
        out
    }

    pub fn clocks(&self, ci: usize) -> Vec<u32> {
        (0..L as u32).filter(|k| self.0[ci][*k as usize] != 0).collect()
    }

    /// Same clocks, attributes dropped (what `as_id_set` must produce).
    pub fn as_set(&self) -> O {
        let mut o = *self;
        for c in o.0.iter_mut() {
            for v in c.iter_mut() {
                if *v != 0 {
                    *v = UNIT;
                }
            }
        }
        o
    }

    // ---- the set / map algebra --------------------------------------------

    /// insert: clocks of `[s,e)` become present; attribute sets are unioned.
    pub fn insert(&mut self, ci: usize, s: u32, e: u32, v: u8) {
        let mut k = s;
        while k < e {
            self.0[ci][k as usize] |= v;
            k += 1;
        }
    }

    pub fn remove(&mut self, ci: usize, s: u32, e: u32) {
        let mut k = s;
        while k < e {
            if (k as usize) < L {
                self.0[ci][k as usize] = 0;
            }
            k += 1;
        }
    }

    pub fn merge(&self, other: &O) -> O {
        let mut o = *self;
        for ci in 0..2 {
            for k in 0..L {
                o.0[ci][k] |= other.0[ci][k];
            }
        }
        o
    }

    pub fn exclude(&self, other: &O) -> O {
        let mut o = *self;
        for ci in 0..2 {
            for k in 0..L {
                if other.0[ci][k] != 0 {
                    o.0[ci][k] = 0;
                }
            }
        }
        o
    }

    pub fn intersect(&self, other: &O) -> O {
        let mut o = O::empty();
        for ci in 0..2 {
            for k in 0..L {
                let (a, b) = (self.0[ci][k], other.0[ci][k]);
                if a != 0 && b != 0 {
                    o.0[ci][k] = a | b;
                }
            }
        }
        o
    }

    pub fn subset_of(&self, ci: usize, other: &O) -> bool {
        (0..L).all(|k| self.0[ci][k] == 0 || other.0[ci][k] != 0)
    }
}

// ---- attribute names ------------------------------------------------------

pub fn attr_names(v: u8) -> J {
    let mut names = Vec::new();
    if v & A_BIT != 0 {
        names.push(J::str("a"));
    }
    if v & B_BIT != 0 {
        names.push(J::str("b"));
    }
    if v & !(A_BIT | B_BIT | UNIT) != 0 {
        names.push(J::str("?"));
    }
    J::Arr(names)
}

fn attr_mask(j: &J) -> Result<u8, String> {
    let arr = j.as_arr().ok_or("attribute set must be an array of names")?;
    let mut v = 0u8;
    for a in arr {
        match a.as_str() {
            Some("a") => v |= A_BIT,
            Some("b") => v |= B_BIT,
            _ => return Err(format!("unknown attribute {}", a)),
        }
    }
    if v == 0 {
        return Err("empty attribute set".into());
    }
    Ok(v)
}

pub fn run_json(r: &Run, is_map: bool) -> J {
    if is_map {
        J::Arr(vec![J::num(r.0), J::num(r.1), attr_names(r.2)])
    } else {
        J::Arr(vec![J::num(r.0), J::num(r.1)])
    }
}

pub fn runs_json(runs: &[Run], is_map: bool) -> J {
    J::Arr(runs.iter().map(|r| run_json(r, is_map)).collect())
}

fn u32_of(j: &J, what: &str) -> Result<u32, String> {
    let n = j.as_i64().ok_or_else(|| format!("{}: expected a number", what))?;
    if n < 0 || n > u32::MAX as i64 {
        return Err(format!("{}: out of range", what));
    }
    Ok(n as u32)
}

fn range_of(j: &J, what: &str) -> Result<(u32, u32), String> {
    let a = j.as_arr().ok_or_else(|| format!("{}: expected [start,end]", what))?;
    if a.len() < 2 {
        return Err(format!("{}: expected [start,end]", what));
    }
    let s = u32_of(&a[0], what)?;
    let e = u32_of(&a[1], what)?;
    if e as usize > L || s as usize > L {
        return Err(format!("{}: clocks above {} are not supported", what, L));
    }
    Ok((s, e))
}

fn parse_entries(o: &mut O, ci: usize, j: Option<&J>, is_map: bool, what: &str) -> Result<(), String> {
    let j = match j {
        Some(j) => j,
        None => return Ok(()),
    };
    let arr = j.as_arr().ok_or_else(|| format!("{}: expected an array of ranges", what))?;
    for ent in arr {
        let (s, e) = range_of(ent, what)?;
        let v = if is_map {
            let a = ent.as_arr().unwrap();
            if a.len() < 3 {
                return Err(format!("{}: map entries are [start,end,[attrs]]", what));
            }
            attr_mask(&a[2])?
        } else {
            UNIT
        };
        o.insert(ci, s, e, v);
    }
    Ok(())
}

// ---- operations and cases -------------------------------------------------

#[derive(Clone, Debug, PartialEq)]
pub enum Op {
    /// Build the state through an alternative construction order and compare
    /// with the canonical build.
    Build { method: String },
    Insert { client: u64, s: u32, e: u32, v: u8 },
    Remove { client: u64, s: u32, e: u32 },
    Merge,
    Exclude,
    Intersect,
    SubsetOf { client: u64 },
    /// `state == other` (PartialEq, encode_v1) must hold iff the oracle values are equal.
    Equal,
    ContainsClock { client: u64, clock: u32 },
    FindStart { client: u64, clock: u32 },
    Attributions { client: u64, s: u32, e: u32 },
    ClockStart { client: u64 },
    ClockEnd { client: u64 },
    /// The NON-mutating `IdSet::merge` / `diff` / `intersect` (`which`) of
    /// `state` with `other`: result, agreement with the mutating variant,
    /// operands unchanged.
    NonMut { which: String },
    /// `IdSet::from(IdMap)` and `IdMap::as_id_set` of `state` (an attributed
    /// map built through construction order `method`).
    FromIdMap { method: String },
    /// The delete set of a document built by a script (`IdSet::from_store`
    /// behind `ReadTxn::snapshot`).
    FromStore(StoreScript),
    /// `IdMap::filter(predicate)` of `state` (an attributed map built through
    /// construction order `method`); `pred` is one of `FILTER_PREDS`.
    Filter { pred: String, method: String },
}

/// Predicates of target `filter`, over the attribute list of a range.
pub const FILTER_PREDS: [&str; 4] = ["true", "false", "has_a", "one_attr"];

/// The predicate on the oracle side (attribute mask of a present clock).
pub fn filter_pred(pred: &str, v: u8) -> bool {
    match pred {
        "true" => true,
        "false" => false,
        "has_a" => v & A_BIT != 0,
        _ => v == A_BIT || v == B_BIT,
    }
}

// ---- document scripts (target from_store) -----------------------------------

pub const NONMUT_KINDS: [&str; 3] = ["merge", "diff", "intersect"];
pub const NESTED_KINDS: [&str; 4] = ["array", "map", "array_map", "map_array"];
pub const TXN_MODES: [&str; 3] = ["per_call", "per_step", "whole"];

#[derive(Clone, Debug, PartialEq)]
pub enum Step {
    /// Append `n` single elements (text: one character each; array: one
    /// primitive each), one public call per element: one clock each.
    Push { client: u64, n: u32 },
    /// Array documents only: append one nested shared type with `children`
    /// children (see `nested_clocks`).
    PushNested { client: u64, kind: String, children: u32 },
    /// `remove_range(index, len)` on the root type.
    Remove { client: u64, index: u32, len: u32 },
}

impl Step {
    pub fn client(&self) -> u64 {
        match self {
            Step::Push { client, .. } | Step::PushNested { client, .. } | Step::Remove { client, .. } => *client,
        }
    }
}

/// Clocks consumed by one nested element: the element itself plus everything
/// integrated below it.
/// `array`: ArrayPrelim of `children` primitives; `map`: MapPrelim of
/// `children` primitive entries; `array_map`: ArrayPrelim of `children`
/// MapPrelims with one primitive entry each; `map_array`: MapPrelim of
/// `children` entries, each an ArrayPrelim of one primitive.
pub fn nested_clocks(kind: &str, children: u32) -> u32 {
    match kind {
        "array_map" | "map_array" => 1 + 2 * children,
        _ => 1 + children,
    }
}

#[derive(Clone, Debug, PartialEq)]
pub struct StoreScript {
    /// Root type: `"text"` or `"array"`.
    pub doc: String,
    /// `!Options::skip_gc`.
    pub gc: bool,
    /// `per_call`: every public call in its own transaction; `per_step`: one
    /// transaction per step; `whole`: one transaction per maximal run of
    /// steps of the same client.
    pub txn: String,
    pub steps: Vec<Step>,
}

/// What the oracle derives from a script.
pub struct ScriptOutcome {
    /// Ids that must be reported deleted.
    pub deleted: O,
    /// Next clock per client (= state vector).
    pub next: [u32; 2],
}

impl StoreScript {
    pub fn clients(&self) -> usize {
        if self.steps.iter().any(|s| s.client() == 2) {
            2
        } else {
            1
        }
    }

    /// Clock tracking: every inserted element consumes its clocks in order;
    /// deletions consume none. The documents of a two-client script are
    /// synchronised whenever the acting client changes (and at the end), so
    /// both see the same sequence. `Err`: the script is malformed.
    pub fn outcome(&self) -> Result<ScriptOutcome, String> {
        if self.doc != "text" && self.doc != "array" {
            return Err(format!("op.doc: unknown root type {:?}", self.doc));
        }
        if !TXN_MODES.contains(&self.txn.as_str()) {
            return Err(format!("op.txn: unknown mode {:?}", self.txn));
        }
        let mut next = [0u32; 2];
        // live elements in document order: (client index, first clock, clocks)
        let mut live: Vec<(usize, u32, u32)> = Vec::new();
        let mut deleted = O::empty();
        for (i, step) in self.steps.iter().enumerate() {
            let ci = client_index(step.client()).ok_or_else(|| format!("step {}: client must be 1 or 2", i))?;
            match step {
                Step::Push { n, .. } => {
                    for _ in 0..*n {
                        live.push((ci, next[ci], 1));
                        next[ci] += 1;
                    }
                }
                Step::PushNested { kind, children, .. } => {
                    if self.doc != "array" {
                        return Err(format!("step {}: push_nested needs an array document", i));
                    }
                    if !NESTED_KINDS.contains(&kind.as_str()) {
                        return Err(format!("step {}: unknown nested kind {:?}", i, kind));
                    }
                    let c = nested_clocks(kind, *children);
                    live.push((ci, next[ci], c));
                    next[ci] += c;
                }
                Step::Remove { index, len, .. } => {
                    let (s, e) = (*index as usize, *index as usize + *len as usize);
                    if e > live.len() {
                        return Err(format!("step {}: remove_range({},{}) out of bounds (length {})", i, index, len, live.len()));
                    }
                    for (ci, clock, c) in live.drain(s..e) {
                        if (clock + c) as usize > L {
                            return Err(format!("step {}: more than {} clocks per client are not supported", i, L));
                        }
                        deleted.insert(ci, clock, clock + c, UNIT);
                    }
                }
            }
            if next[ci] as usize > L {
                return Err(format!("step {}: more than {} clocks per client are not supported", i, L));
            }
        }
        Ok(ScriptOutcome { deleted, next })
    }

    pub fn to_json(&self) -> J {
        let steps = self
            .steps
            .iter()
            .map(|s| match s {
                Step::Push { client, n } => with_client(vec![("step", J::str("push")), ("n", J::num(*n))], *client),
                Step::PushNested { client, kind, children } => with_client(
                    vec![
                        ("step", J::str("push_nested")),
                        ("nested", J::str(kind)),
                        ("children", J::num(*children)),
                    ],
                    *client,
                ),
                Step::Remove { client, index, len } => with_client(
                    vec![("step", J::str("remove_range")), ("index", J::num(*index)), ("len", J::num(*len))],
                    *client,
                ),
            })
            .collect();
        J::obj(vec![
            ("kind", J::str("from_store")),
            ("doc", J::str(&self.doc)),
            ("clients", J::num(self.clients() as u32)),
            ("gc", J::Bool(self.gc)),
            ("txn", J::str(&self.txn)),
            ("steps", J::Arr(steps)),
        ])
    }

    fn from_json(j: &J) -> Result<StoreScript, String> {
        let text = |key: &str, default: &str| -> Result<String, String> {
            match j.get_non_null(key) {
                Some(v) => Ok(v.as_str().ok_or_else(|| format!("op.{}: expected a string", key))?.to_string()),
                None => Ok(default.to_string()),
            }
        };
        let gc = match j.get_non_null("gc") {
            Some(J::Bool(b)) => *b,
            Some(_) => return Err("op.gc: expected true or false".into()),
            None => true,
        };
        let mut steps = Vec::new();
        let arr = j.get("steps").and_then(|s| s.as_arr()).ok_or("op.steps: expected an array")?;
        for (i, st) in arr.iter().enumerate() {
            let what = format!("op.steps[{}]", i);
            let num = |key: &str| -> Result<u32, String> {
                let v = u32_of(st.get(key).ok_or_else(|| format!("{}.{} missing", what, key))?, &what)?;
                if v as usize > L {
                    return Err(format!("{}.{}: values above {} are not supported", what, key, L));
                }
                Ok(v)
            };
            let client = match st.get_non_null("client") {
                Some(c) => c.as_i64().ok_or_else(|| format!("{}.client: expected a number", what))? as u64,
                None => 1,
            };
            if client_index(client).is_none() {
                return Err(format!("{}.client must be 1 or 2", what));
            }
            let kind = st.get("step").and_then(|k| k.as_str()).ok_or_else(|| format!("{}.step missing", what))?;
            steps.push(match kind {
                "push" => Step::Push { client, n: num("n")? },
                "push_nested" => Step::PushNested {
                    client,
                    kind: st
                        .get("nested")
                        .and_then(|k| k.as_str())
                        .ok_or_else(|| format!("{}.nested missing", what))?
                        .to_string(),
                    children: num("children")?,
                },
                "remove_range" | "remove" => Step::Remove {
                    client,
                    index: num("index")?,
                    len: num("len")?,
                },
                other => return Err(format!("{}: unknown step {:?}", what, other)),
            });
        }
        Ok(StoreScript {
            doc: text("doc", "text")?,
            gc,
            txn: text("txn", "per_call")?,
            steps,
        })
    }
}

#[derive(Clone, Debug)]
pub struct Case {
    pub target: String,
    pub is_map: bool,
    pub universe: u32,
    pub state: O,
    pub other: Option<O>,
    pub op: Op,
}

#[derive(Clone, Debug)]
pub struct Failure {
    pub why: String,
    pub expected: J,
    pub actual: J,
    /// Which public entry point of yrs produced `actual`.
    pub api: String,
}

fn with_client(mut fields: Vec<(&'static str, J)>, client: u64) -> J {
    if client != 1 {
        fields.push(("client", J::Num(client as i64)));
    }
    J::obj(fields)
}

impl Op {
    pub fn to_json(&self, is_map: bool) -> J {
        let range = |s: u32, e: u32| J::Arr(vec![J::num(s), J::num(e)]);
        match self {
            Op::Build { method } => J::obj(vec![("kind", J::str("build")), ("method", J::str(method))]),
            Op::Insert { client, s, e, v } => {
                let mut f = vec![("kind", J::str("insert")), ("range", range(*s, *e))];
                if is_map {
                    f.push(("attrs", attr_names(*v)));
                }
                with_client(f, *client)
            }
            Op::Remove { client, s, e } => {
                with_client(vec![("kind", J::str("remove")), ("range", range(*s, *e))], *client)
            }
            Op::Merge => J::obj(vec![("kind", J::str("merge"))]),
            Op::Exclude => J::obj(vec![("kind", J::str("exclude"))]),
            Op::Intersect => J::obj(vec![("kind", J::str("intersect"))]),
            Op::Equal => J::obj(vec![("kind", J::str("equal"))]),
            Op::SubsetOf { client } => with_client(vec![("kind", J::str("subset_of"))], *client),
            Op::ContainsClock { client, clock } => with_client(
                vec![("kind", J::str("contains_clock")), ("clock", J::num(*clock))],
                *client,
            ),
            Op::FindStart { client, clock } => with_client(
                vec![("kind", J::str("find_start")), ("clock", J::num(*clock))],
                *client,
            ),
            Op::Attributions { client, s, e } => with_client(
                vec![("kind", J::str("attributions")), ("range", range(*s, *e))],
                *client,
            ),
            Op::ClockStart { client } => with_client(vec![("kind", J::str("clock_start"))], *client),
            Op::ClockEnd { client } => with_client(vec![("kind", J::str("clock_end"))], *client),
            Op::NonMut { which } => J::obj(vec![("kind", J::str("nonmut")), ("op", J::str(which))]),
            Op::FromIdMap { method } => J::obj(vec![("kind", J::str("from_idmap")), ("build", J::str(method))]),
            Op::FromStore(script) => script.to_json(),
            Op::Filter { pred, method } => J::obj(vec![
                ("kind", J::str("filter")),
                ("pred", J::str(pred)),
                ("build", J::str(method)),
            ]),
        }
    }

    fn from_json(j: &J, is_map: bool) -> Result<Op, String> {
        let kind = j.get("kind").and_then(|k| k.as_str()).ok_or("op.kind missing")?;
        let client = match j.get_non_null("client") {
            Some(c) => c.as_i64().ok_or("op.client: expected a number")? as u64,
            None => 1,
        };
        if client_index(client).is_none() {
            return Err("op.client must be 1 or 2".into());
        }
        let range = || -> Result<(u32, u32), String> {
            range_of(j.get("range").ok_or("op.range missing")?, "op.range")
        };
        let clock = || -> Result<u32, String> {
            let c = u32_of(j.get("clock").ok_or("op.clock missing")?, "op.clock")?;
            if c as usize > L {
                return Err(format!("op.clock: clocks above {} are not supported", L));
            }
            Ok(c)
        };
        Ok(match kind {
            "build" => Op::Build {
                method: j
                    .get("method")
                    .and_then(|m| m.as_str())
                    .ok_or("op.method missing")?
                    .to_string(),
            },
            "insert" | "insert_with" => {
                let (s, e) = range()?;
                let v = if is_map {
                    attr_mask(j.get("attrs").ok_or("op.attrs missing")?)?
                } else {
                    UNIT
                };
                Op::Insert { client, s, e, v }
            }
            "remove" => {
                let (s, e) = range()?;
                Op::Remove { client, s, e }
            }
            "merge" => Op::Merge,
            "exclude" | "diff" => Op::Exclude,
            "intersect" => Op::Intersect,
            "equal" => Op::Equal,
            "subset_of" => Op::SubsetOf { client },
            "contains_clock" => Op::ContainsClock { client, clock: clock()? },
            "find_start" => Op::FindStart { client, clock: clock()? },
            "attributions" => {
                let (s, e) = range()?;
                Op::Attributions { client, s, e }
            }
            "clock_start" => Op::ClockStart { client },
            "clock_end" => Op::ClockEnd { client },
            "nonmut" => {
                let which = j.get("op").and_then(|m| m.as_str()).ok_or("op.op missing (merge | diff | intersect)")?;
                let which = if which == "exclude" { "diff" } else { which };
                if !NONMUT_KINDS.contains(&which) {
                    return Err(format!("op.op: unknown operation {:?}", which));
                }
                Op::NonMut { which: which.to_string() }
            }
            "from_idmap" => Op::FromIdMap {
                method: match j.get_non_null("build") {
                    Some(m) => m.as_str().ok_or("op.build: expected a string")?.to_string(),
                    None => "canonical".to_string(),
                },
            },
            "from_store" => Op::FromStore(StoreScript::from_json(j)?),
            "filter" => {
                let pred = j.get("pred").and_then(|m| m.as_str()).ok_or("op.pred missing (true | false | has_a | one_attr)")?;
                if !FILTER_PREDS.contains(&pred) {
                    return Err(format!("op.pred: unknown predicate {:?}", pred));
                }
                Op::Filter {
                    pred: pred.to_string(),
                    method: match j.get_non_null("build") {
                        Some(m) => m.as_str().ok_or("op.build: expected a string")?.to_string(),
                        None => "canonical".to_string(),
                    },
                }
            }
            other => return Err(format!("unknown op.kind {:?}", other)),
        })
    }
}

/// Per-clock attribute sets of client `ci` over `0..n` (`null` = absent clock).
fn per_clock_attrs(o: &O, ci: usize, n: u32) -> J {
    J::Arr(
        (0..n.min(L as u32))
            .map(|k| match o.get(ci, k) {
                0 => J::Null,
                v => attr_names(v),
            })
            .collect(),
    )
}

impl Case {
    pub fn variant(&self) -> &'static str {
        if self.is_map {
            "idmap"
        } else {
            "idset"
        }
    }

    /// The fields of the witness line that describe the input (no verdict).
    pub fn to_json_fields(&self) -> Vec<(&'static str, J)> {
        let m = self.is_map;
        let mut f = vec![
            ("target", J::str(&self.target)),
            ("variant", J::str(self.variant())),
            ("universe", J::num(self.universe)),
            ("state", runs_json(&self.state.runs(0), m)),
        ];
        if !self.state.client_is_empty(1) {
            f.push(("state2", runs_json(&self.state.runs(1), m)));
        }
        f.push((
            "state_attrs",
            if m {
                per_clock_attrs(&self.state, 0, self.universe)
            } else {
                J::Null
            },
        ));
        f.push(("op", self.op.to_json(m)));
        match &self.other {
            Some(o) => {
                f.push(("other", runs_json(&o.runs(0), m)));
                if !o.client_is_empty(1) {
                    f.push(("other2", runs_json(&o.runs(1), m)));
                }
            }
            None => f.push(("other", J::Null)),
        }
        f
    }

    pub fn from_json(j: &J) -> Result<Case, String> {
        let variant = j.get("variant").and_then(|v| v.as_str()).ok_or("variant missing")?;
        let is_map = match variant {
            "idset" => false,
            "idmap" => true,
            v => return Err(format!("unknown variant {:?}", v)),
        };
        let target = j
            .get("target")
            .and_then(|v| v.as_str())
            .unwrap_or("replay")
            .to_string();
        let mut state = O::empty();
        parse_entries(&mut state, 0, j.get_non_null("state"), is_map, "state")?;
        parse_entries(&mut state, 1, j.get_non_null("state2"), is_map, "state2")?;
        let other = if j.get_non_null("other").is_some() || j.get_non_null("other2").is_some() {
            let mut o = O::empty();
            parse_entries(&mut o, 0, j.get_non_null("other"), is_map, "other")?;
            parse_entries(&mut o, 1, j.get_non_null("other2"), is_map, "other2")?;
            Some(o)
        } else {
            None
        };
        let op = Op::from_json(j.get("op").ok_or("op missing")?, is_map)?;
        // never smaller than the smallest universe containing every mentioned clock
        let mut universe = match j.get_non_null("universe") {
            Some(u) => u32_of(u, "universe")?.min(L as u32),
            None => 0,
        };
        for o in std::iter::once(&state).chain(other.iter()) {
            for ci in 0..2 {
                if let Some(k) = o.clocks(ci).last() {
                    universe = universe.max(k + 1);
                }
            }
        }
        let needs_other = matches!(
            op,
            Op::Merge | Op::Exclude | Op::Intersect | Op::SubsetOf { .. } | Op::Equal | Op::NonMut { .. }
        );
        let other = if needs_other && other.is_none() {
            Some(O::empty())
        } else {
            other
        };
        Ok(Case {
            target,
            is_map,
            universe,
            state,
            other,
            op,
        })
    }
}

/// `{"clocks":[..]}` (+ `"attrs"` canonical entries for maps, + `clocks2`/`attrs2`
/// when client 2 is involved).
pub fn expected_json(exp: &O, is_map: bool, show_client2: bool) -> J {
    let clocks = |ci: usize| J::Arr(exp.clocks(ci).into_iter().map(J::num).collect());
    let mut f = vec![("clocks", clocks(0))];
    if is_map {
        f.push(("attrs", runs_json(&exp.runs(0), true)));
    }
    if show_client2 || !exp.client_is_empty(1) {
        f.push(("clocks2", clocks(1)));
        if is_map {
            f.push(("attrs2", runs_json(&exp.runs(1), true)));
        }
    }
    J::obj(f)
}
