//! Targets `stk_offset`, `stk_codec`, `sticky`: sticky indexes keep pointing
//! at the same place and survive serialization.
//!
//! Two replicas (fixed client ids, `OffsetKind::Utf16`, ASCII content only)
//! edit one sequence - a Text or an Array, a root type or one nested in a root
//! Map - whose elements are unique characters. After the set-up and after
//! every step a sticky index is created on the acting replica at EVERY position
//! with BOTH associations (plus `StickyIndex::from_type`), and every index ever
//! created is resolved (`get_offset`) on BOTH replicas and compared with an
//! oracle that is computed from the unique characters only:
//!
//! * the anchoring element (`StickyIndex::id`, mapped to its character through
//!   the clocks the insertions consumed) is unknown to the replica: `None`;
//! * it is visible: its position (`Assoc::After`) / its position + 1 (`Assoc::Before`);
//! * it has been deleted: the number of visible elements that precede it in
//!   the document order. The document order including deleted elements is
//!   read from a third "probe" replica that receives every insertion and
//!   formatting transaction (their incremental updates, `observe_update_v1`)
//!   but no deletion, so that every element stays visible there; it is only
//!   trusted while it holds exactly the elements inserted so far and agrees
//!   with the visible content of both replicas;
//! * a start-of-collection index stays at 0, an end-of-collection index at the length.
//!
//! The codec checks: `decode_v1(encode_v1(x))`, `decode_v2(encode_v2(x))` and
//! the serde JSON round trip return `x` and resolve like `x`, for every index
//! created, including nested scopes and client ids beyond 2^32.

use crate::evt::{at, bfs, fail, finish, finish_replay, guarded, Found, Hunt, Space};
use crate::json::J;
use crate::model::Failure;
use std::collections::{BTreeSet, HashMap, HashSet};
use std::sync::{Arc, Mutex};
use std::time::Instant;
use yrs::types::Attrs;
use yrs::updates::decoder::Decode;
use yrs::updates::encoder::Encode;
use yrs::{
    Any, Array, ArrayPrelim, ArrayRef, Assoc, BranchID, ClientID, Doc, GetString, IndexedSequence, Map, OffsetKind, Options,
    Out, ReadTxn, StickyIndex, Subscription, Text, TextPrelim, TextRef, Transact, TransactionMut, Update,
};

pub const TARGETS: &str = "sticky | stk_offset | stk_codec";

pub fn is_target(target: &str) -> bool {
    matches!(target, "sticky" | "stk_offset" | "stk_codec")
}

/// Is this witness line one of ours?
pub fn owns(j: &J) -> bool {
    j.get("target").and_then(|t| t.as_str()).map(is_target).unwrap_or(false)
}

const ROOT_TEXT: &str = "t";
const ROOT_ARRAY: &str = "r";
const HOST_MAP: &str = "h";
const NESTED_KEY: &str = "n";
/// Client id of the probe replica (it never writes).
const PROBE: u64 = (1 << 50) + 3;
/// A client id that does not fit into 32 bits.
const BIG: u64 = (1 << 40) + 5;
const MAX_LEN: u32 = 5;
const LETTERS: &[u8] = b"abcdefghijklmnopqrstuvwxyzABCDEFGHIJKLMNOPQRSTUVWXYZ";

#[derive(Clone, Debug, PartialEq)]
pub enum KOp {
    /// `Text::insert(index, text)` / `Array::insert_range(index, characters)`
    Ins { index: u32, text: String },
    /// `remove_range(index, len)`
    Del { index: u32, len: u32 },
    /// `Text::format(index, len, {"b": true})` (`on`) / `{"b": null}`
    Fmt { index: u32, len: u32, on: bool },
}

#[derive(Clone, Debug, PartialEq)]
pub enum KStep {
    Edit { replica: usize, op: KOp },
    /// Replica `to` applies everything replica `from` has and `to` lacks.
    Sync { to: usize, from: usize },
}

impl KStep {
    fn json(&self) -> J {
        match self {
            KStep::Edit { replica, op } => {
                let mut f = match op {
                    KOp::Ins { index, text } => {
                        vec![("step", J::str("insert")), ("index", J::num(*index)), ("text", J::str(text))]
                    }
                    KOp::Del { index, len } => {
                        vec![("step", J::str("remove_range")), ("index", J::num(*index)), ("len", J::num(*len))]
                    }
                    KOp::Fmt { index, len, on } => vec![
                        ("step", J::str("format")),
                        ("index", J::num(*index)),
                        ("len", J::num(*len)),
                        ("bold", if *on { J::Bool(true) } else { J::Null }),
                    ],
                };
                f.push(("replica", J::Num(*replica as i64 + 1)));
                J::obj(f)
            }
            KStep::Sync { to, from } => J::obj(vec![
                ("step", J::str("deliver")),
                ("to_replica", J::Num(*to as i64 + 1)),
                ("from_replica", J::Num(*from as i64 + 1)),
            ]),
        }
    }
}

#[derive(Clone, Debug)]
pub struct StkCase {
    pub target: String,
    /// The sequence is an Array of characters (otherwise a Text).
    pub array: bool,
    /// The sequence is nested in the root map `h` under key `n` (created by replica 1).
    pub nested: bool,
    pub clients: [u64; 2],
    /// Check the resolution of every index after every step.
    pub resolve: bool,
    /// Check the serialization round trips of every index created.
    pub codec: bool,
    pub steps: Vec<KStep>,
}

fn replica_index(j: Option<&J>, what: &str) -> Result<usize, String> {
    match j.and_then(|v| v.as_i64()) {
        Some(1) => Ok(0),
        Some(2) => Ok(1),
        _ => Err(format!("{}: expected replica 1 or 2", what)),
    }
}

impl StkCase {
    fn fields(&self) -> Vec<(&'static str, J)> {
        let variant = format!(
            "{}{}",
            if self.nested { "nested_" } else { "root_" },
            if self.array { "array" } else { "text" }
        );
        vec![
            ("target", J::str(&self.target)),
            ("variant", J::Str(variant)),
            (
                "op",
                J::obj(vec![
                    ("kind", J::str("sticky")),
                    ("sequence", J::str(if self.array { "array" } else { "text" })),
                    ("host", J::str(if self.nested { "nested" } else { "root" })),
                    ("offset_kind", J::str("utf16")),
                    ("clients", J::Arr(self.clients.iter().map(|c| J::Num(*c as i64)).collect())),
                    (
                        "checks",
                        J::str(match (self.resolve, self.codec) {
                            (true, true) => "both",
                            (false, true) => "codec",
                            _ => "offset",
                        }),
                    ),
                    ("steps", J::Arr(self.steps.iter().map(|s| s.json()).collect())),
                ]),
            ),
        ]
    }

    pub fn from_json(j: &J) -> Result<StkCase, String> {
        let target = j.get("target").and_then(|t| t.as_str()).unwrap_or("sticky").to_string();
        let op = j.get("op").ok_or("op missing")?;
        let text = |key: &str, default: &str| -> Result<String, String> {
            match op.get_non_null(key) {
                Some(v) => Ok(v.as_str().ok_or_else(|| format!("op.{}: expected a string", key))?.to_string()),
                None => Ok(default.to_string()),
            }
        };
        let array = match text("sequence", "text")?.as_str() {
            "text" => false,
            "array" => true,
            other => return Err(format!("op.sequence: unknown {:?}", other)),
        };
        let nested = match text("host", "root")?.as_str() {
            "root" => false,
            "nested" => true,
            other => return Err(format!("op.host: unknown {:?}", other)),
        };
        if text("offset_kind", "utf16")? != "utf16" {
            return Err("op.offset_kind: only utf16 documents are in scope of this target".into());
        }
        let (resolve, codec) = match text("checks", "both")?.as_str() {
            "both" => (true, true),
            "offset" => (true, false),
            "codec" => (false, true),
            other => return Err(format!("op.checks: unknown {:?}", other)),
        };
        let mut clients = [1u64, 2u64];
        if let Some(cs) = op.get_non_null("clients") {
            let cs = cs.as_arr().ok_or("op.clients: expected an array")?;
            if cs.len() != 2 {
                return Err("op.clients: expected two client ids".into());
            }
            for (i, c) in cs.iter().enumerate() {
                match c.as_i64() {
                    Some(n) if n >= 0 && (n as u64) < (1u64 << 53) && n as u64 != PROBE => clients[i] = n as u64,
                    _ => return Err("op.clients: expected 53-bit client ids".into()),
                }
            }
            if clients[0] == clients[1] {
                return Err("op.clients: the client ids must differ".into());
            }
        }
        let arr = op.get("steps").and_then(|s| s.as_arr()).ok_or("op.steps: expected an array")?;
        let mut steps = Vec::new();
        let mut seen: BTreeSet<char> = BTreeSet::new();
        for (i, st) in arr.iter().enumerate() {
            let what = format!("op.steps[{}]", i);
            let num = |key: &str| -> Result<u32, String> {
                match st.get(key).and_then(|v| v.as_i64()) {
                    Some(n) if (0..=1000).contains(&n) => Ok(n as u32),
                    _ => Err(format!("{}.{}: expected a number in 0..=1000", what, key)),
                }
            };
            let kind = st.get("step").and_then(|s| s.as_str()).ok_or_else(|| format!("{}.step missing", what))?;
            if kind == "deliver" {
                let to = replica_index(st.get("to_replica"), &format!("{}.to_replica", what))?;
                let from = replica_index(st.get("from_replica"), &format!("{}.from_replica", what))?;
                if to == from {
                    return Err(format!("{}: to_replica and from_replica must differ", what));
                }
                steps.push(KStep::Sync { to, from });
                continue;
            }
            let replica = replica_index(st.get("replica"), &format!("{}.replica", what))?;
            let op = match kind {
                "insert" => {
                    let text = st
                        .get("text")
                        .and_then(|t| t.as_str())
                        .ok_or_else(|| format!("{}.text missing", what))?
                        .to_string();
                    if text.is_empty() {
                        return Err(format!("{}.text: empty", what));
                    }
                    for c in text.chars() {
                        if !c.is_ascii_graphic() {
                            return Err(format!("{}.text: only visible ASCII characters are in scope", what));
                        }
                        if !seen.insert(c) {
                            return Err(format!("{}.text: character {:?} is inserted twice (elements must be unique)", what, c));
                        }
                    }
                    KOp::Ins { index: num("index")?, text }
                }
                "remove_range" => KOp::Del {
                    index: num("index")?,
                    len: num("len")?,
                },
                "format" => {
                    if array {
                        return Err(format!("{}: format needs a text", what));
                    }
                    KOp::Fmt {
                        index: num("index")?,
                        len: num("len")?,
                        on: matches!(st.get("bold"), Some(J::Bool(true))),
                    }
                }
                other => return Err(format!("{}.step: unknown {:?}", what, other)),
            };
            steps.push(KStep::Edit { replica, op });
        }
        Ok(StkCase {
            target,
            array,
            nested,
            clients,
            resolve,
            codec,
            steps,
        })
    }
}

// ---------------------------------------------------------------------------
// execution
// ---------------------------------------------------------------------------

#[derive(Clone)]
enum Seq {
    Text(TextRef),
    Array(ArrayRef),
}

fn elem(c: char) -> Any {
    Any::BigInt(c as i64)
}

impl Seq {
    fn read<T: ReadTxn>(&self, txn: &T) -> Vec<char> {
        match self {
            Seq::Text(t) => {
                at("Text::get_string");
                t.get_string(txn).chars().collect()
            }
            Seq::Array(a) => {
                at("Array::iter");
                a.iter(txn)
                    .map(|v| match v {
                        Out::Any(Any::BigInt(n)) if (0..128).contains(&n) => n as u8 as char,
                        _ => '\u{FFFD}',
                    })
                    .collect()
            }
        }
    }

    fn branch_id(&self) -> BranchID {
        match self {
            Seq::Text(t) => AsRef::<yrs::branch::Branch>::as_ref(t).id(),
            Seq::Array(a) => AsRef::<yrs::branch::Branch>::as_ref(a).id(),
        }
    }

    fn sticky<T: ReadTxn>(&self, txn: &T, pos: u32, assoc: Assoc) -> Option<StickyIndex> {
        at("IndexedSequence::sticky_index");
        match self {
            Seq::Text(t) => t.sticky_index(txn, pos, assoc),
            Seq::Array(a) => a.sticky_index(txn, pos, assoc),
        }
    }

    fn from_type<T: ReadTxn>(&self, txn: &T, assoc: Assoc) -> StickyIndex {
        at("StickyIndex::from_type");
        match self {
            Seq::Text(t) => StickyIndex::from_type(txn, t, assoc),
            Seq::Array(a) => StickyIndex::from_type(txn, a, assoc),
        }
    }

    fn apply(&self, txn: &mut TransactionMut, op: &KOp) {
        match (self, op) {
            (Seq::Text(t), KOp::Ins { index, text }) => {
                at("Text::insert");
                t.insert(txn, *index, text);
            }
            (Seq::Array(a), KOp::Ins { index, text }) => {
                at("Array::insert_range");
                a.insert_range(txn, *index, text.chars().map(elem));
            }
            (Seq::Text(t), KOp::Del { index, len }) => {
                at("Text::remove_range");
                t.remove_range(txn, *index, *len);
            }
            (Seq::Array(a), KOp::Del { index, len }) => {
                at("Array::remove_range");
                a.remove_range(txn, *index, *len);
            }
            (Seq::Text(t), KOp::Fmt { index, len, on }) => {
                at("Text::format");
                let mut attrs = Attrs::new();
                attrs.insert("b".into(), if *on { Any::Bool(true) } else { Any::Null });
                t.format(txn, *index, *len, attrs);
            }
            (Seq::Array(_), KOp::Fmt { .. }) => {}
        }
    }
}

struct Rep {
    doc: Doc,
    seq: Seq,
    /// Characters whose insertion this replica has received.
    known: BTreeSet<char>,
    /// Incremental updates of the transactions committed since the last drain.
    outbox: Arc<Mutex<Vec<Vec<u8>>>>,
    _sub: Option<Subscription>,
}

fn new_doc(client: u64) -> Doc {
    at("Doc::with_options");
    let mut options = Options::with_client_id(ClientID::new(client));
    options.offset_kind = OffsetKind::Utf16;
    Doc::with_options(options)
}

fn clock_of(doc: &Doc, client: u64) -> u32 {
    at("ReadTxn::state_vector");
    doc.transact().state_vector().get(&ClientID::new(client))
}

fn transfer(from: &Doc, to: &Doc, api: &str) -> Result<(), Failure> {
    at(api);
    let sv = to.transact().state_vector();
    let bytes = from.transact().encode_state_as_update_v1(&sv);
    let update = Update::decode_v1(&bytes)
        .map_err(|e| fail("an update just encoded does not decode", api, J::str("Ok"), J::str(&e.to_string())))?;
    to.transact_mut()
        .apply_update(update)
        .map_err(|e| fail("apply_update of a peer's state failed", api, J::str("Ok"), J::str(&e.to_string())))
}

const API_SYNC: &str = "ReadTxn::encode_state_as_update_v1 -> Update::decode_v1 -> TransactionMut::apply_update";

#[derive(Clone, Debug, PartialEq)]
enum Anchor {
    /// Start of the collection (branch scope, `Assoc::Before`).
    Start,
    /// End of the collection (branch scope, `Assoc::After`).
    End,
    /// The element with this character.
    Elem(char),
    /// A block that is not an element (a formatting marker), or one the oracle cannot name.
    Other,
}

struct Tracked {
    idx: StickyIndex,
    /// Number of steps executed when it was created (0: on the empty documents).
    after_steps: usize,
    on: usize,
    /// `None`: created with `StickyIndex::from_type`.
    pos: Option<u32>,
    anchor: Anchor,
}

fn assoc_name(a: Assoc) -> &'static str {
    match a {
        Assoc::After => "after",
        Assoc::Before => "before",
    }
}

impl Tracked {
    fn json(&self) -> J {
        J::obj(vec![
            ("created_after_steps", J::Num(self.after_steps as i64)),
            ("on_replica", J::Num(self.on as i64 + 1)),
            (
                "created_with",
                match self.pos {
                    Some(p) => J::Str(format!("sticky_index({}, {})", p, assoc_name(self.idx.assoc))),
                    None => J::Str(format!("StickyIndex::from_type({})", assoc_name(self.idx.assoc))),
                },
            ),
            ("assoc", J::str(assoc_name(self.idx.assoc))),
            (
                "anchor",
                match &self.anchor {
                    Anchor::Start => J::str("start of the collection"),
                    Anchor::End => J::str("end of the collection"),
                    Anchor::Elem(c) => J::Str(format!("element {:?}", c)),
                    Anchor::Other => J::str("not an element"),
                },
            ),
            ("sticky_index", J::Str(format!("{:?}", self.idx))),
        ])
    }
}

#[derive(Clone, Debug, PartialEq)]
enum Expect {
    /// The property does not fix the answer (or the oracle cannot tell).
    Open,
    /// `get_offset` returns `None`.
    Unresolvable,
    At(u32),
}

fn expect(tr: &Tracked, content: &[char], known: &BTreeSet<char>, order: Option<&[char]>) -> Expect {
    match &tr.anchor {
        Anchor::Start => Expect::At(0),
        Anchor::End => Expect::At(content.len() as u32),
        Anchor::Other => Expect::Open,
        Anchor::Elem(c) => {
            if !known.contains(c) {
                return Expect::Unresolvable;
            }
            if let Some(p) = content.iter().position(|x| x == c) {
                return Expect::At(p as u32 + if tr.idx.assoc == Assoc::Before { 1 } else { 0 });
            }
            // deleted: the visible elements that precede it in the document order
            let order = match order {
                Some(o) => o,
                None => return Expect::Open,
            };
            let rank = |x: &char| order.iter().position(|y| y == x);
            let me = match rank(c) {
                Some(r) => r,
                None => return Expect::Open,
            };
            let mut n = 0;
            for v in content {
                match rank(v) {
                    Some(r) if r < me => n += 1,
                    Some(_) => {}
                    None => return Expect::Open,
                }
            }
            Expect::At(n)
        }
    }
}

fn chars_json(cs: &[char]) -> J {
    J::Str(cs.iter().collect())
}

/// What a passing run tells about the final state.
#[derive(Clone, Debug, Default)]
pub struct KInfo {
    len: [u32; 2],
    /// Steps at which the probe replica could not be trusted (no deleted-anchor oracle there).
    pub probe_gaps: u32,
}

fn invalid(why: String) -> Failure {
    Failure {
        why: format!("invalid case: {}", why),
        expected: J::Null,
        actual: J::Null,
        api: "(none)".to_string(),
    }
}

fn is_invalid(f: &Failure) -> bool {
    f.why.starts_with("invalid case: ")
}

struct World<'a> {
    case: &'a StkCase,
    reps: Vec<Rep>,
    probe: Rep,
    /// Block id -> the element it holds (`None`: not an element).
    ids: HashMap<(u64, u32), Option<char>>,
    all_chars: BTreeSet<char>,
    tracked: Vec<Tracked>,
    seen: HashSet<StickyIndex>,
    probe_gaps: u32,
}

impl<'a> World<'a> {
    fn new(case: &'a StkCase) -> Result<World<'a>, Failure> {
        let docs = [new_doc(case.clients[0]), new_doc(case.clients[1]), new_doc(PROBE)];
        let mut ids = HashMap::new();
        let mut seqs: Vec<Seq> = Vec::new();
        if case.nested {
            at("Doc::get_or_insert_map");
            let hosts: Vec<yrs::MapRef> = docs.iter().map(|d| d.get_or_insert_map(HOST_MAP)).collect();
            {
                let before = clock_of(&docs[0], case.clients[0]);
                let mut txn = docs[0].transact_mut();
                at("Map::insert (nested type)");
                if case.array {
                    hosts[0].insert(&mut txn, NESTED_KEY, ArrayPrelim::default());
                } else {
                    hosts[0].insert(&mut txn, NESTED_KEY, TextPrelim::new(""));
                }
                drop(txn);
                let after = clock_of(&docs[0], case.clients[0]);
                for k in before..after {
                    ids.insert((case.clients[0], k), None);
                }
            }
            transfer(&docs[0], &docs[1], API_SYNC)?;
            transfer(&docs[0], &docs[2], API_SYNC)?;
            for (d, h) in docs.iter().zip(hosts.iter()) {
                at("Map::get (nested type)");
                let txn = d.transact();
                match h.get(&txn, NESTED_KEY) {
                    Some(Out::YText(t)) if !case.array => seqs.push(Seq::Text(t)),
                    Some(Out::YArray(a)) if case.array => seqs.push(Seq::Array(a)),
                    _ => {
                        return Err(fail(
                            "the nested type created by replica 1 is not readable after synchronisation",
                            "Map::get",
                            J::str("the nested type"),
                            J::Null,
                        ))
                    }
                }
            }
        } else {
            at("Doc::get_or_insert_text / get_or_insert_array");
            for d in docs.iter() {
                seqs.push(if case.array {
                    Seq::Array(d.get_or_insert_array(ROOT_ARRAY))
                } else {
                    Seq::Text(d.get_or_insert_text(ROOT_TEXT))
                });
            }
        }
        let mut reps: Vec<Rep> = Vec::new();
        for (i, (doc, seq)) in docs.into_iter().zip(seqs.into_iter()).enumerate() {
            let outbox: Arc<Mutex<Vec<Vec<u8>>>> = Arc::new(Mutex::new(Vec::new()));
            let sub = if i < 2 {
                at("Doc::observe_update_v1");
                let ob = outbox.clone();
                Some(
                    doc.observe_update_v1(move |_, e| {
                        ob.lock().unwrap_or_else(|e| e.into_inner()).push(e.update.clone());
                    })
                    .map_err(|_| fail("observe_update_v1 failed", "Doc::observe_update_v1", J::str("Ok"), J::str("Err")))?,
                )
            } else {
                None
            };
            reps.push(Rep {
                doc,
                seq,
                known: BTreeSet::new(),
                outbox,
                _sub: sub,
            });
        }
        let probe = reps.pop().unwrap();
        Ok(World {
            case,
            reps,
            probe,
            ids,
            all_chars: BTreeSet::new(),
            tracked: Vec::new(),
            seen: HashSet::new(),
            probe_gaps: 0,
        })
    }

    fn drain(&self, r: usize) -> Vec<Vec<u8>> {
        std::mem::take(&mut *self.reps[r].outbox.lock().unwrap_or_else(|e| e.into_inner()))
    }

    fn content(&self, r: usize) -> Vec<char> {
        let txn = self.reps[r].doc.transact();
        self.reps[r].seq.read(&txn)
    }

    fn edit(&mut self, replica: usize, op: &KOp, step_no: usize) -> Result<(), Failure> {
        let client = self.case.clients[replica];
        let len = self.content(replica).len() as u32;
        match op {
            KOp::Ins { index, .. } if *index > len => {
                return Err(invalid(format!("step {}: insert at {} into {} elements", step_no + 1, index, len)))
            }
            KOp::Del { index, len: n } | KOp::Fmt { index, len: n, .. } if *n == 0 || *index + *n > len => {
                return Err(invalid(format!("step {}: range ({}, {}) on {} elements", step_no + 1, index, n, len)))
            }
            KOp::Fmt { .. } if self.case.array => return Err(invalid(format!("step {}: format needs a text", step_no + 1))),
            _ => {}
        }
        let before = clock_of(&self.reps[replica].doc, client);
        let _ = self.drain(replica);
        {
            at("Doc::transact_mut");
            let mut txn = self.reps[replica].doc.transact_mut();
            self.reps[replica].seq.apply(&mut txn, op);
            at("TransactionMut::commit");
            drop(txn);
        }
        let after = clock_of(&self.reps[replica].doc, client);
        let updates = self.drain(replica);
        match op {
            KOp::Ins { text, .. } => {
                let cs: Vec<char> = text.chars().collect();
                if (after - before) as usize == cs.len() {
                    for (k, c) in cs.iter().enumerate() {
                        self.ids.insert((client, before + k as u32), Some(*c));
                    }
                } else {
                    // not one clock per element: the oracle cannot name these blocks
                    for k in before..after {
                        self.ids.insert((client, k), None);
                    }
                }
                for c in cs {
                    self.reps[replica].known.insert(c);
                    self.all_chars.insert(c);
                }
            }
            KOp::Fmt { .. } => {
                for k in before..after {
                    self.ids.insert((client, k), None);
                }
            }
            KOp::Del { .. } => {
                for k in before..after {
                    self.ids.insert((client, k), None);
                }
            }
        }
        // the probe replica receives insertions and formatting, never a deletion of an element
        if !matches!(op, KOp::Del { .. }) {
            for bytes in updates {
                let api = "Doc::observe_update_v1 -> Update::decode_v1 -> TransactionMut::apply_update (probe replica)";
                at(api);
                if let Ok(update) = Update::decode_v1(&bytes) {
                    let _ = self.probe.doc.transact_mut().apply_update(update);
                }
            }
        }
        Ok(())
    }

    /// The document order of all elements inserted so far, if the probe replica can be trusted.
    fn order(&mut self, contents: &[Vec<char>; 2]) -> Option<Vec<char>> {
        let order = {
            let txn = self.probe.doc.transact();
            self.probe.seq.read(&txn)
        };
        let set: BTreeSet<char> = order.iter().copied().collect();
        let mut ok = set.len() == order.len() && set == self.all_chars;
        for c in contents.iter() {
            let visible: BTreeSet<char> = c.iter().copied().collect();
            let projected: Vec<char> = order.iter().copied().filter(|x| visible.contains(x)).collect();
            ok &= &projected == c;
        }
        if ok {
            Some(order)
        } else {
            self.probe_gaps += 1;
            None
        }
    }

    fn anchor_of(&self, idx: &StickyIndex) -> Anchor {
        match idx.id() {
            Some(id) => match self.ids.get(&(id.client.get(), id.clock)) {
                Some(Some(c)) => Anchor::Elem(*c),
                _ => Anchor::Other,
            },
            None => {
                if idx.assoc == Assoc::Before {
                    Anchor::Start
                } else {
                    Anchor::End
                }
            }
        }
    }

    /// Creates the sticky indexes of replica `r` at every position, with both associations.
    fn create(&mut self, r: usize, after_steps: usize, with_from_type: bool) -> Result<(), Failure> {
        let mut fresh: Vec<Tracked> = Vec::new();
        {
            let txn = self.reps[r].doc.transact();
            let seq = self.reps[r].seq.clone();
            let content = seq.read(&txn);
            let len = content.len() as u32;
            let mut made: Vec<(Option<u32>, StickyIndex)> = Vec::new();
            for pos in 0..=len {
                for assoc in [Assoc::After, Assoc::Before] {
                    match seq.sticky(&txn, pos, assoc) {
                        Some(idx) => made.push((Some(pos), idx)),
                        None => {
                            // `sticky_index(len, After)` has no element to stick to: not an index
                            if !(assoc == Assoc::After && pos == len) && self.case.resolve {
                                return Err(fail(
                                    "no sticky index can be created at a position inside the collection",
                                    "IndexedSequence::sticky_index",
                                    J::obj(vec![
                                        ("replica", J::Num(r as i64 + 1)),
                                        ("content", chars_json(&content)),
                                        ("position", J::num(pos)),
                                        ("assoc", J::str(assoc_name(assoc))),
                                        ("result", J::str("Some")),
                                    ]),
                                    J::str("None"),
                                ));
                            }
                        }
                    }
                }
            }
            if with_from_type {
                for assoc in [Assoc::After, Assoc::Before] {
                    made.push((None, seq.from_type(&txn, assoc)));
                }
            }
            for (pos, idx) in made {
                let tr = Tracked {
                    anchor: self.anchor_of(&idx),
                    idx,
                    after_steps,
                    on: r,
                    pos,
                };
                if self.case.resolve {
                    if let Some(p) = tr.pos {
                        // nothing has been edited yet: the index designates the position it was created at
                        at("StickyIndex::get_offset");
                        let got = tr.idx.get_offset(&txn).map(|o| o.index);
                        if got != Some(p) {
                            return Err(fail(
                                "a sticky index just created does not resolve to the position it was created at",
                                "IndexedSequence::sticky_index -> StickyIndex::get_offset",
                                J::obj(vec![
                                    ("sticky", tr.json()),
                                    ("replica", J::Num(r as i64 + 1)),
                                    ("content", chars_json(&content)),
                                    ("index", J::num(p)),
                                ]),
                                J::obj(vec![("index", got.map(J::num).unwrap_or(J::Null))]),
                            ));
                        }
                    }
                }
                if self.case.codec {
                    codec_checks(&tr, &txn, r, &content)?;
                }
                if self.seen.insert(tr.idx.clone()) {
                    fresh.push(tr);
                }
            }
        }
        self.tracked.extend(fresh);
        Ok(())
    }

    /// Resolves every index on both replicas.
    fn check_all(&mut self, step_no: Option<usize>) -> Result<(), Failure> {
        let contents = [self.content(0), self.content(1)];
        let order = self.order(&contents);
        for r in 0..2 {
            let txn = self.reps[r].doc.transact();
            let want_branch = self.reps[r].seq.branch_id();
            for tr in self.tracked.iter() {
                let e = expect(tr, &contents[r], &self.reps[r].known, order.as_deref());
                if e == Expect::Open {
                    continue;
                }
                at("StickyIndex::get_offset");
                let got = tr.idx.get_offset(&txn);
                let got_index = got.as_ref().map(|o| o.index);
                let want_index = match e {
                    Expect::At(n) => Some(n),
                    _ => None,
                };
                let context = |value: J| -> J {
                    J::obj(vec![
                        ("after_step", step_no.map(|s| J::Num(s as i64 + 1)).unwrap_or(J::Num(0))),
                        ("sticky", tr.json()),
                        ("resolved_on_replica", J::Num(r as i64 + 1)),
                        ("content_replica_1", chars_json(&contents[0])),
                        ("content_replica_2", chars_json(&contents[1])),
                        (
                            "document_order_with_deleted",
                            order.as_ref().map(|o| chars_json(o)).unwrap_or(J::Null),
                        ),
                        ("index", value),
                    ])
                };
                if got_index != want_index {
                    let why = match &tr.anchor {
                        Anchor::Elem(c) if contents[r].contains(c) => {
                            "a sticky index does not resolve next to its (visible) anchoring element"
                        }
                        Anchor::Elem(_) if want_index.is_some() => {
                            "a sticky index whose anchoring element was deleted does not resolve to the gap the element left"
                        }
                        Anchor::Elem(_) => "a sticky index resolves on a replica that does not know its anchoring element",
                        _ => "a sticky index at the start/end of the collection did not stay there",
                    };
                    return Err(fail(
                        why,
                        "StickyIndex::get_offset",
                        context(want_index.map(J::num).unwrap_or(J::Null)),
                        J::obj(vec![("index", got_index.map(J::num).unwrap_or(J::Null))]),
                    ));
                }
                if let Some(o) = got {
                    if o.branch.id() != want_branch || o.assoc != tr.idx.assoc {
                        return Err(fail(
                            "a sticky index resolves into another collection / with another association",
                            "StickyIndex::get_offset",
                            context(want_index.map(J::num).unwrap_or(J::Null)),
                            J::obj(vec![
                                ("branch", J::Str(format!("{:?}", o.branch.id()))),
                                ("assoc", J::str(assoc_name(o.assoc))),
                            ]),
                        ));
                    }
                }
            }
        }
        Ok(())
    }
}

fn codec_checks<T: ReadTxn>(tr: &Tracked, txn: &T, r: usize, content: &[char]) -> Result<(), Failure> {
    let idx = &tr.idx;
    at("StickyIndex::get_offset");
    let resolved = idx.get_offset(txn);
    let context = |format: &str| -> J {
        J::obj(vec![
            ("format", J::str(format)),
            ("sticky", tr.json()),
            ("replica", J::Num(r as i64 + 1)),
            ("content", chars_json(content)),
            ("read_back", J::Str(format!("{:?}", idx))),
            (
                "read_back_resolves_to",
                resolved.as_ref().map(|o| J::num(o.index)).unwrap_or(J::Null),
            ),
        ])
    };
    let judge = |format: &str, api: &str, back: Result<StickyIndex, String>| -> Result<(), Failure> {
        match back {
            Err(e) => Err(fail(
                "a serialized sticky index cannot be read back",
                api,
                context(format),
                J::obj(vec![("error", J::Str(e))]),
            )),
            Ok(d) => {
                at("StickyIndex::get_offset (decoded)");
                let again = d.get_offset(txn);
                if &d != idx || again != resolved {
                    Err(fail(
                        "a sticky index does not survive serialization",
                        api,
                        context(format),
                        J::obj(vec![
                            ("read_back", J::Str(format!("{:?}", d))),
                            (
                                "read_back_resolves_to",
                                again.as_ref().map(|o| J::num(o.index)).unwrap_or(J::Null),
                            ),
                        ]),
                    ))
                } else {
                    Ok(())
                }
            }
        }
    };
    let api = "StickyIndex::encode_v1 -> StickyIndex::decode_v1";
    at(api);
    let bytes = idx.encode_v1();
    judge("lib0 v1", api, StickyIndex::decode_v1(&bytes).map_err(|e| e.to_string()))?;
    let api = "StickyIndex::encode_v2 -> StickyIndex::decode_v2";
    at(api);
    let bytes = idx.encode_v2();
    judge("lib0 v2", api, StickyIndex::decode_v2(&bytes).map_err(|e| e.to_string()))?;
    let api = "serde_json::to_string(&StickyIndex) -> serde_json::from_str";
    at(api);
    let back = match serde_json::to_string(idx) {
        Ok(text) => serde_json::from_str::<StickyIndex>(&text).map_err(|e| format!("{} (JSON text {})", e, text)),
        Err(e) => Err(format!("serialization failed: {}", e)),
    };
    judge("JSON", api, back)?;
    Ok(())
}

fn news(steps: &[KStep]) -> [bool; 2] {
    let mut n = [false; 2];
    for s in steps {
        match s {
            KStep::Edit { replica, .. } => n[*replica] = true,
            KStep::Sync { from, .. } => n[*from] = false,
        }
    }
    n
}

/// Runs the steps; `close`: afterwards delivers whatever has not been
/// delivered yet. On a disagreement returns the case cut after the failing step.
fn execute(case: &StkCase, close: bool) -> Result<KInfo, (StkCase, Failure)> {
    let mut done: Vec<KStep> = Vec::new();
    let r = guarded(|| {
        let mut w = World::new(case)?;
        w.create(0, 0, true)?;
        w.create(1, 0, true)?;
        if case.resolve {
            w.check_all(None)?;
        }
        let mut pending: Vec<KStep> = case.steps.clone();
        pending.reverse();
        let mut closing = 0;
        loop {
            let step = match pending.pop() {
                Some(s) => s,
                None => {
                    if !close || closing == 2 {
                        break;
                    }
                    closing += 1;
                    let (to, from) = if closing == 1 { (0, 1) } else { (1, 0) };
                    if !news(&done)[from] {
                        continue;
                    }
                    KStep::Sync { to, from }
                }
            };
            let step_no = done.len();
            done.push(step.clone());
            let actor = match &step {
                KStep::Edit { replica, op } => {
                    w.edit(*replica, op, step_no)?;
                    *replica
                }
                KStep::Sync { to, from } => {
                    transfer(&w.reps[*from].doc, &w.reps[*to].doc, API_SYNC)?;
                    let learnt: Vec<char> = w.reps[*from].known.iter().copied().collect();
                    w.reps[*to].known.extend(learnt);
                    let _ = w.drain(0);
                    let _ = w.drain(1);
                    *to
                }
            };
            w.create(actor, step_no + 1, false)?;
            if case.resolve {
                w.check_all(Some(step_no))?;
            }
        }
        Ok(KInfo {
            len: [w.content(0).len() as u32, w.content(1).len() as u32],
            probe_gaps: w.probe_gaps,
        })
    });
    r.map_err(|f| {
        (
            StkCase {
                steps: done,
                ..case.clone()
            },
            f,
        )
    })
}

// ---------------------------------------------------------------------------
// enumeration
// ---------------------------------------------------------------------------

struct KSpace {
    /// Edits per history.
    budget: usize,
    /// Longest insertion / removal / formatted range.
    max_ins: u32,
    max_del: u32,
    probe_gaps: std::sync::atomic::AtomicU64,
}

fn edits(steps: &[KStep]) -> usize {
    steps.iter().filter(|s| matches!(s, KStep::Edit { .. })).count()
}

fn inserted(steps: &[KStep]) -> usize {
    steps
        .iter()
        .map(|s| match s {
            KStep::Edit {
                op: KOp::Ins { text, .. }, ..
            } => text.len(),
            _ => 0,
        })
        .sum()
}

impl Space for KSpace {
    type Case = StkCase;
    type Info = KInfo;

    fn run(&self, case: &StkCase) -> Result<KInfo, Box<Found>> {
        let close = edits(&case.steps) >= self.budget;
        match execute(case, close) {
            Ok(info) => {
                if close && info.probe_gaps > 0 {
                    self.probe_gaps
                        .fetch_add(info.probe_gaps as u64, std::sync::atomic::Ordering::Relaxed);
                }
                Ok(info)
            }
            Err((failed, failure)) => Err(Box::new(Found {
                fields: failed.fields(),
                failure,
            })),
        }
    }

    fn expandable(&self, case: &StkCase) -> bool {
        edits(&case.steps) < self.budget
    }

    fn children(&self, case: &StkCase, info: &KInfo) -> Vec<StkCase> {
        if edits(&case.steps) >= self.budget {
            return Vec::new(); // closed by `run`
        }
        let next = inserted(&case.steps);
        let formatted = case.steps.iter().any(|s| matches!(s, KStep::Edit { op: KOp::Fmt { .. }, .. }));
        let mut out = Vec::new();
        let extend = |step: KStep| -> StkCase {
            let mut c = case.clone();
            c.steps.push(step);
            c
        };
        for replica in 0..2 {
            // edits of different replicas commute as long as nothing is delivered in between:
            // only the order "replica 1 first" is enumerated
            if replica == 0 && matches!(case.steps.last(), Some(KStep::Edit { replica: 1, .. })) {
                continue;
            }
            let len = info.len[replica];
            for n in 1..=self.max_ins {
                if len + n > MAX_LEN || next + n as usize > LETTERS.len() {
                    continue;
                }
                let text: String = (0..n as usize).map(|i| LETTERS[next + i] as char).collect();
                for index in 0..=len {
                    out.push(extend(KStep::Edit {
                        replica,
                        op: KOp::Ins { index, text: text.clone() },
                    }));
                }
            }
            for n in 1..=len.min(self.max_del) {
                for index in 0..=(len - n) {
                    out.push(extend(KStep::Edit {
                        replica,
                        op: KOp::Del { index, len: n },
                    }));
                }
            }
            if !case.array {
                for n in 1..=len.min(2) {
                    for index in 0..=(len - n) {
                        out.push(extend(KStep::Edit {
                            replica,
                            op: KOp::Fmt { index, len: n, on: true },
                        }));
                        if formatted && n == 1 {
                            out.push(extend(KStep::Edit {
                                replica,
                                op: KOp::Fmt { index, len: n, on: false },
                            }));
                        }
                    }
                }
            }
        }
        let n = news(&case.steps);
        for (to, from) in [(0usize, 1usize), (1, 0)] {
            if n[from] {
                out.push(extend(KStep::Sync { to, from }));
            }
        }
        out
    }
}

/// (array, nested, clients, budget)
type Config = (bool, bool, [u64; 2], usize);

fn offset_configs(universe: u32) -> Vec<Config> {
    let u = universe.clamp(1, 8) as usize;
    let deep = u.saturating_sub(2).clamp(1, 5);
    let shallow = u.saturating_sub(3).clamp(1, 4);
    vec![
        (false, false, [1, 2], deep),
        (true, false, [1, 2], deep),
        (false, true, [1, 2], shallow),
        (true, true, [2, 1], shallow),
    ]
}

fn codec_configs(universe: u32) -> Vec<Config> {
    let u = universe.clamp(1, 8) as usize;
    let b = u.saturating_sub(4).clamp(1, 3);
    let mut out = Vec::new();
    for clients in [[1, 2], [BIG, 2], [1, BIG]] {
        for nested in [false, true] {
            for array in [false, true] {
                out.push((array, nested, clients, b));
            }
        }
    }
    out
}

pub fn cmd_search(target: &str, universe: u32, jobs: usize, deadline: Option<Instant>) -> i32 {
    let mut h = Hunt {
        jobs: jobs.max(1),
        deadline,
        cases: 0,
    };
    // (resolve, codec, configurations)
    let mut stages: Vec<(&str, bool, bool, Vec<Config>)> = Vec::new();
    if target != "stk_offset" {
        stages.push(("codec", false, true, codec_configs(universe)));
    }
    if target != "stk_codec" {
        stages.push(("offset", true, false, offset_configs(universe)));
    }
    let mut res = Ok(());
    let mut per_stage: Vec<(&str, J)> = Vec::new();
    let mut gaps = 0u64;
    'stages: for (name, resolve, codec, configs) in stages {
        let before = h.cases;
        let deepest = configs.iter().map(|c| c.3).max().unwrap_or(1);
        // iterative deepening on the number of edits: a witness has as few as possible
        for b in 1..=deepest {
            for (array, nested, clients, budget) in configs.iter() {
                if b > *budget {
                    continue;
                }
                let space = KSpace {
                    budget: b,
                    max_ins: 2,
                    max_del: 3,
                    probe_gaps: std::sync::atomic::AtomicU64::new(0),
                };
                let root = StkCase {
                    target: target.to_string(),
                    array: *array,
                    nested: *nested,
                    clients: *clients,
                    resolve,
                    codec,
                    steps: Vec::new(),
                };
                res = bfs(&mut h, &space, vec![root]);
                gaps += space.probe_gaps.load(std::sync::atomic::Ordering::Relaxed);
                if res.is_err() {
                    per_stage.push((name, J::Num((h.cases - before) as i64)));
                    break 'stages;
                }
            }
        }
        per_stage.push((name, J::Num((h.cases - before) as i64)));
    }
    let mut extra = Vec::new();
    if per_stage.len() > 1 {
        extra.push(("cases_per_stage", J::obj(per_stage)));
    }
    if target != "stk_codec" {
        // steps at which the deleted-anchor oracle had to stay silent (the probe replica disagreed)
        extra.push(("probe_gaps", J::Num(gaps as i64)));
    }
    finish(target, universe, res, &h, extra)
}

/// `replay` of a witness of this module; `Err`: usage error (exit 2).
pub fn cmd_replay(j: &J) -> Result<i32, String> {
    let case = StkCase::from_json(j)?;
    match execute(&case, false) {
        Ok(info) => Ok(finish_replay(Ok(J::obj(vec![
            ("all_indexes_agree", J::Bool(true)),
            ("lengths", J::Arr(info.len.iter().map(|l| J::num(*l)).collect())),
            ("probe_gaps", J::num(info.probe_gaps)),
        ])))),
        Err((_, f)) if is_invalid(&f) => Err(f.why),
        Err((_, f)) => Ok(finish_replay(Err(f))),
    }
}
