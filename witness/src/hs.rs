//! Target `handshake`: the DOCUMENT half of the y-sync protocol as the default methods of
//! `yrs::sync::Protocol` implement it (`DefaultProtocol`, `Awareness`, `Message`, `SyncMessage`,
//! `MessageReader`).
//!
//! "Two peers that run the handshake (each sends SyncStep1 with its state vector and its awareness
//! state on connect = `Protocol::start`; each answers a SyncStep1 with SyncStep2 = everything the
//! other lacks; SyncStep2 and Update payloads are applied) end up with the same document, and
//! updates forwarded as `Message::Sync(SyncMessage::Update)` afterwards keep them equal; every
//! message survives encode / decode; unknown / custom tags are reported, not dropped silently."
//!
//! A case: two peers A, B (client ids in both orders) with a root Text `t` and a root Map `m`;
//! 0..3 local transactions each before the handshake (text push / insert at 0 / delete-only, map
//! set / remove); optionally a third client C (id 3: `c1` pushes "x", `c2` pushes "y" behind it,
//! `c3` deletes "x") of whose updates ONE peer holds only `c2` (a STASHED block) or only `c3` (a
//! PENDING delete set), while the predecessor `c1` is held by the other peer or withheld from both;
//! then the handshake: both `start` payloads are produced first, then the four events hA (A handles
//! B's payload, producing its replies), hB, aA (A handles the replies B produced), aB in each of
//! the 6 orders the protocol allows (hB < aA, hA < aB; among them "A answers SyncStep1 before /
//! after applying the SyncStep2 it received"); optionally a custom message (tags 100, 127, 128,
//! 255 as `Message::Custom`, 300 as raw bytes) in front of A's SyncStep1; then 0..2 further local
//! transactions per side (delete-only ones and ones that change nothing included), each forwarded
//! at once as an encoded `Message::Sync(SyncMessage::Update(v1 bytes of the transaction))`.
//! Messages always travel as bytes and are decoded by `MessageReader`; a payload is handled either
//! by `Protocol::handle` (whole) or frame by frame through `Protocol::handle_message`.
//!
//!  (H1) after the handshake (all replies handled) A and B show the same text / map, their
//!       `encode_state_as_update_v1(&empty)` decode to the same inserted ids and delete set, and a
//!       FRESH document that applies A's full state and then `c1` shows the same as one that applies
//!       B's full state and then `c1`, and shows what the stashed part says ("y" present / "x" gone):
//!       everything one peer holds, integrated or stashed, the other holds too.
//!  (H2) after each forwarded update both show the same content (and the same ids / delete set).
//!  (H3) every payload decodes to messages that re-encode to the same bytes; a message built here
//!       decodes to an equal message; the frames behind a custom message are still parsed and the
//!       SyncStep1 behind it is answered (frame by frame); the custom message itself yields
//!       `Error::Unsupported(tag)` (`Protocol::handle` on the payload returns that error: reported,
//!       not dropped; NOTE it also stops reading the payload, so through `handle` the SyncStep1
//!       behind a custom message stays unanswered on the unchanged tree -
//!       `"handle_answers_behind_custom":true`, off by default, asserts the contrary). Tag 300 does
//!       not fit the `u8` tag: `MessageReader` reports `InvalidVarInt`, `handle` a decoding error.
//!
//! Enumeration: by total weight (transactions + third-client scenario + custom message), smallest
//! first; every skeleton in 2 client orders x 6 handshake orders x 2 ways of handling.
//! Uses the search harness of evt.rs.

use crate::evt::{at, finish, finish_replay, guarded, Found, Hunt, Stop, Tally};
use crate::json::J;
use crate::model::Failure;
use std::sync::{Arc, Mutex};
use std::time::Instant;
use yrs::encoding::read::Cursor;
use yrs::encoding::write::Write;
use yrs::sync::{Awareness, DefaultProtocol, Error as PError, Message, MessageReader, Protocol, SyncMessage};
use yrs::types::ToJson;
use yrs::updates::decoder::{Decode, DecoderV1};
use yrs::updates::encoder::{Encode, Encoder, EncoderV1};
use yrs::{
    Any, ClientID, Doc, GetString, IdSet, Map, MapRef, Options, ReadTxn, StateVector, Subscription, Text, TextRef, Transact, Update,
};

pub const TARGETS: &str = "handshake";

pub fn is_target(target: &str) -> bool {
    target == "handshake"
}

/// Is this witness line one of ours?
pub fn owns(j: &J) -> bool {
    j.get("target").and_then(|t| t.as_str()).map(is_target).unwrap_or(false)
}

const TEXT: &str = "t";
const MAP: &str = "m";
const KEY: &str = "k";
const THIRD: u64 = 3;
const LETTERS: &[u8] = b"abcdefghijklmnopqrsuvw";
const TAGS: [u32; 5] = [100, 127, 128, 255, 300];
const CUSTOM_DATA: [u8; 3] = [7, 0, 200];

#[derive(Clone, Copy, Debug, PartialEq, Eq)]
pub enum T {
    TextPush,
    TextFront,
    /// deletes the first character (a delete-only transaction; nothing on an empty text)
    TextDel,
    MapSet,
    /// removes the key (delete-only; nothing if absent)
    MapRem,
    /// an empty transaction
    Nop,
}

const ALL_T: [T; 6] = [T::TextPush, T::TextFront, T::TextDel, T::MapSet, T::MapRem, T::Nop];

impl T {
    fn name(self) -> &'static str {
        match self {
            T::TextPush => "text_push",
            T::TextFront => "text_insert_front",
            T::TextDel => "text_delete_first",
            T::MapSet => "map_set",
            T::MapRem => "map_remove",
            T::Nop => "empty_transaction",
        }
    }
    fn parse(s: &str) -> Option<T> {
        ALL_T.into_iter().find(|t| t.name() == s)
    }
}

#[derive(Clone, Copy, Debug, PartialEq, Eq)]
pub enum Third {
    None,
    /// `holder` holds `c2` only (a stashed block); `c1` at the other peer or withheld from both
    Stashed { holder: usize, pred_at_other: bool },
    /// `holder` holds `c3` only (a pending delete set)
    PendingDs { holder: usize, pred_at_other: bool },
}

/// The six linearisations of hA, hB, aA, aB with hB < aA and hA < aB (0 = hA, 1 = hB, 2 = aA, 3 = aB).
const ORDERS: [[u8; 4]; 6] = [[0, 1, 2, 3], [0, 1, 3, 2], [0, 3, 1, 2], [1, 0, 2, 3], [1, 0, 3, 2], [1, 2, 0, 3]];
const EVENTS: [&str; 4] = ["hA", "hB", "aA", "aB"];

#[derive(Clone, Debug)]
pub struct Case {
    pub clients: [u64; 2],
    pub pre: [Vec<T>; 2],
    pub third: Third,
    pub order: usize,
    pub via_handle: bool,
    pub custom: Option<u32>,
    pub post: Vec<(usize, T)>,
    pub handle_answers_behind_custom: bool,
}

fn order_name(o: usize) -> String {
    ORDERS[o].iter().map(|e| EVENTS[*e as usize]).collect::<Vec<_>>().join(",")
}

impl Case {
    fn fields(&self, post_done: usize) -> Vec<(&'static str, J)> {
        let txns = |v: &[T]| J::Arr(v.iter().map(|t| J::str(t.name())).collect());
        let third = match self.third {
            Third::None => J::Null,
            Third::Stashed { holder, pred_at_other } | Third::PendingDs { holder, pred_at_other } => J::obj(vec![
                ("holds", J::str(if matches!(self.third, Third::Stashed { .. }) { "stashed_block_c2" } else { "pending_delete_set_c3" })),
                ("holder", J::str(if holder == 0 { "A" } else { "B" })),
                ("predecessor_c1", J::str(if pred_at_other { "at_other_peer" } else { "withheld" })),
            ]),
        };
        vec![
            ("target", J::str("handshake")),
            ("variant", J::str(if self.via_handle { "Protocol::handle" } else { "frame_by_frame" })),
            (
                "op",
                J::obj(vec![
                    ("kind", J::str("handshake")),
                    ("clients", J::Arr(self.clients.iter().map(|c| J::Num(*c as i64)).collect())),
                    ("pre_a", txns(&self.pre[0])),
                    ("pre_b", txns(&self.pre[1])),
                    ("third_client", third),
                    ("order", J::str(&order_name(self.order))),
                    ("via_handle", J::Bool(self.via_handle)),
                    ("custom_tag", self.custom.map(|t| J::Num(t as i64)).unwrap_or(J::Null)),
                    (
                        "post",
                        J::Arr(
                            self.post[..post_done.min(self.post.len())]
                                .iter()
                                .map(|(s, t)| J::obj(vec![("side", J::str(if *s == 0 { "A" } else { "B" })), ("txn", J::str(t.name()))]))
                                .collect(),
                        ),
                    ),
                    ("handle_answers_behind_custom", J::Bool(self.handle_answers_behind_custom)),
                ]),
            ),
        ]
    }

    pub fn from_json(j: &J) -> Result<Case, String> {
        let op = j.get("op").ok_or("op missing")?;
        let cs = op.get("clients").and_then(|c| c.as_arr()).ok_or("op.clients: expected two client ids")?;
        if cs.len() != 2 {
            return Err("op.clients: expected two client ids".into());
        }
        let mut clients = [0u64; 2];
        for (i, c) in cs.iter().enumerate() {
            match c.as_i64() {
                Some(n) if n >= 0 && n as u64 != THIRD && (n as u64) < (1 << 53) => clients[i] = n as u64,
                _ => return Err(format!("op.clients: expected 53-bit client ids other than {}", THIRD)),
            }
        }
        if clients[0] == clients[1] {
            return Err("op.clients: the client ids must differ".into());
        }
        let txns = |name: &str| -> Result<Vec<T>, String> {
            let mut out = Vec::new();
            if let Some(arr) = op.get_non_null(name) {
                for t in arr.as_arr().ok_or_else(|| format!("op.{}: expected an array", name))? {
                    let s = t.as_str().ok_or_else(|| format!("op.{}: expected strings", name))?;
                    out.push(T::parse(s).ok_or_else(|| format!("op.{}: unknown transaction {:?}", name, s))?);
                }
            }
            Ok(out)
        };
        let side = |j: Option<&J>, what: &str| -> Result<usize, String> {
            match j.and_then(|s| s.as_str()) {
                Some("A") => Ok(0),
                Some("B") => Ok(1),
                _ => Err(format!("{}: expected \"A\" | \"B\"", what)),
            }
        };
        let third = match op.get_non_null("third_client") {
            None => Third::None,
            Some(t) => {
                let holder = side(t.get("holder"), "op.third_client.holder")?;
                let pred_at_other = match t.get("predecessor_c1").and_then(|p| p.as_str()) {
                    Some("at_other_peer") => true,
                    Some("withheld") => false,
                    _ => return Err("op.third_client.predecessor_c1: expected at_other_peer | withheld".into()),
                };
                match t.get("holds").and_then(|p| p.as_str()) {
                    Some("stashed_block_c2") => Third::Stashed { holder, pred_at_other },
                    Some("pending_delete_set_c3") => Third::PendingDs { holder, pred_at_other },
                    _ => return Err("op.third_client.holds: expected stashed_block_c2 | pending_delete_set_c3".into()),
                }
            }
        };
        let order = match op.get_non_null("order").map(|o| o.as_str()) {
            None => 0,
            Some(Some(s)) => (0..ORDERS.len()).find(|o| order_name(*o) == s).ok_or("op.order: not one of the six orders of hA,hB,aA,aB")?,
            _ => return Err("op.order: expected a string".into()),
        };
        let flag = |name: &str| -> Result<bool, String> {
            match op.get_non_null(name) {
                None => Ok(false),
                Some(J::Bool(b)) => Ok(*b),
                _ => Err(format!("op.{}: expected true | false", name)),
            }
        };
        let custom = match op.get_non_null("custom_tag").map(|t| t.as_i64()) {
            None => None,
            Some(Some(n)) if (4..=100000).contains(&n) => Some(n as u32),
            _ => return Err("op.custom_tag: expected a tag in 4..=100000".into()),
        };
        let mut post = Vec::new();
        if let Some(arr) = op.get_non_null("post") {
            for (i, p) in arr.as_arr().ok_or("op.post: expected an array")?.iter().enumerate() {
                let s = side(p.get("side"), &format!("op.post[{}].side", i))?;
                let t = p.get("txn").and_then(|t| t.as_str()).and_then(T::parse).ok_or_else(|| format!("op.post[{}].txn: unknown transaction", i))?;
                post.push((s, t));
            }
        }
        Ok(Case {
            clients,
            pre: [txns("pre_a")?, txns("pre_b")?],
            third,
            order,
            via_handle: flag("via_handle")?,
            custom,
            post,
            handle_answers_behind_custom: flag("handle_answers_behind_custom")?,
        })
    }
}

// ---------------------------------------------------------------------------
// peers
// ---------------------------------------------------------------------------

type Log = Arc<Mutex<Vec<Vec<u8>>>>;

fn lock<T>(m: &Mutex<T>) -> std::sync::MutexGuard<'_, T> {
    m.lock().unwrap_or_else(|e| e.into_inner())
}

struct Peer {
    _sub: Subscription,
    aw: Awareness,
    doc: Doc,
    text: TextRef,
    map: MapRef,
    log: Log,
}

fn fail(oracle: &str, why: String, api: &str, expected: J, actual: J) -> Failure {
    Failure {
        why: format!("({}) {}", oracle, why),
        expected,
        actual,
        api: api.to_string(),
    }
}

fn invalid(why: String) -> Failure {
    Failure {
        why: format!("invalid case: {}", why),
        expected: J::Null,
        actual: J::Null,
        api: "(none)".to_string(),
    }
}

fn is_invalid(f: &Failure) -> bool {
    f.why.starts_with("invalid case: ")
}

fn bytes_j(b: &[u8]) -> J {
    J::Arr(b.iter().map(|x| J::Num(*x as i64)).collect())
}

fn new_doc(client: u64) -> Doc {
    at("Doc::with_options");
    Doc::with_options(Options::with_client_id(ClientID::new(client)))
}

fn new_peer(client: u64, label: &str) -> Result<Peer, Failure> {
    let doc = new_doc(client);
    let text = doc.get_or_insert_text(TEXT);
    let map = doc.get_or_insert_map(MAP);
    let log: Log = Arc::new(Mutex::new(Vec::new()));
    let sink = log.clone();
    at("Doc::observe_update_v1");
    let sub = doc
        .observe_update_v1(move |_, e| lock(&sink).push(e.update.clone()))
        .map_err(|_| invalid("the update observer cannot be attached".to_string()))?;
    at("Awareness::new / set_local_state_raw");
    let mut aw = Awareness::new(doc.clone());
    aw.set_local_state_raw(format!("{{\"peer\":\"{}\"}}", label));
    Ok(Peer {
        _sub: sub,
        aw,
        doc,
        text,
        map,
        log,
    })
}

/// (text, map as JSON text)
fn content(doc: &Doc, text: &TextRef, map: &MapRef) -> (String, String) {
    let txn = doc.transact();
    at("Text::get_string");
    let t = text.get_string(&txn);
    at("MapRef::to_json");
    let m = match map.to_json(&txn) {
        Any::Map(m) => {
            let mut v: Vec<String> = m.iter().map(|(k, v)| format!("{}={}", k, v)).collect();
            v.sort();
            v.join(",")
        }
        other => format!("{}", other),
    };
    (t, m)
}

fn content_j(c: &(String, String)) -> J {
    J::obj(vec![("text", J::str(&c.0)), ("map", J::str(&c.1))])
}

fn full_state(doc: &Doc) -> Vec<u8> {
    at("ReadTxn::encode_state_as_update_v1(&empty)");
    doc.transact().encode_state_as_update_v1(&StateVector::default())
}

fn summary(bytes: &[u8]) -> Result<(IdSet, IdSet), Failure> {
    at("Update::decode_v1 (full state)");
    let u = Update::decode_v1(bytes).map_err(|e| invalid(format!("a full state just encoded does not decode: {}", e)))?;
    Ok((u.insertions(true), u.delete_set().clone()))
}

fn apply_plain(doc: &Doc, bytes: &[u8]) -> Result<(), Failure> {
    at("Update::decode_v1 -> TransactionMut::apply_update");
    let u = Update::decode_v1(bytes).map_err(|e| invalid(format!("an update just encoded does not decode: {}", e)))?;
    let mut txn = doc.transact_mut();
    txn.apply_update(u).map_err(|e| invalid(format!("apply_update failed: {}", e)))?;
    Ok(())
}

impl Peer {
    /// One local transaction; the v1 update the observer saw, if any.
    fn run(&self, t: T, counter: &mut usize) -> Option<Vec<u8>> {
        lock(&self.log).clear();
        {
            at("Doc::transact_mut");
            let mut txn = self.doc.transact_mut();
            match t {
                T::TextPush | T::TextFront => {
                    let ch = (LETTERS[*counter % LETTERS.len()] as char).to_string();
                    *counter += 1;
                    if t == T::TextPush {
                        at("Text::push");
                        self.text.push(&mut txn, &ch);
                    } else {
                        at("Text::insert");
                        self.text.insert(&mut txn, 0, &ch);
                    }
                }
                T::TextDel => {
                    at("Text::len / remove_range");
                    if self.text.len(&txn) > 0 {
                        self.text.remove_range(&mut txn, 0, 1);
                    }
                }
                T::MapSet => {
                    *counter += 1;
                    at("Map::insert");
                    self.map.insert(&mut txn, KEY, *counter as f64);
                }
                T::MapRem => {
                    at("Map::remove");
                    let _ = self.map.remove(&mut txn, KEY);
                }
                T::Nop => {}
            }
            at("TransactionMut::commit");
        }
        lock(&self.log).pop()
    }
}

// ---------------------------------------------------------------------------
// messages
// ---------------------------------------------------------------------------

fn encode_msg(m: &Message) -> Vec<u8> {
    at("Message::encode");
    let mut e = EncoderV1::new();
    m.encode(&mut e);
    e.to_vec()
}

/// All frames of a payload, as `MessageReader` yields them.
fn read_frames(payload: &[u8]) -> Vec<Result<Message, String>> {
    at("MessageReader::next");
    let mut dec = DecoderV1::new(Cursor::new(payload));
    let reader = MessageReader::new(&mut dec);
    let mut out = Vec::new();
    for r in reader {
        let stop = r.is_err();
        out.push(r.map_err(|e| format!("{:?}", e)));
        if stop || out.len() > 16 {
            break;
        }
    }
    out
}

/// (H3) for a payload whose frames all decode: they re-encode to the same bytes.
fn check_round_trip(payload: &[u8], what: &str) -> Result<Vec<Message>, Failure> {
    let frames = read_frames(payload);
    let mut msgs = Vec::new();
    for f in frames {
        match f {
            Ok(m) => msgs.push(m),
            Err(e) => {
                return Err(fail(
                    "H3",
                    format!("{}: a frame of an encoded payload does not decode: {}", what, e),
                    "MessageReader::next",
                    J::str("every frame decodes"),
                    J::obj(vec![("payload", bytes_j(payload)), ("error", J::str(&e))]),
                ))
            }
        }
    }
    let mut again = Vec::new();
    for m in msgs.iter() {
        again.extend(encode_msg(m));
    }
    if again != payload {
        return Err(fail(
            "H3",
            format!("{}: the decoded frames re-encode to other bytes", what),
            "MessageReader::next -> Message::encode",
            J::obj(vec![("payload", bytes_j(payload))]),
            J::obj(vec![("re_encoded", bytes_j(&again)), ("frames", J::str(&format!("{:?}", msgs)))]),
        ));
    }
    Ok(msgs)
}

/// (H3) a message built here: encode, decode, equal.
fn encode_checked(m: &Message, what: &str) -> Result<Vec<u8>, Failure> {
    let bytes = encode_msg(m);
    let back = check_round_trip(&bytes, what)?;
    if back.len() != 1 || back[0] != *m {
        return Err(fail(
            "H3",
            format!("{}: a message does not decode to an equal message", what),
            "Message::encode -> MessageReader::next",
            J::str(&format!("{:?}", m)),
            J::obj(vec![("bytes", bytes_j(&bytes)), ("decoded", J::str(&format!("{:?}", back)))]),
        ));
    }
    Ok(bytes)
}

fn perr(e: &PError) -> String {
    format!("{:?}", e)
}

/// A peer handles a payload; returns the encoded replies (one payload each).
/// `skip_custom`: the custom message expected as the first frame (tag, data).
fn deliver(p: &mut Peer, payload: &[u8], via_handle: bool, expect_custom: Option<u8>, what: &str) -> Result<Vec<Vec<u8>>, Failure> {
    let proto = DefaultProtocol;
    let msgs = check_round_trip(payload, what)?;
    let mut replies: Vec<Message> = Vec::new();
    if via_handle && expect_custom.is_none() {
        at("Protocol::handle");
        let r = proto.handle(&mut p.aw, payload).map_err(|e| {
            fail("H1", format!("{}: Protocol::handle fails: {}", what, perr(&e)), "Protocol::handle", J::str("Ok"), J::obj(vec![("payload", bytes_j(payload))]))
        })?;
        replies.extend(r.into_iter());
    } else {
        for (i, m) in msgs.into_iter().enumerate() {
            at("Protocol::handle_message");
            let is_custom = matches!(m, Message::Custom(..));
            match (proto.handle_message(&mut p.aw, m.clone()), is_custom) {
                (Ok(Some(r)), false) => replies.push(r),
                (Ok(None), false) => {}
                (Err(PError::Unsupported(t)), true) if Some(t) == expect_custom && i == 0 => {}
                (other, _) => {
                    return Err(fail(
                        "H3",
                        format!("{}: frame {} ({:?}) is handled with an unexpected result", what, i + 1, m),
                        "Protocol::handle_message",
                        J::str(if is_custom { "Err(Unsupported(tag)) for the custom message" } else { "Ok" }),
                        J::str(&match other {
                            Ok(r) => format!("Ok({:?})", r),
                            Err(e) => format!("Err({})", perr(&e)),
                        }),
                    ))
                }
            }
        }
    }
    let mut out = Vec::new();
    for r in replies.iter() {
        out.push(encode_checked(r, &format!("reply to {}", what))?);
    }
    Ok(out)
}

// ---------------------------------------------------------------------------
// execution
// ---------------------------------------------------------------------------

fn compare(peers: &[Peer; 2], oracle: &str, moment: &str) -> Result<(), Failure> {
    let ca = content(&peers[0].doc, &peers[0].text, &peers[0].map);
    let cb = content(&peers[1].doc, &peers[1].text, &peers[1].map);
    if ca != cb {
        return Err(fail(
            oracle,
            format!("{}: A and B show different content", moment),
            "Text::get_string / MapRef::to_json",
            J::obj(vec![("A", content_j(&ca))]),
            J::obj(vec![("B", content_j(&cb))]),
        ));
    }
    let (sa, sb) = (summary(&full_state(&peers[0].doc))?, summary(&full_state(&peers[1].doc))?);
    if sa != sb {
        return Err(fail(
            oracle,
            format!("{}: the full states of A and B decode to different inserted ids / delete sets (stashed parts included)", moment),
            "ReadTxn::encode_state_as_update_v1(&empty) -> Update::decode_v1",
            J::obj(vec![("A", J::str(&format!("inserted {:?} deleted {:?}", sa.0, sa.1)))]),
            J::obj(vec![("B", J::str(&format!("inserted {:?} deleted {:?}", sb.0, sb.1)))]),
        ));
    }
    Ok(())
}

/// Runs the case; `Err((post transactions done, failure))`.
fn execute(case: &Case) -> Result<(), (usize, Failure)> {
    let mut post_done = 0usize;
    let r = guarded(|| {
        let mut peers = [new_peer(case.clients[0], "A")?, new_peer(case.clients[1], "B")?];
        let mut counter = 0usize;
        for (i, pre) in case.pre.iter().enumerate() {
            for t in pre {
                peers[i].run(*t, &mut counter);
            }
        }
        // the third client
        let mut c1: Option<Vec<u8>> = None;
        if case.third != Third::None {
            let c = new_peer(THIRD, "C")?;
            let mut grab = |f: &dyn Fn(&mut yrs::TransactionMut)| -> Result<Vec<u8>, Failure> {
                lock(&c.log).clear();
                {
                    let mut txn = c.doc.transact_mut();
                    f(&mut txn);
                }
                lock(&c.log).pop().ok_or_else(|| invalid("the third client's transaction emitted no update".to_string()))
            };
            let u1 = grab(&|txn| c.text.push(txn, "x"))?;
            let u2 = grab(&|txn| c.text.push(txn, "y"))?;
            let u3 = grab(&|txn| c.text.remove_range(txn, 0, 1))?;
            let (holder, pred_at_other, held) = match case.third {
                Third::Stashed { holder, pred_at_other } => (holder, pred_at_other, u2),
                Third::PendingDs { holder, pred_at_other } => (holder, pred_at_other, u3),
                Third::None => unreachable!(),
            };
            apply_plain(&peers[holder].doc, &held)?;
            if pred_at_other {
                apply_plain(&peers[1 - holder].doc, &u1)?;
            }
            c1 = Some(u1);
        }
        // connect: both start payloads first
        let proto = DefaultProtocol;
        let mut starts: Vec<Vec<u8>> = Vec::new();
        for (i, p) in peers.iter().enumerate() {
            at("Protocol::start");
            let mut e = EncoderV1::new();
            proto.start(&p.aw, &mut e).map_err(|e| {
                fail("H1", format!("Protocol::start of {} fails: {}", ["A", "B"][i], perr(&e)), "Protocol::start", J::str("Ok"), J::Null)
            })?;
            let bytes = e.to_vec();
            let msgs = check_round_trip(&bytes, "start payload")?;
            let sv = p.doc.transact().state_vector();
            if msgs.len() != 2 || msgs[0] != Message::Sync(SyncMessage::SyncStep1(sv.clone())) || !matches!(msgs[1], Message::Awareness(_)) {
                return Err(fail(
                    "H3",
                    "the start payload is not SyncStep1(own state vector) followed by the awareness state".to_string(),
                    "Protocol::start",
                    J::str(&format!("SyncStep1({:?}), Awareness(..)", sv)),
                    J::str(&format!("{:?}", msgs)),
                ));
            }
            starts.push(bytes);
        }
        // a custom message in front of A's SyncStep1
        let mut expect_custom: Option<u8> = None;
        if let Some(tag) = case.custom {
            if tag <= 255 {
                let m = Message::Custom(tag as u8, CUSTOM_DATA.to_vec());
                let mut bytes = encode_checked(&m, "custom message")?;
                bytes.extend(starts[0].iter());
                // the whole payload through Protocol::handle: the custom tag is reported
                at("Protocol::handle (custom message first)");
                let before = full_state(&peers[1].doc);
                match proto.handle(&mut peers[1].aw, &bytes) {
                    Err(PError::Unsupported(t)) if t == tag as u8 => {
                        if case.handle_answers_behind_custom {
                            return Err(fail(
                                "H3-strict",
                                "Protocol::handle reports the custom tag and stops reading the payload: the SyncStep1 behind it is not answered".to_string(),
                                "Protocol::handle",
                                J::str("the SyncStep2 reply"),
                                J::str(&format!("Err(Unsupported({}))", t)),
                            ));
                        }
                    }
                    other => {
                        return Err(fail(
                            "H3",
                            format!("a payload that starts with a custom message (tag {}): Protocol::handle must report the unknown tag", tag),
                            "Protocol::handle",
                            J::str(&format!("Err(Unsupported({}))", tag)),
                            J::str(&match other {
                                Ok(r) => format!("Ok({:?})", r),
                                Err(e) => format!("Err({})", perr(&e)),
                            }),
                        ))
                    }
                }
                if full_state(&peers[1].doc) != before {
                    return Err(invalid("the refused payload changed the document".to_string()));
                }
                starts[0] = bytes;
                expect_custom = Some(tag as u8);
            } else {
                // a tag beyond u8, written by hand: tag as var-uint, then the buffer
                let mut e = EncoderV1::new();
                e.write_var(tag);
                e.write_buf(&CUSTOM_DATA);
                let mut bytes = e.to_vec();
                bytes.extend(starts[0].iter());
                let frames = read_frames(&bytes);
                if !matches!(frames.first(), Some(Err(_))) {
                    return Err(fail(
                        "H3",
                        format!("a message tag that does not fit the tag type ({}) must be reported by MessageReader", tag),
                        "MessageReader::next",
                        J::str("Some(Err(..))"),
                        J::str(&format!("{:?}", frames)),
                    ));
                }
                at("Protocol::handle (oversized tag)");
                if let Ok(r) = proto.handle(&mut peers[1].aw, &bytes) {
                    return Err(fail(
                        "H3",
                        format!("a message tag that does not fit the tag type ({}) must be reported by Protocol::handle", tag),
                        "Protocol::handle",
                        J::str("Err(..)"),
                        J::str(&format!("Ok({:?})", r)),
                    ));
                }
                // the stream is lost behind such a tag: the plain start payload travels
            }
        }
        let mut replies: [Vec<Vec<u8>>; 2] = [Vec::new(), Vec::new()]; // replies[i]: produced by peer i, for the other one
        for ev in ORDERS[case.order].iter() {
            match ev {
                0 => replies[0] = deliver(&mut peers[0], &starts[1], case.via_handle, None, "A handles B's start payload")?,
                1 => replies[1] = deliver(&mut peers[1], &starts[0], case.via_handle, expect_custom, "B handles A's start payload")?,
                2 | 3 => {
                    let me = (*ev - 2) as usize;
                    let incoming = std::mem::take(&mut replies[1 - me]);
                    if incoming.is_empty() {
                        return Err(fail(
                            "H1",
                            format!("{} sent SyncStep1 and got no SyncStep2 back", ["A", "B"][me]),
                            "Protocol::handle_sync_step1",
                            J::str("a SyncStep2 reply"),
                            J::str("no reply"),
                        ));
                    }
                    for payload in incoming {
                        let msgs = check_round_trip(&payload, "reply")?;
                        if !matches!(msgs.first(), Some(Message::Sync(SyncMessage::SyncStep2(_)))) {
                            return Err(fail("H1", "the reply to SyncStep1 is not SyncStep2".to_string(), "Protocol::handle_sync_step1", J::str("SyncStep2"), J::str(&format!("{:?}", msgs))));
                        }
                        let more = deliver(&mut peers[me], &payload, case.via_handle, None, &format!("{} handles the reply", ["A", "B"][me]))?;
                        if !more.is_empty() {
                            return Err(fail("H1", "handling SyncStep2 produced a reply".to_string(), "Protocol::handle_sync_step2", J::str("no reply"), J::Num(more.len() as i64)));
                        }
                    }
                }
                _ => unreachable!(),
            }
        }
        // (H1)
        compare(&peers, "H1", "after the handshake")?;
        if let Some(c1) = c1.as_ref() {
            let mut shown = Vec::new();
            for p in peers.iter() {
                let fresh = new_doc(99);
                let (t, m) = (fresh.get_or_insert_text(TEXT), fresh.get_or_insert_map(MAP));
                apply_plain(&fresh, &full_state(&p.doc))?;
                apply_plain(&fresh, c1)?;
                shown.push(content(&fresh, &t, &m));
            }
            let want = match case.third {
                Third::Stashed { .. } => shown[0].0.contains('x') && shown[0].0.contains('y'),
                _ => !shown[0].0.contains('x'),
            };
            if shown[0] != shown[1] || !want {
                return Err(fail(
                    "H1",
                    "after the handshake a fresh document that applies a peer's full state and then the third client's first update c1 must show the same for A and B, and what the stashed part says (stashed block: \"x\" and \"y\"; pending delete set: no \"x\"): a stashed part was not handed over or got lost".to_string(),
                    "ReadTxn::encode_state_as_update_v1(&empty) -> TransactionMut::apply_update (fresh document)",
                    J::obj(vec![("from_A", content_j(&shown[0]))]),
                    J::obj(vec![("from_B", content_j(&shown[1]))]),
                ));
            }
        }
        // forwarded updates
        for (side, t) in case.post.iter() {
            post_done += 1;
            let bytes = peers[*side].run(*t, &mut counter).unwrap_or_else(|| {
                // nothing changed, no event: the empty update travels
                at("Update::encode_v1 (empty)");
                Update::new().encode_v1()
            });
            let payload = encode_checked(&Message::Sync(SyncMessage::Update(bytes)), "forwarded update")?;
            let more = deliver(&mut peers[1 - *side], &payload, case.via_handle, None, "forwarded update")?;
            if !more.is_empty() {
                return Err(fail("H2", "handling a forwarded update produced a reply".to_string(), "Protocol::handle_update", J::str("no reply"), J::Num(more.len() as i64)));
            }
            compare(&peers, "H2", &format!("after forwarded update {} ({} by {})", post_done, t.name(), ["A", "B"][*side]))?;
        }
        Ok(())
    });
    r.map_err(|f| (post_done, f))
}

// ---------------------------------------------------------------------------
// enumeration
// ---------------------------------------------------------------------------

#[derive(Clone, Debug)]
struct Skeleton {
    pre: [Vec<T>; 2],
    third: Third,
    custom: Option<u32>,
    post: Vec<(usize, T)>,
}

/// Transaction sequences of exactly `n` steps before the handshake (deletions only of what is there).
fn pre_seqs(n: usize) -> Vec<Vec<T>> {
    fn rec(n: usize, len: usize, key: bool, cur: &mut Vec<T>, out: &mut Vec<Vec<T>>) {
        if n == 0 {
            out.push(cur.clone());
            return;
        }
        for t in [T::TextPush, T::TextFront, T::TextDel, T::MapSet, T::MapRem] {
            let (l2, k2) = match t {
                T::TextPush | T::TextFront => (len + 1, key),
                T::TextDel if len > 0 => (len - 1, key),
                T::MapSet => (len, true),
                T::MapRem if key => (len, false),
                _ => continue,
            };
            // on an empty text push and insert-at-0 are the same
            if t == T::TextFront && len == 0 {
                continue;
            }
            cur.push(t);
            rec(n - 1, l2, k2, cur, out);
            cur.pop();
        }
    }
    let mut out = Vec::new();
    rec(n, 0, false, &mut Vec::new(), &mut out);
    out
}

fn post_seqs(n: usize) -> Vec<Vec<(usize, T)>> {
    fn rec(n: usize, used: [usize; 2], cur: &mut Vec<(usize, T)>, out: &mut Vec<Vec<(usize, T)>>) {
        if n == 0 {
            out.push(cur.clone());
            return;
        }
        for side in 0..2 {
            if used[side] >= 2 {
                continue;
            }
            for t in [T::TextPush, T::TextDel, T::MapSet, T::MapRem, T::Nop] {
                let mut u = used;
                u[side] += 1;
                cur.push((side, t));
                rec(n - 1, u, cur, out);
                cur.pop();
            }
        }
    }
    let mut out = Vec::new();
    rec(n, [0, 0], &mut Vec::new(), &mut out);
    out
}

fn skeletons(weight: usize) -> Vec<Skeleton> {
    let mut thirds = vec![(0usize, Third::None)];
    for holder in 0..2 {
        for pred_at_other in [true, false] {
            thirds.push((1, Third::Stashed { holder, pred_at_other }));
            thirds.push((1, Third::PendingDs { holder, pred_at_other }));
        }
    }
    let mut customs: Vec<(usize, Option<u32>)> = vec![(0, None)];
    customs.extend(TAGS.iter().map(|t| (1, Some(*t))));
    let mut out = Vec::new();
    for (wt, third) in thirds.iter() {
        for (wc, custom) in customs.iter() {
            if wt + wc > weight {
                continue;
            }
            let rest = weight - wt - wc;
            for na in 0..=rest.min(3) {
                for nb in 0..=(rest - na).min(3) {
                    let np = rest - na - nb;
                    if np > 4 {
                        continue;
                    }
                    for pa in pre_seqs(na) {
                        for pb in pre_seqs(nb) {
                            for post in post_seqs(np) {
                                out.push(Skeleton {
                                    pre: [pa.clone(), pb.clone()],
                                    third: *third,
                                    custom: *custom,
                                    post,
                                });
                            }
                        }
                    }
                }
            }
        }
    }
    out
}

pub fn cmd_search(target: &str, universe: u32, jobs: usize, deadline: Option<Instant>) -> i32 {
    let mut h = Hunt {
        jobs: jobs.max(1),
        deadline,
        cases: 0,
    };
    let max_weight = (universe.clamp(2, 9) as usize).saturating_sub(1);
    let strict = std::env::var_os("VX_HS_STRICT").is_some();
    let mut res: Result<(), Stop> = Ok(());
    let mut completed = 0usize;
    for w in 0..=max_weight {
        let sk = skeletons(w);
        let r = h.par(sk.len(), &|tally: &mut Tally, i: usize| {
            let s = &sk[i];
            for clients in [[1u64, 2], [2, 1]] {
                for order in 0..ORDERS.len() {
                    for via_handle in [false, true] {
                        if tally.expired() {
                            return Err(Stop::Timeout);
                        }
                        let case = Case {
                            clients,
                            pre: s.pre.clone(),
                            third: s.third,
                            order,
                            via_handle,
                            custom: s.custom,
                            post: s.post.clone(),
                            handle_answers_behind_custom: strict,
                        };
                        match execute(&case) {
                            Ok(()) => tally.cases += 1,
                            Err((_, f)) if is_invalid(&f) => tally.cases += 1,
                            Err((done, failure)) => {
                                return Err(Stop::Found(Box::new(Found {
                                    fields: case.fields(done),
                                    failure,
                                })))
                            }
                        }
                    }
                }
            }
            Ok(())
        });
        match r {
            Ok(_) => completed = w,
            Err(stop) => {
                res = Err(stop);
                break;
            }
        }
    }
    let extra = vec![("weight_completed", J::Num(completed as i64)), ("weight_deepest", J::Num(max_weight as i64))];
    finish(target, universe, res, &h, extra)
}

/// `replay` of a witness of this module; `Err`: usage error (exit 2).
pub fn cmd_replay(j: &J) -> Result<i32, String> {
    let case = Case::from_json(j)?;
    match execute(&case) {
        Ok(()) => Ok(finish_replay(Ok(J::obj(vec![("all_oracles_hold", J::Bool(true)), ("forwarded_updates", J::Num(case.post.len() as i64))])))),
        Err((_, f)) if is_invalid(&f) => Err(f.why),
        Err((_, f)) => Ok(finish_replay(Err(f))),
    }
}
