//! Targets `mapread`, `map_paths`, `xml_attrs`: every public way of reading a
//! map (or the attributes of an XML node) tells the same story (property C17,
//! map half).
//!
//! One or two replicas (fixed client ids 1 and 2, garbage collection on or
//! off, optionally an `UndoManager` tracking the observed type on replica 1)
//! hold ONE observed type: the root Map `m`, a Map nested in the root map `h`
//! (key `n`), a Map nested in the root array `r` (index 0), the attributes of
//! an XmlElement `<p>` or of an XmlText (first child of the root fragment
//! `x`). Histories are enumerated exhaustively, shortest first: transactions
//! of 1..3 operations (insert / overwrite with a value of every kind, remove,
//! clear, try_update, get_or_init, a write into a nested map, and FOREIGN
//! content: a hand-encoded lib0 v1 update of a third client whose map entry is
//! a ContentBinary / ContentJSON / ContentEmbed / ContentString / multi-element
//! ContentAny block, applied with `Update::decode_v1` + `apply_update`),
//! deliveries between the replicas (`encode_state_as_update_v1` against the
//! receiver's state vector, so concurrent writes to one key meet), undo / redo.
//!
//! After EVERY operation (inside the still open transaction: tombstones are
//! not collected yet) and after EVERY commit / delivery / undo the observed
//! type is read through every public path and the paths must agree PAIRWISE.
//! The oracle holds no model of map semantics at all: it never predicts what
//! the content is, only that `len`, `keys`, `values`, `iter`, `into_iter`,
//! `contains_key`, `get`, `get_as`, `to_json`, `as_prelim`, JSON path queries
//! and the renderings of the containing types describe the same entries.
//!
//! The iteration order of the `HashMap` behind a map is random per instance:
//! a defect that needs a tombstone directly in front of a live entry shows in
//! a fraction of the executions of a small case. Stages with `fan` > 1 apply
//! every operation to a GROUP of keys (`a`, `a1` .. `a7`), which makes such an
//! order all but certain, and `replay` re-executes a case several times on
//! fresh documents (any failing execution is a genuine failure).
//!
//! Uses the search harness of evt.rs (`Hunt`, `guarded`, `finish`, `finish_replay`).

use crate::evt::{at, finish, finish_replay, guarded, Found, Hunt, Stop, Tally};
use crate::json::J;
use crate::model::Failure;
use std::collections::{BTreeMap, BTreeSet};
use std::sync::OnceLock;
use std::time::Instant;
use yrs::branch::Branch;
use yrs::encoding::serde::from_any;
use yrs::types::{AsPrelim, ToJson};
use yrs::undo::UndoManager;
use yrs::updates::decoder::Decode;
use yrs::{
    Any, Array, ArrayPrelim, ArrayRef, BranchID, ClientID, Doc, GetString, In, JsonPath, JsonPathEval, Map, MapPrelim, MapRef,
    Options, Out, ReadTxn, StateVector, TextPrelim, TextRef, Transact, TransactionMut, Update, Xml, XmlElementPrelim,
    XmlElementRef, XmlFragment, XmlOut, XmlTextPrelim, XmlTextRef,
};

pub const TARGETS: &str = "mapread | map_paths | xml_attrs";

pub fn is_target(target: &str) -> bool {
    matches!(target, "mapread" | "map_paths" | "xml_attrs")
}

/// Is this witness line one of ours?
pub fn owns(j: &J) -> bool {
    j.get("target").and_then(|t| t.as_str()).map(is_target).unwrap_or(false)
}

const ROOT_MAP: &str = "m";
const HOST_MAP: &str = "h";
const NESTED_KEY: &str = "n";
const HOST_ARRAY: &str = "r";
const XML_ROOT: &str = "x";
/// A key no script ever writes: what `get_as` returns for it is what it must return for a removed key.
const NEVER: &str = "zz";
/// Keys of the nested maps the scripts create (`MapPrelim {v: n}`, `nested_set` writes `w`).
const INNER_KEYS: [&str; 2] = ["v", "w"];
const KEY_NAMES: [&str; 6] = ["a", "b", "c", "d", "e", "f"];
/// Client ids of the foreign writer: above / below both replicas (wins / loses a concurrent write).
const FOREIGN_HIGH: u64 = 9;
const FOREIGN_LOW: u64 = 0;
/// Executions of one case by `replay` (fresh documents, fresh hash orders).
const REPLAY_RUNS: usize = 12;

// ---------------------------------------------------------------------------
// cases
// ---------------------------------------------------------------------------

#[derive(Clone, Copy, Debug, PartialEq, Eq)]
pub enum HostKind {
    Root,
    InMap,
    InArray,
    XmlElem,
    XmlText,
}

impl HostKind {
    fn name(self) -> &'static str {
        match self {
            HostKind::Root => "root_map",
            HostKind::InMap => "map_in_map",
            HostKind::InArray => "map_in_array",
            HostKind::XmlElem => "xml_element_attributes",
            HostKind::XmlText => "xml_text_attributes",
        }
    }
    fn parse(s: &str) -> Option<HostKind> {
        [HostKind::Root, HostKind::InMap, HostKind::InArray, HostKind::XmlElem, HostKind::XmlText]
            .into_iter()
            .find(|h| h.name() == s)
    }
    fn is_xml(self) -> bool {
        matches!(self, HostKind::XmlElem | HostKind::XmlText)
    }
    fn describe(self) -> &'static str {
        match self {
            HostKind::Root => "root Map \"m\"",
            HostKind::InMap => "Map stored under key \"n\" of the root Map \"h\" (created by replica 1)",
            HostKind::InArray => "Map stored at index 0 of the root Array \"r\" (created by replica 1)",
            HostKind::XmlElem => "attributes of the XmlElement <p>, first child of the root fragment \"x\" (created by replica 1)",
            HostKind::XmlText => "attributes of the XmlText that is the first child of the root fragment \"x\" (created by replica 1)",
        }
    }
}

/// Kinds of values an operation writes; `n` is the running number of the write (every value is recognisable).
#[derive(Clone, Copy, Debug, PartialEq, Eq)]
pub enum Val {
    Num,
    MapPrelim,
    Null,
    Bool,
    BigInt,
    Str,
    Buffer,
    AnyArray,
    AnyMap,
    Undefined,
    ArrayPrelim,
    TextPrelim,
    SubDoc,
    XmlElem,
    XmlText,
    MapInMap,
}

const ALL_VALS: [Val; 16] = [
    Val::Num,
    Val::MapPrelim,
    Val::Null,
    Val::Bool,
    Val::BigInt,
    Val::Str,
    Val::Buffer,
    Val::AnyArray,
    Val::AnyMap,
    Val::Undefined,
    Val::ArrayPrelim,
    Val::TextPrelim,
    Val::SubDoc,
    Val::XmlElem,
    Val::XmlText,
    Val::MapInMap,
];

impl Val {
    fn name(self) -> &'static str {
        match self {
            Val::Num => "number",
            Val::MapPrelim => "map_prelim",
            Val::Null => "null",
            Val::Bool => "bool",
            Val::BigInt => "bigint",
            Val::Str => "string",
            Val::Buffer => "buffer",
            Val::AnyArray => "any_array",
            Val::AnyMap => "any_map",
            Val::Undefined => "undefined",
            Val::ArrayPrelim => "array_prelim",
            Val::TextPrelim => "text_prelim",
            Val::SubDoc => "sub_document",
            Val::XmlElem => "xml_element_prelim",
            Val::XmlText => "xml_text_prelim",
            Val::MapInMap => "map_prelim_in_map_prelim",
        }
    }
    fn parse(s: &str) -> Option<Val> {
        ALL_VALS.into_iter().find(|v| v.name() == s)
    }
    /// 0 = core, 1 = medium, 2 = wide (how deep histories with it are enumerated).
    fn class(self) -> u8 {
        match self {
            Val::Num => 0,
            Val::MapPrelim => 1,
            _ => 2,
        }
    }
}

/// Content kinds only other Yjs implementations (or legacy documents) put into a map entry.
#[derive(Clone, Copy, Debug, PartialEq, Eq)]
pub enum Foreign {
    /// ContentBinary (`ymap.set(k, new Uint8Array(..))`)
    Binary,
    /// ContentJSON with one element (legacy)
    Json,
    /// ContentJSON with two elements (only the last one is the value)
    Json2,
    /// ContentEmbed
    Embed,
    /// ContentString of one UTF-16 unit
    Str,
    /// ContentAny with two elements (only the last one is the value)
    AnyMulti,
    /// ContentString of two UTF-16 units. NOT enumerated (`replay` accepts it): on the tree of
    /// 2026-09-26 `Map::values` splits the string into one value per character while `get` /
    /// `iter` / `to_json` return the whole string, and for a character outside the BMP
    /// `Values::next` panics ("Defect: iterator didn't read all elements"). No implementation
    /// writes ContentString as a map entry (Yjs stores `ymap.set(k, "xy")` as ContentAny): a
    /// hand-crafted state, recorded in DESIGN.md as an observation outside the property.
    StrMulti,
}

const FOREIGN_ENUM: [Foreign; 6] = [Foreign::Binary, Foreign::Json, Foreign::Json2, Foreign::Embed, Foreign::Str, Foreign::AnyMulti];

impl Foreign {
    fn name(self) -> &'static str {
        match self {
            Foreign::Binary => "content_binary",
            Foreign::Json => "content_json",
            Foreign::Json2 => "content_json_2_elements",
            Foreign::Embed => "content_embed",
            Foreign::Str => "content_string",
            Foreign::AnyMulti => "content_any_2_elements",
            Foreign::StrMulti => "content_string_2_units",
        }
    }
    fn parse(s: &str) -> Option<Foreign> {
        FOREIGN_ENUM.into_iter().chain([Foreign::StrMulti]).find(|f| f.name() == s)
    }
    fn is_json(self) -> bool {
        matches!(self, Foreign::Json | Foreign::Json2)
    }
}

#[derive(Clone, Copy, Debug, PartialEq, Eq)]
pub enum Init {
    Map,
    Array,
    Text,
}

impl Init {
    fn name(self) -> &'static str {
        match self {
            Init::Map => "map",
            Init::Array => "array",
            Init::Text => "text",
        }
    }
}

#[derive(Clone, Debug, PartialEq)]
pub enum MOp {
    /// `Map::insert(key, value)` / `Xml::insert_attribute(key, value)` (also an overwrite)
    Insert { key: u8, value: Val },
    /// `Map::remove(key)` / `Xml::remove_attribute(key)`
    Remove { key: u8 },
    /// `Map::clear()`
    Clear,
    /// `Map::try_update(key, 0)`: writes when the current value differs, otherwise does nothing
    TryUpdate { key: u8 },
    /// `Map::get_or_init::<MapRef | ArrayRef | TextRef>(key)`
    GetOrInit { key: u8, kind: Init },
    /// `get(key)` is a nested Map: `insert("w", n)` into it
    NestedSet { key: u8 },
    /// A hand-encoded update of a foreign client: one map entry under `key` with a content kind the
    /// local API never writes; no origin (a concurrent write of a peer that has not seen the key).
    /// `wins`: client id 9 (the entry becomes the current one), otherwise client id 0 (it loses
    /// against an existing entry and arrives as a tombstone in front of it).
    Foreign { key: u8, content: Foreign, wins: bool },
}

impl MOp {
    /// (medium, wide) weight of the operation.
    fn class(&self) -> u8 {
        let key_class = |k: &u8| if *k >= 2 { 1 } else { 0 };
        match self {
            MOp::Insert { key, value } => value.class().max(key_class(key)),
            MOp::Remove { key } => key_class(key),
            MOp::Clear => 0,
            MOp::TryUpdate { .. } => 1,
            MOp::GetOrInit { kind: Init::Map, .. } => 1,
            MOp::GetOrInit { .. } => 2,
            MOp::NestedSet { .. } => 2,
            MOp::Foreign { .. } => 2,
        }
    }

    fn key(&self) -> Option<u8> {
        match self {
            MOp::Insert { key, .. }
            | MOp::Remove { key }
            | MOp::TryUpdate { key }
            | MOp::GetOrInit { key, .. }
            | MOp::NestedSet { key }
            | MOp::Foreign { key, .. } => Some(*key),
            MOp::Clear => None,
        }
    }

    fn json(&self) -> J {
        let k = |key: &u8| J::str(KEY_NAMES[*key as usize]);
        match self {
            MOp::Insert { key, value } => J::obj(vec![("op", J::str("insert")), ("key", k(key)), ("value", J::str(value.name()))]),
            MOp::Remove { key } => J::obj(vec![("op", J::str("remove")), ("key", k(key))]),
            MOp::Clear => J::obj(vec![("op", J::str("clear"))]),
            MOp::TryUpdate { key } => J::obj(vec![("op", J::str("try_update")), ("key", k(key)), ("value", J::Num(0))]),
            MOp::GetOrInit { key, kind } => J::obj(vec![("op", J::str("get_or_init")), ("key", k(key)), ("as", J::str(kind.name()))]),
            MOp::NestedSet { key } => J::obj(vec![("op", J::str("nested_set")), ("key", k(key)), ("inner_key", J::str("w"))]),
            MOp::Foreign { key, content, wins } => J::obj(vec![
                ("op", J::str("foreign")),
                ("key", k(key)),
                ("content", J::str(content.name())),
                ("foreign_client", J::Num(if *wins { FOREIGN_HIGH } else { FOREIGN_LOW } as i64)),
            ]),
        }
    }

    fn from_json(j: &J, what: &str) -> Result<MOp, String> {
        let key = || -> Result<u8, String> {
            let name = j.get("key").and_then(|k| k.as_str()).ok_or_else(|| format!("{}.key missing", what))?;
            KEY_NAMES
                .iter()
                .position(|n| *n == name)
                .map(|p| p as u8)
                .ok_or_else(|| format!("{}.key: expected one of {:?}", what, KEY_NAMES))
        };
        match j.get("op").and_then(|o| o.as_str()) {
            Some("insert") => {
                let v = j.get("value").and_then(|v| v.as_str()).ok_or_else(|| format!("{}.value missing", what))?;
                let value = Val::parse(v).ok_or_else(|| format!("{}.value: unknown kind {:?}", what, v))?;
                Ok(MOp::Insert { key: key()?, value })
            }
            Some("remove") => Ok(MOp::Remove { key: key()? }),
            Some("clear") => Ok(MOp::Clear),
            Some("try_update") => Ok(MOp::TryUpdate { key: key()? }),
            Some("get_or_init") => {
                let kind = match j.get("as").and_then(|v| v.as_str()) {
                    Some("map") | None => Init::Map,
                    Some("array") => Init::Array,
                    Some("text") => Init::Text,
                    _ => return Err(format!("{}.as: expected map | array | text", what)),
                };
                Ok(MOp::GetOrInit { key: key()?, kind })
            }
            Some("nested_set") => Ok(MOp::NestedSet { key: key()? }),
            Some("foreign") => {
                let c = j.get("content").and_then(|v| v.as_str()).ok_or_else(|| format!("{}.content missing", what))?;
                let content = Foreign::parse(c).ok_or_else(|| format!("{}.content: unknown kind {:?}", what, c))?;
                let wins = match j.get("foreign_client").and_then(|v| v.as_i64()) {
                    Some(n) if n as u64 == FOREIGN_HIGH => true,
                    Some(n) if n as u64 == FOREIGN_LOW => false,
                    None => true,
                    _ => return Err(format!("{}.foreign_client: expected {} or {}", what, FOREIGN_HIGH, FOREIGN_LOW)),
                };
                Ok(MOp::Foreign { key: key()?, content, wins })
            }
            _ => Err(format!(
                "{}.op: expected insert | remove | clear | try_update | get_or_init | nested_set | foreign",
                what
            )),
        }
    }
}

#[derive(Clone, Debug, PartialEq)]
pub enum MStep {
    /// One transaction of replica `replica` (0 or 1).
    Txn { replica: usize, ops: Vec<MOp> },
    /// Replica `to` applies, in ONE transaction, everything replica `from` has and `to` lacks.
    Deliver { to: usize, from: usize },
    /// `UndoManager::undo_blocking` / `redo_blocking` on replica 1.
    Undo,
    Redo,
}

impl MStep {
    fn json(&self) -> J {
        match self {
            MStep::Txn { replica, ops } => J::obj(vec![
                ("step", J::str("transaction")),
                ("replica", J::Num(*replica as i64 + 1)),
                ("ops", J::Arr(ops.iter().map(|o| o.json()).collect())),
            ]),
            MStep::Deliver { to, from } => J::obj(vec![
                ("step", J::str("deliver")),
                ("to_replica", J::Num(*to as i64 + 1)),
                ("from_replica", J::Num(*from as i64 + 1)),
            ]),
            MStep::Undo => J::obj(vec![("step", J::str("undo"))]),
            MStep::Redo => J::obj(vec![("step", J::str("redo"))]),
        }
    }

    /// Operations, deliveries and undo / redo calls count alike.
    fn atoms(&self) -> usize {
        match self {
            MStep::Txn { ops, .. } => ops.len(),
            _ => 1,
        }
    }
}

#[derive(Clone, Debug)]
pub struct MCase {
    pub target: String,
    pub variant: String,
    pub host: HostKind,
    pub replicas: usize,
    pub gc: bool,
    pub undo: bool,
    /// Concrete keys per key name: `a` stands for `a`, `a1` .. `a{fan-1}`.
    pub fan: usize,
    pub steps: Vec<MStep>,
}

fn replica_index(j: Option<&J>, replicas: usize, what: &str) -> Result<usize, String> {
    match j.and_then(|v| v.as_i64()) {
        Some(n) if n >= 1 && (n as usize) <= replicas => Ok(n as usize - 1),
        _ => Err(format!("{}: expected a replica in 1..={}", what, replicas)),
    }
}

impl MCase {
    fn fields(&self, steps: &[MStep]) -> Vec<(&'static str, J)> {
        vec![
            ("target", J::str(&self.target)),
            ("variant", J::str(&self.variant)),
            (
                "op",
                J::obj(vec![
                    ("kind", J::str("mapread")),
                    ("host", J::str(self.host.name())),
                    ("observed", J::str(self.host.describe())),
                    ("replicas", J::Num(self.replicas as i64)),
                    ("gc", J::Bool(self.gc)),
                    ("undo_manager", J::Bool(self.undo)),
                    ("fan", J::Num(self.fan as i64)),
                    ("steps", J::Arr(steps.iter().map(|s| s.json()).collect())),
                ]),
            ),
        ]
    }

    pub fn from_json(j: &J) -> Result<MCase, String> {
        let target = j.get("target").and_then(|t| t.as_str()).unwrap_or("mapread").to_string();
        let variant = j.get("variant").and_then(|t| t.as_str()).unwrap_or("replay").to_string();
        let op = j.get("op").ok_or("op missing")?;
        let host = match op.get_non_null("host").map(|h| h.as_str()) {
            None => HostKind::Root,
            Some(Some(s)) => HostKind::parse(s).ok_or_else(|| format!("op.host: unknown host {:?}", s))?,
            _ => return Err("op.host: expected a string".into()),
        };
        let replicas = match op.get_non_null("replicas").map(|r| r.as_i64()) {
            None => 1,
            Some(Some(n)) if n == 1 || n == 2 => n as usize,
            _ => return Err("op.replicas: expected 1 or 2".into()),
        };
        let flag = |name: &str, default: bool| -> Result<bool, String> {
            match op.get_non_null(name) {
                None => Ok(default),
                Some(J::Bool(b)) => Ok(*b),
                _ => Err(format!("op.{}: expected true | false", name)),
            }
        };
        let gc = flag("gc", true)?;
        let undo = flag("undo_manager", false)?;
        let fan = match op.get_non_null("fan").map(|r| r.as_i64()) {
            None => 1,
            Some(Some(n)) if (1..=16).contains(&n) => n as usize,
            _ => return Err("op.fan: expected 1..=16".into()),
        };
        let arr = op.get("steps").and_then(|s| s.as_arr()).ok_or("op.steps: expected an array")?;
        let mut steps = Vec::new();
        for (i, st) in arr.iter().enumerate() {
            let what = format!("op.steps[{}]", i);
            match st.get("step").and_then(|s| s.as_str()) {
                Some("transaction") => {
                    let replica = replica_index(st.get("replica"), replicas, &format!("{}.replica", what))?;
                    let ops_j = st.get("ops").and_then(|o| o.as_arr()).ok_or_else(|| format!("{}.ops missing", what))?;
                    let mut ops = Vec::new();
                    for (k, o) in ops_j.iter().enumerate() {
                        let op = MOp::from_json(o, &format!("{}.ops[{}]", what, k))?;
                        if host.is_xml() && matches!(op, MOp::Clear | MOp::TryUpdate { .. } | MOp::GetOrInit { .. }) {
                            return Err(format!("{}.ops[{}]: the XML attribute API has no such operation", what, k));
                        }
                        ops.push(op);
                    }
                    if ops.is_empty() {
                        return Err(format!("{}.ops: empty", what));
                    }
                    steps.push(MStep::Txn { replica, ops });
                }
                Some("deliver") => {
                    let to = replica_index(st.get("to_replica"), replicas, &format!("{}.to_replica", what))?;
                    let from = replica_index(st.get("from_replica"), replicas, &format!("{}.from_replica", what))?;
                    if to == from {
                        return Err(format!("{}: to_replica and from_replica must differ", what));
                    }
                    steps.push(MStep::Deliver { to, from });
                }
                Some("undo") | Some("redo") => {
                    if !undo {
                        return Err(format!("{}: undo / redo need \"undo_manager\":true", what));
                    }
                    steps.push(if st.get("step").and_then(|s| s.as_str()) == Some("undo") { MStep::Undo } else { MStep::Redo });
                }
                _ => return Err(format!("{}.step: expected transaction | deliver | undo | redo", what)),
            }
        }
        Ok(MCase {
            target,
            variant,
            host,
            replicas,
            gc,
            undo,
            fan,
            steps,
        })
    }

    /// The concrete keys a key name stands for.
    fn concrete(&self, key: u8) -> Vec<String> {
        concrete_keys(key, self.fan)
    }
}

fn concrete_keys(key: u8, fan: usize) -> Vec<String> {
    let name = KEY_NAMES[key as usize];
    (0..fan.max(1)).map(|i| if i == 0 { name.to_string() } else { format!("{}{}", name, i) }).collect()
}

// ---------------------------------------------------------------------------
// rendering
// ---------------------------------------------------------------------------

fn any_j(a: &Any) -> J {
    match a {
        Any::Null => J::Null,
        Any::Undefined => J::obj(vec![("undefined", J::Bool(true))]),
        Any::Bool(b) => J::Bool(*b),
        Any::Number(f) => {
            if f.fract() == 0.0 && f.abs() < 1e15 {
                J::Num(*f as i64)
            } else {
                J::obj(vec![("number", J::str(&format!("{:?}", f)))])
            }
        }
        Any::BigInt(n) => J::obj(vec![("bigint", J::Num(*n))]),
        Any::String(s) => J::str(s),
        Any::Buffer(b) => J::obj(vec![("buffer", J::Arr(b.iter().map(|x| J::Num(*x as i64)).collect()))]),
        Any::Array(items) => J::Arr(items.iter().map(any_j).collect()),
        Any::Map(m) => {
            let sorted: BTreeMap<&String, &Any> = m.iter().collect();
            J::Obj(sorted.into_iter().map(|(k, v)| (k.clone(), any_j(v))).collect())
        }
    }
}

fn branch_name(b: &Branch) -> String {
    match b.id() {
        BranchID::Nested(id) => format!("{}#{}", id.client, id.clock),
        BranchID::Root(name) => format!("root {:?}", name),
    }
}

fn shared(kind: &str, b: &Branch) -> J {
    J::obj(vec![(kind, J::str(&branch_name(b)))])
}

fn out_j(o: &Out) -> J {
    match o {
        Out::Any(a) => any_j(a),
        Out::YText(v) => shared("YText", v.as_ref()),
        Out::YArray(v) => shared("YArray", v.as_ref()),
        Out::YMap(v) => shared("YMap", v.as_ref()),
        Out::YXmlElement(v) => shared("YXmlElement", v.as_ref()),
        Out::YXmlFragment(v) => shared("YXmlFragment", v.as_ref()),
        Out::YXmlText(v) => shared("YXmlText", v.as_ref()),
        Out::YDoc(d) => J::obj(vec![("YDoc", J::str(&d.guid()))]),
        Out::UndefinedRef(_) => J::obj(vec![("UndefinedRef", J::Bool(true))]),
        // `Out::YWeakLink` exists only with the feature "weak" of yrs (no script writes one)
        #[allow(unreachable_patterns)]
        _ => J::obj(vec![("YWeakLink", J::Bool(true))]),
    }
}

fn opt_out_j(o: &Option<Out>) -> J {
    match o {
        Some(o) => J::obj(vec![("some", out_j(o))]),
        None => J::str("None"),
    }
}

fn pairs_j(pairs: &[(String, Out)]) -> J {
    J::Arr(pairs.iter().map(|(k, v)| J::Arr(vec![J::str(k), out_j(v)])).collect())
}

fn strs_j<'a>(items: impl IntoIterator<Item = &'a String>) -> J {
    J::Arr(items.into_iter().map(|s| J::str(s)).collect())
}

// ---------------------------------------------------------------------------
// foreign content: lib0 v1 bytes written by hand
// ---------------------------------------------------------------------------

fn var_uint(mut v: u64, out: &mut Vec<u8>) {
    loop {
        let b = (v & 0x7f) as u8;
        v >>= 7;
        if v == 0 {
            out.push(b);
            return;
        }
        out.push(b | 0x80);
    }
}

/// lib0 signed variable-length integer: 6 bits + sign in the first byte, 7 bits in the others.
fn var_int(n: i64, out: &mut Vec<u8>) {
    let mut v = n.unsigned_abs();
    let mut b = (v & 0x3f) as u8 | if n < 0 { 0x40 } else { 0 };
    v >>= 6;
    if v > 0 {
        b |= 0x80;
    }
    out.push(b);
    while v > 0 {
        let mut b = (v & 0x7f) as u8;
        v >>= 7;
        if v > 0 {
            b |= 0x80;
        }
        out.push(b);
    }
}

fn var_str(s: &str, out: &mut Vec<u8>) {
    var_uint(s.len() as u64, out);
    out.extend_from_slice(s.as_bytes());
}

#[derive(Clone, Debug)]
enum Parent {
    Root(&'static str),
    Id(u64, u32),
}

const HAS_PARENT_SUB: u8 = 0x20;
const REF_JSON: u8 = 2;
const REF_BINARY: u8 = 3;
const REF_STRING: u8 = 4;
const REF_EMBED: u8 = 5;
const REF_ANY: u8 = 8;

/// How the ContentJSON element count is written. Yjs writes the number of strings; the decoder of
/// the tree of 2026-09-26 reads one string MORE than announced (`while remaining >= 0`, known,
/// DESIGN.md: a decoding matter, not a read-path matter), so on such a tree the count is written
/// one lower: the tool probes which form decodes to the intended strings.
#[derive(Clone, Copy, Debug, PartialEq, Eq)]
enum JsonForm {
    Yjs,
    OneLess,
}

/// One client section with one block: a map entry `key` of `parent` without origins, then an empty delete set.
fn foreign_update(client: u64, clock: u32, parent: &Parent, key: &str, content: Foreign, n: i64, json: JsonForm) -> Vec<u8> {
    let mut o = Vec::new();
    var_uint(1, &mut o);
    var_uint(1, &mut o);
    var_uint(client, &mut o);
    var_uint(clock as u64, &mut o);
    let json_strings = |strings: &[String], o: &mut Vec<u8>| {
        let count = strings.len() as u64 - if json == JsonForm::OneLess { 1 } else { 0 };
        var_uint(count, o);
        for s in strings {
            var_str(s, o);
        }
    };
    let refn = match content {
        Foreign::Binary => REF_BINARY,
        Foreign::Json | Foreign::Json2 => REF_JSON,
        Foreign::Embed => REF_EMBED,
        Foreign::Str | Foreign::StrMulti => REF_STRING,
        Foreign::AnyMulti => REF_ANY,
    };
    o.push(HAS_PARENT_SUB | refn);
    match parent {
        Parent::Root(name) => {
            var_uint(1, &mut o);
            var_str(name, &mut o);
        }
        Parent::Id(c, k) => {
            var_uint(0, &mut o);
            var_uint(*c, &mut o);
            var_uint(*k as u64, &mut o);
        }
    }
    var_str(key, &mut o);
    match content {
        Foreign::Binary => {
            var_uint(2, &mut o);
            o.push((n & 0xff) as u8);
            o.push(0xfe);
        }
        Foreign::Json => json_strings(&[format!("{}", n)], &mut o),
        Foreign::Json2 => json_strings(&["0".to_string(), format!("{{\"j\":{}}}", n)], &mut o),
        Foreign::Embed => var_str(&format!("{{\"e\":{}}}", n), &mut o),
        Foreign::Str => var_str(&((b'A' + (n.rem_euclid(26)) as u8) as char).to_string(), &mut o),
        Foreign::StrMulti => var_str(&format!("{}y", (b'A' + (n.rem_euclid(26)) as u8) as char), &mut o),
        Foreign::AnyMulti => {
            var_uint(2, &mut o);
            o.push(126); // null
            o.push(125); // integer
            var_int(n, &mut o);
        }
    }
    var_uint(0, &mut o);
    o
}

/// What this tree makes of ContentJSON: (the count form that decodes to the intended strings, or
/// None if neither does; whether a document holding such an entry can be relayed, i.e. whether
/// its own `encode_state_as_update_v1` decodes again and shows the entry).
fn json_support() -> (Option<JsonForm>, bool) {
    static PROBE: OnceLock<(Option<JsonForm>, bool)> = OnceLock::new();
    *PROBE.get_or_init(|| {
        let attempt = |form: JsonForm| -> Option<bool> {
            std::panic::catch_unwind(|| {
                let want = Some(Out::Any(Any::from("{\"j\":5}")));
                let doc = Doc::with_options(Options::with_client_id(ClientID::new(1)));
                let m = doc.get_or_insert_map(ROOT_MAP);
                let bytes = foreign_update(FOREIGN_HIGH, 0, &Parent::Root(ROOT_MAP), "a", Foreign::Json2, 5, form);
                let u = Update::decode_v1(&bytes).ok()?;
                doc.transact_mut().apply_update(u).ok()?;
                {
                    let txn = doc.transact();
                    if m.get(&txn, "a") != want || txn.state_vector().get(&ClientID::new(FOREIGN_HIGH)) != 2 {
                        return None;
                    }
                }
                // relay
                let relayed = doc.transact().encode_state_as_update_v1(&StateVector::default());
                let relay_ok = (|| {
                    let u = Update::decode_v1(&relayed).ok()?;
                    let d2 = Doc::with_options(Options::with_client_id(ClientID::new(2)));
                    let m2 = d2.get_or_insert_map(ROOT_MAP);
                    d2.transact_mut().apply_update(u).ok()?;
                    let txn = d2.transact();
                    if m2.get(&txn, "a") == want {
                        Some(())
                    } else {
                        None
                    }
                })()
                .is_some();
                Some(relay_ok)
            })
            .ok()
            .flatten()
        };
        if let Some(relay) = attempt(JsonForm::Yjs) {
            (Some(JsonForm::Yjs), relay)
        } else if let Some(relay) = attempt(JsonForm::OneLess) {
            (Some(JsonForm::OneLess), relay)
        } else {
            (None, false)
        }
    })
}

// ---------------------------------------------------------------------------
// the oracle: pairwise agreement of the read paths (no model of the content)
// ---------------------------------------------------------------------------

/// Where a check happens.
struct Ctx<'a> {
    step: usize,
    replica: usize,
    moment: String,
    /// Keys that are probed through the point reads whether or not any path lists them.
    alphabet: &'a [String],
}

fn disagree(ctx: &Ctx, what: &str, a: (&str, J), b: (&str, J), all: &J) -> Failure {
    Failure {
        why: format!("{} and {} disagree ({}; {})", a.0, b.0, what, ctx.moment),
        expected: J::obj(vec![
            ("step", J::Num(ctx.step as i64 + 1)),
            ("replica", J::Num(ctx.replica as i64 + 1)),
            ("moment", J::str(&ctx.moment)),
            ("read", J::str(what)),
            (a.0, a.1),
        ]),
        actual: J::obj(vec![(b.0, b.1), ("all_read_paths", all.clone())]),
        api: format!("{} vs {}", a.0, b.0),
    }
}

/// Removes from `pool` one element equal to each element of `wanted`; `Err(i)`: `wanted[i]` has no partner.
fn match_multiset(wanted: &[&Out], pool: &mut Vec<&Out>) -> Result<(), usize> {
    for (i, w) in wanted.iter().enumerate() {
        match pool.iter().position(|p| p == w) {
            Some(p) => {
                pool.swap_remove(p);
            }
            None => return Err(i),
        }
    }
    Ok(())
}

fn duplicate<'a>(keys: impl IntoIterator<Item = &'a String>) -> Option<String> {
    let mut seen = BTreeSet::new();
    for k in keys {
        if !seen.insert(k) {
            return Some(k.clone());
        }
    }
    None
}

fn short(s: String) -> String {
    if s.chars().count() > 400 {
        let cut: String = s.chars().take(400).collect();
        format!("{}...", cut)
    } else {
        s
    }
}

/// No map with more than one member anywhere in the value: its rendering as a string is unique.
fn order_free(a: &Any) -> bool {
    match a {
        Any::Map(m) => m.len() <= 1 && m.values().all(order_free),
        Any::Array(items) => items.iter().all(order_free),
        _ => true,
    }
}

fn path_key_ok(k: &str) -> bool {
    let mut cs = k.chars();
    matches!(cs.next(), Some(c) if c.is_ascii_alphabetic()) && cs.all(|c| c.is_ascii_alphanumeric())
}

/// Reads `map` through every public path and requires pairwise agreement.
/// `path`: the JSON path of the map from the document root, if there is one.
fn check_map<T: ReadTxn>(map: &MapRef, txn: &T, what: &str, path: Option<&str>, ctx: &Ctx, depth: u32) -> Result<(), Failure> {
    at("Map::len");
    let len = map.len(txn) as usize;
    at("Map::keys");
    let keys: Vec<String> = map.keys(txn).map(|k| k.to_string()).collect();
    at("Map::values");
    let values: Vec<Vec<Out>> = map.values(txn).collect();
    at("Map::iter");
    let iter: Vec<(String, Out)> = map.iter(txn).map(|(k, v)| (k.to_string(), v)).collect();
    at("Map::into_iter");
    let into_iter: Vec<(String, Out)> = Map::into_iter(map.clone(), txn).map(|(k, v)| (k.to_string(), v)).collect();
    at("MapRef::to_json");
    let json = map.to_json(txn);
    let json_map: BTreeMap<String, Any> = match &json {
        Any::Map(m) => m.iter().map(|(k, v)| (k.clone(), v.clone())).collect(),
        _ => BTreeMap::new(),
    };

    // every key any path knows of, plus the alphabet of the scripts
    let mut probe: BTreeSet<String> = ctx.alphabet.iter().cloned().collect();
    probe.extend(keys.iter().cloned());
    probe.extend(iter.iter().map(|(k, _)| k.clone()));
    probe.extend(into_iter.iter().map(|(k, _)| k.clone()));
    probe.extend(json_map.keys().cloned());
    probe.remove(NEVER);
    at("Map::contains_key");
    let contains: BTreeMap<String, bool> = probe.iter().map(|k| (k.clone(), map.contains_key(txn, k))).collect();
    at("Map::get");
    let gets: BTreeMap<String, Option<Out>> = probe.iter().map(|k| (k.clone(), map.get(txn, k))).collect();

    let all = J::obj(vec![
        ("Map::len", J::Num(len as i64)),
        ("Map::keys", strs_j(keys.iter())),
        ("Map::values", J::Arr(values.iter().map(|vs| J::Arr(vs.iter().map(out_j).collect())).collect())),
        ("Map::iter", pairs_j(&iter)),
        ("Map::into_iter", pairs_j(&into_iter)),
        ("MapRef::to_json", any_j(&json)),
        (
            "Map::contains_key",
            J::Obj(contains.iter().filter(|(_, v)| **v).map(|(k, v)| (k.clone(), J::Bool(*v))).collect()),
        ),
        (
            "Map::get",
            J::Obj(gets.iter().filter(|(_, v)| v.is_some()).map(|(k, v)| (k.clone(), opt_out_j(v))).collect()),
        ),
    ]);
    let bad = |a: (&str, J), b: (&str, J)| -> Failure { disagree(ctx, what, a, b, &all) };

    if !matches!(json, Any::Map(_)) {
        return Err(bad(("Map::len", J::Num(len as i64)), ("MapRef::to_json (not an object)", any_j(&json))));
    }
    // counts
    let counts: [(&str, usize); 5] = [
        ("Map::keys (count)", keys.len()),
        ("Map::values (count)", values.len()),
        ("Map::iter (count)", iter.len()),
        ("Map::into_iter (count)", into_iter.len()),
        ("MapRef::to_json (number of members)", json_map.len()),
    ];
    for (name, n) in counts {
        if n != len {
            return Err(bad(("Map::len", J::Num(len as i64)), (name, J::Num(n as i64))));
        }
    }
    // no key twice
    let iter_keys: Vec<String> = iter.iter().map(|(k, _)| k.clone()).collect();
    let into_keys: Vec<String> = into_iter.iter().map(|(k, _)| k.clone()).collect();
    for (name, list) in [("Map::keys", &keys), ("Map::iter", &iter_keys), ("Map::into_iter", &into_keys)] {
        if let Some(k) = duplicate(list.iter()) {
            return Err(bad(("Map::len", J::Num(len as i64)), (name, J::str(&format!("yields key {:?} twice", k)))));
        }
    }
    // key sets
    let key_set: BTreeSet<&String> = keys.iter().collect();
    let sets: [(&str, BTreeSet<&String>); 3] = [
        ("Map::iter (keys)", iter_keys.iter().collect()),
        ("Map::into_iter (keys)", into_keys.iter().collect()),
        ("MapRef::to_json (keys)", json_map.keys().collect()),
    ];
    for (name, set) in sets.iter() {
        if *set != key_set {
            return Err(bad(("Map::keys", strs_j(key_set.iter().copied())), (name, strs_j(set.iter().copied()))));
        }
    }
    // point reads
    for k in probe.iter() {
        let listed = key_set.contains(k);
        if contains[k] != listed {
            return Err(bad(
                ("Map::keys", J::str(&format!("{} key {:?}", if listed { "lists" } else { "does not list" }, k))),
                (&format!("Map::contains_key({:?})", k), J::Bool(contains[k])),
            ));
        }
        if gets[k].is_some() != contains[k] {
            return Err(bad(
                (&format!("Map::contains_key({:?})", k), J::Bool(contains[k])),
                (&format!("Map::get({:?})", k), opt_out_j(&gets[k])),
            ));
        }
    }
    // values paired with keys
    for (name, pairs) in [("Map::iter", &iter), ("Map::into_iter", &into_iter)] {
        for (k, v) in pairs.iter() {
            if gets[k].as_ref() != Some(v) {
                return Err(bad(
                    (&format!("Map::get({:?})", k), opt_out_j(&gets[k])),
                    (&format!("{} (value paired with {:?})", name, k), out_j(v)),
                ));
            }
        }
    }
    for k in keys.iter() {
        if let Some(v) = &gets[k] {
            at("Out::to_json");
            let want = v.to_json(txn);
            if json_map.get(k) != Some(&want) {
                return Err(bad(
                    (&format!("Map::get({:?}).to_json()", k), any_j(&want)),
                    (&format!("MapRef::to_json()[{:?}]", k), json_map.get(k).map(any_j).unwrap_or(J::str("(absent)"))),
                ));
            }
        }
    }
    // values(): one list per entry, its last element is the entry's value
    {
        if let Some(i) = values.iter().position(|vs| vs.is_empty()) {
            return Err(bad(
                ("Map::len", J::Num(len as i64)),
                ("Map::values", J::str(&format!("list {} is empty", i))),
            ));
        }
        let mut lasts: Vec<&Out> = values.iter().filter_map(|vs| vs.last()).collect();
        let wanted: Vec<&Out> = keys.iter().filter_map(|k| gets[k].as_ref()).collect();
        match match_multiset(&wanted, &mut lasts) {
            Err(i) => {
                return Err(bad(
                    ("Map::get (a value of a listed key)", out_j(wanted[i])),
                    ("Map::values (last elements)", J::str("no list ends with that value")),
                ))
            }
            Ok(()) if !lasts.is_empty() => {
                return Err(bad(
                    ("Map::get (over all listed keys)", J::str("yields no such value")),
                    ("Map::values (last element of a list)", out_j(lasts[0])),
                ))
            }
            Ok(()) => {}
        }
    }
    // get_as == get + deserialization; for a key that is not there: what it returns for a key never written
    macro_rules! check_get_as {
        ($ty:ty, $name:expr) => {{
            let api = concat!("Map::get_as::<", $name, ">");
            at(api);
            let base = map.get_as::<T, $ty>(txn, NEVER);
            for (k, got) in gets.iter() {
                let actual = map.get_as::<T, $ty>(txn, k);
                let (expected, from) = match got {
                    Some(out) => (
                        from_any::<$ty>(&out.to_json(txn)),
                        format!("Map::get({:?}) deserialized (from_any::<{}>)", k, $name),
                    ),
                    None => (
                        map.get_as::<T, $ty>(txn, NEVER),
                        format!("{}({:?}) of a key never written (Map::get({:?}) is None)", api, NEVER, k),
                    ),
                };
                // values are compared as values (an `Any::Map` prints in hash order), errors by their text
                let same = match (&actual, &expected) {
                    (Ok(a), Ok(e)) => a == e,
                    (Err(a), Err(e)) => format!("{:?}", a) == format!("{:?}", e),
                    _ => false,
                };
                if !same {
                    return Err(bad(
                        (&from, J::str(&short(format!("{:?}", expected)))),
                        (&format!("{}({:?})", api, k), J::str(&short(format!("{:?}", actual)))),
                    ));
                }
            }
            let _ = base;
        }};
    }
    check_get_as!(Any, "Any");
    check_get_as!(f64, "f64");
    check_get_as!(i64, "i64");
    check_get_as!(String, "String");
    check_get_as!(Vec<u8>, "Vec<u8>");
    check_get_as!(bool, "bool");
    check_get_as!(Option<String>, "Option<String>");
    // as_prelim (the deep copy) has the same entries
    {
        at("MapRef::as_prelim");
        let prelim: MapPrelim = map.as_prelim(txn);
        let pkeys: Vec<String> = prelim.keys().map(|k| k.to_string()).collect();
        let pset: BTreeSet<&String> = pkeys.iter().collect();
        if pset != key_set {
            return Err(bad(("Map::keys", strs_j(key_set.iter().copied())), ("MapRef::as_prelim (keys)", strs_j(pset.iter().copied()))));
        }
        for k in keys.iter() {
            if let Some(v) = &gets[k] {
                at("Out::as_prelim");
                let want: In = v.as_prelim(txn);
                if prelim.get(k.as_str()) != Some(&want) {
                    return Err(bad(
                        (&format!("Map::get({:?}).as_prelim()", k), J::str(&short(format!("{:?}", want)))),
                        (&format!("MapRef::as_prelim()[{:?}]", k), J::str(&short(format!("{:?}", prelim.get(k.as_str()))))),
                    ));
                }
            }
        }
    }
    // JSON path queries
    if let Some(p) = path {
        let q = format!("{}.*", p);
        if let Ok(parsed) = JsonPath::parse(&q) {
            let api = format!("JsonPathEval::json_path({:?})", q);
            at(&api);
            let got: Vec<Out> = txn.json_path(&parsed).collect();
            let mut pool: Vec<&Out> = got.iter().collect();
            let wanted: Vec<&Out> = keys.iter().filter_map(|k| gets[k].as_ref()).collect();
            let rendered = J::Arr(got.iter().map(out_j).collect());
            if got.len() != len {
                return Err(bad(("Map::len", J::Num(len as i64)), (&format!("{} (count)", api), rendered)));
            }
            if let Err(i) = match_multiset(&wanted, &mut pool) {
                return Err(bad(("Map::get (a value of a listed key)", out_j(wanted[i])), (&api, rendered)));
            }
        }
        for k in probe.iter().filter(|k| path_key_ok(k)) {
            let q = format!("{}.{}", p, k);
            if let Ok(parsed) = JsonPath::parse(&q) {
                let api = format!("JsonPathEval::json_path({:?})", q);
                at(&api);
                let got: Vec<Out> = txn.json_path(&parsed).collect();
                let want: Vec<Out> = gets[k].iter().cloned().collect();
                if got != want {
                    return Err(bad(
                        (&format!("Map::get({:?})", k), opt_out_j(&gets[k])),
                        (&api, J::Arr(got.iter().map(out_j).collect())),
                    ));
                }
            }
        }
    }
    // nested maps tell one story as well
    if depth > 0 {
        for (k, v) in iter.iter() {
            if let Out::YMap(inner) = v {
                let sub = path.filter(|_| path_key_ok(k)).map(|p| format!("{}.{}", p, k));
                check_map(inner, txn, &format!("{} -> Map under key {:?}", what, k), sub.as_deref(), ctx, depth - 1)?;
            }
        }
    }
    Ok(())
}

/// The attributes of an XML node: `attributes`, `get_attribute`, and for an element `get_string`
/// and `as_prelim`.
fn check_attrs<X: Xml, T: ReadTxn>(
    node: &X,
    element: Option<&XmlElementRef>,
    txn: &T,
    what: &str,
    ctx: &Ctx,
) -> Result<(), Failure> {
    at("Xml::attributes");
    let attrs: Vec<(String, Out)> = node.attributes(txn).map(|(k, v)| (k.to_string(), v)).collect();
    let mut probe: BTreeSet<String> = ctx.alphabet.iter().cloned().collect();
    probe.extend(attrs.iter().map(|(k, _)| k.clone()));
    at("Xml::get_attribute");
    let gets: BTreeMap<String, Option<Out>> = probe.iter().map(|k| (k.clone(), node.get_attribute(txn, k))).collect();
    let text = element.map(|e| {
        at("XmlElementRef::get_string");
        e.get_string(txn)
    });
    let all = J::obj(vec![
        ("Xml::attributes", pairs_j(&attrs)),
        (
            "Xml::get_attribute",
            J::Obj(gets.iter().filter(|(_, v)| v.is_some()).map(|(k, v)| (k.clone(), opt_out_j(v))).collect()),
        ),
        ("XmlElementRef::get_string", text.as_ref().map(|s| J::str(s)).unwrap_or(J::Null)),
    ]);
    let bad = |a: (&str, J), b: (&str, J)| -> Failure { disagree(ctx, what, a, b, &all) };
    let names: Vec<String> = attrs.iter().map(|(k, _)| k.clone()).collect();
    if let Some(k) = duplicate(names.iter()) {
        return Err(bad(
            (&format!("Xml::get_attribute({:?})", k), opt_out_j(&gets[&k])),
            ("Xml::attributes", J::str(&format!("yields attribute {:?} twice", k))),
        ));
    }
    let listed: BTreeMap<&String, &Out> = attrs.iter().map(|(k, v)| (k, v)).collect();
    for k in probe.iter() {
        if gets[k].as_ref() != listed.get(k).copied() {
            return Err(bad(
                (&format!("Xml::get_attribute({:?})", k), opt_out_j(&gets[k])),
                (
                    &format!("Xml::attributes (value paired with {:?})", k),
                    listed.get(k).map(|v| out_j(v)).unwrap_or(J::str("(not listed)")),
                ),
            ));
        }
    }
    if let (Some(e), Some(s)) = (element, text.as_ref()) {
        // `<tag k="v" ..>children</tag>`: the attribute chunks in any order (the host has no children)
        let tag = e.tag().to_string();
        let (prefix, suffix) = (format!("<{}", tag), format!("></{}>", tag));
        let shape_ok = s.len() >= prefix.len() + suffix.len() && s.starts_with(&prefix) && s.ends_with(&suffix);
        let mut chunks: Vec<(String, String)> = attrs.iter().map(|(k, v)| (k.clone(), format!(" {}=\"{}\"", k, v))).collect();
        let mut leftover: Option<String> = if shape_ok { None } else { Some(s.clone()) };
        if shape_ok {
            let mut rest = &s[prefix.len()..s.len() - suffix.len()];
            while !rest.is_empty() {
                match chunks.iter().position(|(_, c)| rest.starts_with(c.as_str())) {
                    Some(i) => {
                        let (_, c) = chunks.swap_remove(i);
                        rest = &rest[c.len()..];
                    }
                    None => {
                        leftover = Some(rest.to_string());
                        break;
                    }
                }
            }
        }
        if let Some(rest) = leftover {
            return Err(bad(
                ("Xml::attributes", pairs_j(&attrs)),
                (
                    "XmlElementRef::get_string",
                    J::str(&format!("{:?}: {:?} is none of the attributes `attributes` yields", s, rest)),
                ),
            ));
        }
        if let Some((k, _)) = chunks.first() {
            return Err(bad(
                ("Xml::attributes", J::str(&format!("yields attribute {:?}", k))),
                ("XmlElementRef::get_string", J::str(&format!("{:?} does not show it", s))),
            ));
        }
        at("XmlElementRef::as_prelim");
        let prelim: XmlElementPrelim = e.as_prelim(txn);
        let pkeys: Vec<String> = prelim.attributes.keys().map(|k| k.to_string()).collect();
        let pset: BTreeSet<&String> = pkeys.iter().collect();
        let nset: BTreeSet<&String> = names.iter().collect();
        if pset != nset {
            return Err(bad(
                ("Xml::attributes (names)", strs_j(nset.iter().copied())),
                ("XmlElementRef::as_prelim (attribute names)", strs_j(pset.iter().copied())),
            ));
        }
        for (k, v) in attrs.iter() {
            // the string form of a map with several members comes out in the hash order of a map
            // built for the occasion: two renderings of one value may differ, nothing to compare
            at("Out::to_json");
            if !order_free(&v.to_json(txn)) {
                continue;
            }
            at("Out::to_string");
            let want = v.clone().to_string(txn);
            if prelim.attributes.get(k.as_str()) != Some(&want) {
                return Err(bad(
                    (&format!("Xml::attributes (value paired with {:?}, as a string)", k), J::str(&want)),
                    (
                        &format!("XmlElementRef::as_prelim().attributes[{:?}]", k),
                        J::str(&format!("{:?}", prelim.attributes.get(k.as_str()))),
                    ),
                ));
            }
        }
    }
    for (k, v) in attrs.iter() {
        if let Out::YMap(inner) = v {
            check_map(inner, txn, &format!("{} -> Map under attribute {:?}", what, k), None, ctx, 1)?;
        }
    }
    Ok(())
}

// ---------------------------------------------------------------------------
// replicas
// ---------------------------------------------------------------------------

enum HostRef {
    Map(MapRef),
    Elem(XmlElementRef),
    Text(XmlTextRef),
}

struct Rep {
    /// Declared first: dropped before the document it observes.
    undo: Option<UndoManager<()>>,
    host: HostRef,
    outer_map: Option<MapRef>,
    outer_array: Option<ArrayRef>,
    doc: Doc,
}

fn new_doc(client: u64, gc: bool) -> Doc {
    at("Doc::with_options");
    let mut o = Options::with_client_id(ClientID::new(client));
    o.skip_gc = !gc;
    Doc::with_options(o)
}

fn sub_doc(n: i64) -> Doc {
    let mut o = Options::with_client_id(ClientID::new(1000 + n as u64));
    o.guid = format!("sub-{}", n).into();
    Doc::with_options(o)
}

/// A script that cannot be executed (replay of a hand-written case), or a step of the harness
/// itself that did not work: never a verdict about the read paths.
fn invalid(why: String) -> Failure {
    Failure {
        why: format!("invalid case: {}", why),
        expected: J::Null,
        actual: J::Null,
        api: "(none)".to_string(),
    }
}

fn is_invalid(f: &Failure) -> bool {
    f.why.starts_with("invalid case: ")
}

const API_SYNC: &str = "ReadTxn::encode_state_as_update_v1 -> Update::decode_v1 -> TransactionMut::apply_update";

/// `to` applies what `from` has and `to` lacks. A failure here is a matter of the codecs /
/// integration (other properties), not of the read paths: the case is dropped as invalid.
fn transfer(from: &Doc, to: &Doc) -> Result<(), Failure> {
    at(API_SYNC);
    let sv = to.transact().state_vector();
    let bytes = from.transact().encode_state_as_update_v1(&sv);
    let update = Update::decode_v1(&bytes).map_err(|e| invalid(format!("an update just encoded does not decode: {}", e)))?;
    let mut txn = to.transact_mut();
    txn.apply_update(update)
        .map_err(|e| invalid(format!("apply_update of a peer's state failed: {}", e)))?;
    drop(txn);
    Ok(())
}

fn setup(case: &MCase) -> Result<Vec<Rep>, Failure> {
    let docs: Vec<Doc> = (0..case.replicas).map(|i| new_doc(i as u64 + 1, case.gc)).collect();
    let mut reps: Vec<Rep> = Vec::new();
    let missing = |what: &str| invalid(format!("set-up: {} is not readable on a replica", what));
    match case.host {
        HostKind::Root => {
            for doc in docs {
                at("Doc::get_or_insert_map");
                let m = doc.get_or_insert_map(ROOT_MAP);
                reps.push(Rep {
                    undo: None,
                    host: HostRef::Map(m),
                    outer_map: None,
                    outer_array: None,
                    doc,
                });
            }
        }
        HostKind::InMap => {
            let outers: Vec<MapRef> = docs.iter().map(|d| d.get_or_insert_map(HOST_MAP)).collect();
            {
                at("Map::insert (set-up)");
                let mut txn = docs[0].transact_mut();
                outers[0].insert(&mut txn, NESTED_KEY, MapPrelim::default());
            }
            for i in 1..docs.len() {
                transfer(&docs[0], &docs[i])?;
            }
            for (doc, outer) in docs.into_iter().zip(outers.into_iter()) {
                let host = match outer.get(&doc.transact(), NESTED_KEY) {
                    Some(Out::YMap(m)) => m,
                    _ => return Err(missing("the nested map")),
                };
                reps.push(Rep {
                    undo: None,
                    host: HostRef::Map(host),
                    outer_map: Some(outer),
                    outer_array: None,
                    doc,
                });
            }
        }
        HostKind::InArray => {
            let outers: Vec<ArrayRef> = docs.iter().map(|d| d.get_or_insert_array(HOST_ARRAY)).collect();
            {
                at("Array::push_back (set-up)");
                let mut txn = docs[0].transact_mut();
                outers[0].push_back(&mut txn, MapPrelim::default());
            }
            for i in 1..docs.len() {
                transfer(&docs[0], &docs[i])?;
            }
            for (doc, outer) in docs.into_iter().zip(outers.into_iter()) {
                let host = match outer.get(&doc.transact(), 0) {
                    Some(Out::YMap(m)) => m,
                    _ => return Err(missing("the nested map")),
                };
                reps.push(Rep {
                    undo: None,
                    host: HostRef::Map(host),
                    outer_map: None,
                    outer_array: Some(outer),
                    doc,
                });
            }
        }
        HostKind::XmlElem | HostKind::XmlText => {
            let frags: Vec<_> = docs.iter().map(|d| d.get_or_insert_xml_fragment(XML_ROOT)).collect();
            {
                at("XmlFragment::insert (set-up)");
                let mut txn = docs[0].transact_mut();
                if case.host == HostKind::XmlElem {
                    frags[0].insert(&mut txn, 0, XmlElementPrelim::empty("p"));
                } else {
                    frags[0].insert(&mut txn, 0, XmlTextPrelim::new("t"));
                }
            }
            for i in 1..docs.len() {
                transfer(&docs[0], &docs[i])?;
            }
            for (doc, frag) in docs.into_iter().zip(frags.into_iter()) {
                let host = match frag.get(&doc.transact(), 0) {
                    Some(XmlOut::Element(e)) if case.host == HostKind::XmlElem => HostRef::Elem(e),
                    Some(XmlOut::Text(t)) if case.host == HostKind::XmlText => HostRef::Text(t),
                    _ => return Err(missing("the XML node")),
                };
                reps.push(Rep {
                    undo: None,
                    host,
                    outer_map: None,
                    outer_array: None,
                    doc,
                });
            }
        }
    }
    if case.undo {
        at("UndoManager::with_options / expand_scope");
        // capture timeout 0: every tracked transaction is a stack item of its own (no wall clock in the result)
        let options = yrs::undo::Options {
            capture_timeout_millis: 0,
            ..Default::default()
        };
        let mut mgr: UndoManager<()> = UndoManager::with_options(options);
        let rep = &mut reps[0];
        match &rep.host {
            HostRef::Map(m) => mgr.expand_scope(&rep.doc, m),
            HostRef::Elem(e) => mgr.expand_scope(&rep.doc, e),
            HostRef::Text(t) => mgr.expand_scope(&rep.doc, t),
        }
        rep.undo = Some(mgr);
    }
    Ok(reps)
}

fn host_branch(host: &HostRef) -> &Branch {
    match host {
        HostRef::Map(m) => m.as_ref(),
        HostRef::Elem(e) => e.as_ref(),
        HostRef::Text(t) => t.as_ref(),
    }
}

fn host_get<T: ReadTxn>(host: &HostRef, txn: &T, key: &str) -> Option<Out> {
    match host {
        HostRef::Map(m) => m.get(txn, key),
        HostRef::Elem(e) => e.get_attribute(txn, key),
        HostRef::Text(t) => t.get_attribute(txn, key),
    }
}

fn put_value(host: &HostRef, txn: &mut TransactionMut, key: &str, val: Val, n: i64) {
    macro_rules! put {
        ($v:expr) => {
            match host {
                HostRef::Map(m) => {
                    at("Map::insert");
                    let _ = m.insert(txn, key, $v);
                }
                HostRef::Elem(e) => {
                    at("Xml::insert_attribute");
                    let _ = e.insert_attribute(txn, key, $v);
                }
                HostRef::Text(t) => {
                    at("Xml::insert_attribute");
                    let _ = t.insert_attribute(txn, key, $v);
                }
            }
        };
    }
    let f = n as f64;
    let num = |x: f64| In::Any(Any::Number(x));
    match val {
        Val::Num => put!(f),
        Val::MapPrelim => put!(MapPrelim::from([("v", num(f))])),
        Val::Null => put!(Any::Null),
        Val::Bool => put!(n % 2 == 0),
        Val::BigInt => put!(Any::BigInt(n)),
        Val::Str => put!(format!("s{}", n)),
        Val::Buffer => put!(Any::Buffer(vec![(n & 0xff) as u8, 0xff].into())),
        Val::AnyArray => put!(Any::Array(vec![Any::Number(f), Any::from("x")].into())),
        Val::AnyMap => put!(Any::Map(std::sync::Arc::new(std::collections::HashMap::from([(
            "v".to_string(),
            Any::Number(f)
        )])))),
        Val::Undefined => put!(Any::Undefined),
        Val::ArrayPrelim => put!(ArrayPrelim::from([num(f), num(f + 0.5)])),
        Val::TextPrelim => put!(TextPrelim::new(format!("t{}", n))),
        Val::SubDoc => put!(sub_doc(n)),
        Val::XmlElem => put!(XmlElementPrelim::empty("q")),
        Val::XmlText => put!(XmlTextPrelim::new(format!("x{}", n))),
        Val::MapInMap => put!(MapPrelim::from([("v", In::Map(MapPrelim::from([("v", num(f))])))])),
    }
}

/// Counters of one execution that are not verdicts.
#[derive(Clone, Copy, Debug, Default)]
struct Stats {
    /// Foreign entries applied / of those, left pending by `apply_update` (never expected).
    foreign: u32,
    foreign_pending: u32,
}

fn apply_op(case: &MCase, rep: &Rep, txn: &mut TransactionMut, op: &MOp, n: &mut i64, stats: &mut Stats) -> Result<(), Failure> {
    let map_only = |name: &str| -> Result<&MapRef, Failure> {
        match &rep.host {
            HostRef::Map(m) => Ok(m),
            _ => Err(invalid(format!("{} on XML attributes", name))),
        }
    };
    match op {
        MOp::Insert { key, value } => {
            for k in case.concrete(*key) {
                *n += 1;
                put_value(&rep.host, txn, &k, *value, *n);
            }
        }
        MOp::Remove { key } => {
            for k in case.concrete(*key) {
                match &rep.host {
                    HostRef::Map(m) => {
                        at("Map::remove");
                        let _ = m.remove(txn, &k);
                    }
                    HostRef::Elem(e) => {
                        at("Xml::remove_attribute");
                        e.remove_attribute(txn, &k);
                    }
                    HostRef::Text(t) => {
                        at("Xml::remove_attribute");
                        t.remove_attribute(txn, &k);
                    }
                }
            }
        }
        MOp::Clear => {
            let m = map_only("clear")?;
            at("Map::clear");
            m.clear(txn);
        }
        MOp::TryUpdate { key } => {
            let m = map_only("try_update")?;
            for k in case.concrete(*key) {
                at("Map::try_update");
                let _ = m.try_update(txn, k.as_str(), 0.0f64);
            }
        }
        MOp::GetOrInit { key, kind } => {
            let m = map_only("get_or_init")?;
            for k in case.concrete(*key) {
                match kind {
                    Init::Map => {
                        at("Map::get_or_init::<MapRef>");
                        let _: MapRef = m.get_or_init(txn, k.as_str());
                    }
                    Init::Array => {
                        at("Map::get_or_init::<ArrayRef>");
                        let _: ArrayRef = m.get_or_init(txn, k.as_str());
                    }
                    Init::Text => {
                        at("Map::get_or_init::<TextRef>");
                        let _: TextRef = m.get_or_init(txn, k.as_str());
                    }
                }
            }
        }
        MOp::NestedSet { key } => {
            let mut written = 0;
            for k in case.concrete(*key) {
                if let Some(Out::YMap(inner)) = host_get(&rep.host, txn, &k) {
                    *n += 1;
                    at("Map::insert (nested map)");
                    inner.insert(txn, INNER_KEYS[1], *n as f64);
                    written += 1;
                }
            }
            if written == 0 {
                return Err(invalid(format!("nested_set: key {:?} holds no nested map", KEY_NAMES[*key as usize])));
            }
        }
        MOp::Foreign { key, content, wins } => {
            let (form, _) = json_support();
            let form = match (content.is_json(), form) {
                (true, None) => return Err(invalid("this tree decodes neither form of ContentJSON".to_string())),
                (_, f) => f.unwrap_or(JsonForm::Yjs),
            };
            let parent = match case.host {
                HostKind::Root => Parent::Root(ROOT_MAP),
                _ => match host_branch(&rep.host).id() {
                    BranchID::Nested(id) => Parent::Id(id.client.get(), id.clock),
                    BranchID::Root(_) => return Err(invalid("the nested host has no item id".to_string())),
                },
            };
            let client = if *wins { FOREIGN_HIGH } else { FOREIGN_LOW };
            for k in case.concrete(*key) {
                *n += 1;
                at("ReadTxn::state_vector");
                let clock = txn.state_vector().get(&ClientID::new(client));
                let bytes = foreign_update(client, clock, &parent, &k, *content, *n, form);
                at("Update::decode_v1 (hand-written update)");
                let update = Update::decode_v1(&bytes).map_err(|e| invalid(format!("the hand-written update does not decode: {}", e)))?;
                at("TransactionMut::apply_update (hand-written update)");
                txn.apply_update(update)
                    .map_err(|e| invalid(format!("apply_update of the hand-written update failed: {}", e)))?;
                stats.foreign += 1;
                if txn.store().pending_update().is_some() {
                    stats.foreign_pending += 1;
                }
            }
        }
    }
    Ok(())
}

/// Reads the observed type (and its containers) through every path.
fn check_host<T: ReadTxn>(case: &MCase, rep: &Rep, txn: &T, ctx: &Ctx) -> Result<(), Failure> {
    let what = case.host.describe();
    match &rep.host {
        HostRef::Map(m) => {
            let path = match case.host {
                HostKind::Root => format!("$.{}", ROOT_MAP),
                HostKind::InMap => format!("$.{}.{}", HOST_MAP, NESTED_KEY),
                _ => format!("$.{}[0]", HOST_ARRAY),
            };
            check_map(m, txn, what, Some(&path), ctx, 2)?;
            at("MapRef::to_json");
            let own = m.to_json(txn);
            let mismatch = |name: &str, seen: J| -> Failure {
                disagree(ctx, what, ("MapRef::to_json", any_j(&own)), (name, seen), &J::Null)
            };
            match case.host {
                HostKind::Root => {
                    at("Doc::to_json");
                    let whole = rep.doc.to_json(txn);
                    let member = match &whole {
                        Any::Map(all) => all.get(ROOT_MAP).cloned(),
                        _ => None,
                    };
                    if member.as_ref() != Some(&own) {
                        return Err(mismatch("Doc::to_json()[\"m\"]", member.as_ref().map(any_j).unwrap_or(J::str("(absent)"))));
                    }
                }
                HostKind::InMap => {
                    if let Some(outer) = &rep.outer_map {
                        let outer_path = format!("$.{}", HOST_MAP);
                        check_map(outer, txn, "root Map \"h\" that holds the observed map", Some(&outer_path), ctx, 0)?;
                    }
                }
                _ => {
                    if let Some(outer) = &rep.outer_array {
                        at("Array::get");
                        let first = outer.get(txn, 0);
                        if first != Some(Out::YMap(m.clone())) {
                            return Err(mismatch("Array::get(0) of the root Array \"r\"", opt_out_j(&first)));
                        }
                        at("ArrayRef::to_json");
                        let arr = outer.to_json(txn);
                        let member = match &arr {
                            Any::Array(items) if items.len() == 1 => Some(items[0].clone()),
                            _ => None,
                        };
                        if member.as_ref() != Some(&own) {
                            return Err(mismatch("ArrayRef::to_json() of the root Array \"r\"", any_j(&arr)));
                        }
                    }
                }
            }
            Ok(())
        }
        HostRef::Elem(e) => check_attrs(e, Some(e), txn, what, ctx),
        HostRef::Text(t) => check_attrs(t, None, txn, what, ctx),
    }
}

// ---------------------------------------------------------------------------
// execution
// ---------------------------------------------------------------------------

/// What a passing run tells about the final state (needed to extend the history).
#[derive(Clone, Debug, Default)]
pub struct MInfo {
    /// Bit k of entry r: on replica r key name k (its first concrete key) is present.
    live: [u8; 2],
    /// Likewise: the value is a nested Map.
    maps: [u8; 2],
    can_undo: bool,
    can_redo: bool,
    /// The last operation / delivery / undo changed nothing: the history is a duplicate of a shorter one.
    noop: bool,
    stats: Stats,
}

/// What tells whether a step had an effect: every effective operation creates a block (the state
/// vector grows) or deletes one (the delete set grows). (The encoded state would do as well, but a
/// sub-document writes its options in the hash order of a map built for the occasion.)
fn encoded<T: ReadTxn>(txn: &T) -> yrs::Snapshot {
    at("ReadTxn::snapshot");
    txn.snapshot()
}

/// The keys probed through the point reads: every concrete key of the first three key names and of
/// the names the case uses, the keys of the nested maps, the key of the set-up.
fn alphabet_of(case: &MCase) -> Vec<String> {
    let mut names: BTreeSet<u8> = [0u8, 1, 2].into_iter().collect();
    for s in case.steps.iter() {
        if let MStep::Txn { ops, .. } = s {
            names.extend(ops.iter().filter_map(|o| o.key()));
        }
    }
    let mut out: Vec<String> = names.into_iter().flat_map(|k| case.concrete(k)).collect();
    out.extend(INNER_KEYS.iter().map(|k| k.to_string()));
    out.push(NESTED_KEY.to_string());
    out
}

/// Runs the steps. `check_all`: read after every operation and every step (replay); otherwise
/// only after the last operation (inside its transaction) and after the last step, the earlier
/// moments having been checked when the prefixes ran. On a disagreement returns the steps cut
/// after the failing operation.
fn execute(case: &MCase, check_all: bool) -> Result<MInfo, (Vec<MStep>, Failure)> {
    let mut done: Vec<MStep> = Vec::new();
    let alphabet = alphabet_of(case);
    let r = guarded(|| {
        let mut reps = setup(case)?;
        let mut n = 0i64;
        let mut stats = Stats::default();
        let mut noop = false;
        let (_, relay_ok) = json_support();
        // replicas that hold a ContentJSON entry
        let mut holds_json = [false; 2];
        let ctx_at = |step: usize, replica: usize, moment: String| Ctx {
            step,
            replica,
            moment,
            alphabet: &alphabet,
        };
        if check_all || case.steps.is_empty() {
            for (ri, rep) in reps.iter().enumerate() {
                let txn = rep.doc.transact();
                check_host(case, rep, &txn, &ctx_at(0, ri, "before the first step".to_string()))?;
            }
        }
        let count = case.steps.len();
        for (si, step) in case.steps.iter().enumerate() {
            let is_last = si + 1 == count;
            match step {
                MStep::Txn { replica, ops } => {
                    let rep = &reps[*replica];
                    done.push(MStep::Txn {
                        replica: *replica,
                        ops: Vec::new(),
                    });
                    {
                        at("Doc::transact_mut");
                        let mut txn = rep.doc.transact_mut();
                        for (oi, op) in ops.iter().enumerate() {
                            let last_op = is_last && oi + 1 == ops.len();
                            let before = if last_op { Some(encoded(&txn)) } else { None };
                            if let Some(MStep::Txn { ops: d, .. }) = done.last_mut() {
                                d.push(op.clone());
                            }
                            apply_op(case, rep, &mut txn, op, &mut n, &mut stats)?;
                            if let MOp::Foreign { content, .. } = op {
                                holds_json[*replica] |= content.is_json();
                            }
                            if let Some(b) = before {
                                noop = encoded(&txn) == b;
                            }
                            if check_all || last_op {
                                let moment = format!("inside the open transaction, after operation {} of the step", oi + 1);
                                check_host(case, rep, &txn, &ctx_at(si, *replica, moment))?;
                            }
                        }
                        at("TransactionMut::commit");
                        drop(txn);
                    }
                    if check_all || is_last {
                        at("Doc::transact");
                        let txn = rep.doc.transact();
                        check_host(case, rep, &txn, &ctx_at(si, *replica, "after the commit".to_string()))?;
                    }
                }
                MStep::Deliver { to, from } => {
                    done.push(step.clone());
                    if holds_json[*from] && !relay_ok {
                        return Err(invalid(
                            "delivery from a replica that holds a ContentJSON entry: on this tree the sender's own encoding of \
                             ContentJSON does not decode (a codec matter, not a read-path matter)"
                                .to_string(),
                        ));
                    }
                    holds_json[*to] |= holds_json[*from];
                    let before = if is_last { Some(encoded(&reps[*to].doc.transact())) } else { None };
                    transfer(&reps[*from].doc, &reps[*to].doc)?;
                    let rep = &reps[*to];
                    let txn = rep.doc.transact();
                    if let Some(b) = before {
                        noop = encoded(&txn) == b;
                    }
                    if check_all || is_last {
                        check_host(case, rep, &txn, &ctx_at(si, *to, "after the delivery".to_string()))?;
                    }
                }
                MStep::Undo | MStep::Redo => {
                    done.push(step.clone());
                    let undo = matches!(step, MStep::Undo);
                    let before = if is_last { Some(encoded(&reps[0].doc.transact())) } else { None };
                    {
                        let mgr = reps[0]
                            .undo
                            .as_mut()
                            .ok_or_else(|| invalid("undo / redo without an undo manager".to_string()))?;
                        if undo {
                            at("UndoManager::undo_blocking");
                            let _ = mgr.undo_blocking();
                        } else {
                            at("UndoManager::redo_blocking");
                            let _ = mgr.redo_blocking();
                        }
                    }
                    let rep = &reps[0];
                    let txn = rep.doc.transact();
                    if let Some(b) = before {
                        noop = encoded(&txn) == b;
                    }
                    if check_all || is_last {
                        let moment = if undo { "after undo" } else { "after redo" };
                        check_host(case, rep, &txn, &ctx_at(si, 0, moment.to_string()))?;
                    }
                }
            }
        }
        let mut info = MInfo {
            noop,
            stats,
            ..MInfo::default()
        };
        for (ri, rep) in reps.iter().enumerate() {
            let txn = rep.doc.transact();
            for k in 0..KEY_NAMES.len() {
                at("Map::get");
                match host_get(&rep.host, &txn, KEY_NAMES[k]) {
                    Some(Out::YMap(_)) => {
                        info.live[ri] |= 1 << k;
                        info.maps[ri] |= 1 << k;
                    }
                    Some(_) => info.live[ri] |= 1 << k,
                    None => {}
                }
            }
        }
        if let Some(mgr) = reps[0].undo.as_ref() {
            info.can_undo = mgr.can_undo();
            info.can_redo = mgr.can_redo();
        }
        Ok(info)
    });
    r.map_err(|f| (done, f))
}

// ---------------------------------------------------------------------------
// enumeration
// ---------------------------------------------------------------------------

/// How many operations / deliveries a history may have, by what it contains: only core
/// operations (insert of a number, remove, clear, on keys a and b; deliveries, undo, redo); also
/// medium ones (key c, a nested MapPrelim, try_update, get_or_init::<MapRef>); exactly one wide
/// operation (any other value kind, foreign content, nested_set, get_or_init of another type)
/// next to core ones; anything else.
#[derive(Clone, Copy, Debug)]
struct Limits {
    core: usize,
    medium: usize,
    wide1: usize,
    wide2: usize,
}

impl Limits {
    fn allowed(&self, atoms: usize, medium: usize, wide: usize) -> bool {
        let limit = if wide == 0 && medium == 0 {
            self.core
        } else if wide == 0 {
            self.medium
        } else if wide == 1 && medium == 0 {
            self.wide1
        } else {
            self.wide2
        };
        atoms <= limit
    }
    fn deepest(&self) -> usize {
        self.core.max(self.medium).max(self.wide1).max(self.wide2)
    }
}

struct Stage {
    name: &'static str,
    host: HostKind,
    replicas: usize,
    gc: bool,
    undo: bool,
    fan: usize,
    limits: Limits,
    max_keys: u8,
    per_txn: usize,
}

/// (operations + deliveries, medium operations, wide operations)
fn weights(steps: &[MStep]) -> (usize, usize, usize) {
    let (mut a, mut m, mut w) = (0, 0, 0);
    for s in steps {
        a += s.atoms();
        if let MStep::Txn { ops, .. } = s {
            for op in ops {
                match op.class() {
                    1 => m += 1,
                    2 => w += 1,
                    _ => {}
                }
            }
        }
    }
    (a, m, w)
}

/// Key names are introduced in order: this many have been written so far.
fn keys_used(steps: &[MStep]) -> u8 {
    let mut used = 0u8;
    for s in steps {
        if let MStep::Txn { ops, .. } = s {
            for op in ops {
                if let Some(k) = op.key() {
                    if !matches!(op, MOp::Remove { .. } | MOp::NestedSet { .. }) {
                        used = used.max(k + 1);
                    }
                }
            }
        }
    }
    used
}

/// news[r]: replica r has committed something the other one has not received;
/// json[r]: replica r holds a ContentJSON entry.
fn news(steps: &[MStep]) -> ([bool; 2], [bool; 2]) {
    let mut n = [false; 2];
    let mut json = [false; 2];
    for s in steps {
        match s {
            MStep::Txn { replica, ops } => {
                n[*replica] = true;
                json[*replica] |= ops.iter().any(|o| matches!(o, MOp::Foreign { content, .. } if content.is_json()));
            }
            MStep::Deliver { from, to } => {
                n[*from] = false;
                json[*to] |= json[*from];
            }
            MStep::Undo | MStep::Redo => n[0] = true,
        }
    }
    (n, json)
}

impl Stage {
    fn case(&self, target: &str, steps: Vec<MStep>) -> MCase {
        MCase {
            target: target.to_string(),
            variant: self.name.to_string(),
            host: self.host,
            replicas: self.replicas,
            gc: self.gc,
            undo: self.undo,
            fan: self.fan,
            steps,
        }
    }

    /// The operations replica `r` can make in the state `info` describes.
    fn ops(&self, info: &MInfo, r: usize, used: u8) -> Vec<MOp> {
        let map_host = !self.host.is_xml();
        let (json_form, _) = json_support();
        let mut out = Vec::new();
        for key in 0..self.max_keys.min(used + 1) {
            for value in ALL_VALS {
                out.push(MOp::Insert { key, value });
            }
            if map_host {
                out.push(MOp::TryUpdate { key });
                for kind in [Init::Map, Init::Array, Init::Text] {
                    out.push(MOp::GetOrInit { key, kind });
                }
            }
            for content in FOREIGN_ENUM {
                if content.is_json() && json_form.is_none() {
                    continue;
                }
                out.push(MOp::Foreign { key, content, wins: true });
                if info.live[r] & (1 << key) != 0 {
                    out.push(MOp::Foreign { key, content, wins: false });
                }
            }
        }
        for key in 0..used.min(self.max_keys) {
            out.push(MOp::Remove { key });
            if info.maps[r] & (1 << key) != 0 {
                out.push(MOp::NestedSet { key });
            }
        }
        if map_host && used > 0 {
            out.push(MOp::Clear);
        }
        out
    }

    /// The one-step extensions of a passing history.
    fn children(&self, steps: &[MStep], info: &MInfo) -> Vec<Vec<MStep>> {
        let (atoms, medium, wide) = weights(steps);
        let used = keys_used(steps);
        let mut out: Vec<Vec<MStep>> = Vec::new();
        // steps of different replicas commute as long as nothing is delivered in between: only
        // the order "replica 1 first" is enumerated
        let after_second = matches!(steps.last(), Some(MStep::Txn { replica: 1, .. }));
        for r in 0..self.replicas {
            for op in self.ops(info, r, used) {
                let c = op.class();
                if !self.limits.allowed(atoms + 1, medium + (c == 1) as usize, wide + (c == 2) as usize) {
                    continue;
                }
                // one more operation in the open transaction ..
                if let Some(MStep::Txn { replica, ops }) = steps.last() {
                    if *replica == r && ops.len() < self.per_txn {
                        let mut s = steps.to_vec();
                        if let Some(MStep::Txn { ops, .. }) = s.last_mut() {
                            ops.push(op.clone());
                        }
                        out.push(s);
                    }
                }
                // .. or a transaction of its own
                if !(r == 0 && after_second) {
                    let mut s = steps.to_vec();
                    s.push(MStep::Txn {
                        replica: r,
                        ops: vec![op],
                    });
                    out.push(s);
                }
            }
        }
        if self.limits.allowed(atoms + 1, medium, wide) {
            let extend = |step: MStep| -> Vec<MStep> {
                let mut s = steps.to_vec();
                s.push(step);
                s
            };
            if self.replicas == 2 {
                let (n, json) = news(steps);
                let (_, relay_ok) = json_support();
                for (to, from) in [(0usize, 1usize), (1, 0)] {
                    if n[from] && (relay_ok || !json[from]) {
                        out.push(extend(MStep::Deliver { to, from }));
                    }
                }
            }
            if self.undo && !after_second {
                if info.can_undo {
                    out.push(extend(MStep::Undo));
                }
                if info.can_redo {
                    out.push(extend(MStep::Redo));
                }
            }
        }
        out
    }
}

// ---------------------------------------------------------------------------
// search / replay
// ---------------------------------------------------------------------------

fn stages(target: &str, universe: u32) -> Vec<Stage> {
    let u = universe.clamp(2, 8) as usize;
    let d = |k: usize| u.saturating_sub(k).max(1);
    let lim = |core: usize, medium: usize, wide1: usize, wide2: usize| Limits {
        core,
        medium: medium.min(core),
        wide1: wide1.min(medium).min(core),
        wide2: wide2.min(wide1).min(medium).min(core),
    };
    let core_only = |core: usize| Limits {
        core,
        medium: 0,
        wide1: 0,
        wide2: 0,
    };
    let st = |name: &'static str, host: HostKind, replicas: usize, gc: bool, undo: bool, fan: usize, limits: Limits| Stage {
        name,
        host,
        replicas,
        gc,
        undo,
        fan,
        limits,
        max_keys: if fan > 1 { 2 } else { 3 },
        per_txn: 3,
    };
    // Depths by measurement (dev profile, 8 jobs): universe 6 is about 400 000 cases; one more
    // operation multiplies a configuration by 7 (core) to 25 (medium / wide).
    let mut out = Vec::new();
    if target != "xml_attrs" {
        use HostKind::*;
        out.push(st("root_1_replica_gc", Root, 1, true, false, 1, lim(d(0), d(2), d(3), d(4))));
        out.push(st("root_1_replica_keys_x8_gc", Root, 1, true, false, 8, core_only(d(2))));
        out.push(st("root_1_replica_nogc", Root, 1, false, false, 1, lim(d(1), d(3), d(3), d(4))));
        out.push(st("root_1_replica_undo", Root, 1, true, true, 1, lim(d(1), d(2), d(3), d(4))));
        out.push(st("root_2_replicas_gc", Root, 2, true, false, 1, lim(d(1), d(3), d(3), d(4))));
        out.push(st("root_2_replicas_nogc", Root, 2, false, false, 1, lim(d(2), d(3), d(3), d(4))));
        out.push(st("root_1_replica_keys_x8_nogc", Root, 1, false, false, 8, core_only(d(2))));
        out.push(st("root_1_replica_keys_x8_undo", Root, 1, true, true, 8, core_only(d(2))));
        out.push(st("map_in_map_1_replica_gc", InMap, 1, true, false, 1, lim(d(1), d(3), d(3), d(4))));
        out.push(st("map_in_map_2_replicas_gc", InMap, 2, true, false, 1, lim(d(2), d(3), d(3), d(4))));
        out.push(st("map_in_array_1_replica_gc", InArray, 1, true, false, 1, lim(d(1), d(3), d(3), d(4))));
        out.push(st("map_in_array_2_replicas_nogc", InArray, 2, false, false, 1, lim(d(2), d(3), d(3), d(4))));
        out.push(st("map_in_map_1_replica_keys_x8_gc", InMap, 1, true, false, 8, core_only(d(3))));
    }
    if target != "map_paths" {
        use HostKind::*;
        out.push(st("xml_element_1_replica_gc", XmlElem, 1, true, false, 1, lim(d(0), d(2), d(2), d(4))));
        out.push(st("xml_element_1_replica_keys_x8_gc", XmlElem, 1, true, false, 8, core_only(d(2))));
        out.push(st("xml_element_1_replica_nogc", XmlElem, 1, false, false, 1, lim(d(1), d(3), d(3), d(4))));
        out.push(st("xml_element_1_replica_undo", XmlElem, 1, true, true, 1, lim(d(1), d(2), d(2), d(4))));
        out.push(st("xml_element_2_replicas_gc", XmlElem, 2, true, false, 1, lim(d(1), d(3), d(3), d(4))));
        out.push(st("xml_text_1_replica_gc", XmlText, 1, true, false, 1, lim(d(1), d(2), d(3), d(4))));
    }
    out
}

pub fn cmd_search(target: &str, universe: u32, jobs: usize, deadline: Option<Instant>) -> i32 {
    use std::sync::atomic::{AtomicU64, Ordering};
    let mut h = Hunt {
        jobs: jobs.max(1),
        deadline,
        cases: 0,
    };
    let mut stages = stages(target, universe);
    // debugging aids: VX_MAP_ONLY=<stage name> runs one configuration, VX_MAP_LIMITS=core,medium,wide1,wide2
    // overrides the depths, VX_MAP_TIMES=1 prints cases and milliseconds per configuration on stderr
    if let Ok(only) = std::env::var("VX_MAP_ONLY") {
        stages.retain(|s| s.name == only);
    }
    if let Ok(text) = std::env::var("VX_MAP_LIMITS") {
        let v: Vec<usize> = text.split(',').filter_map(|x| x.trim().parse().ok()).collect();
        if v.len() == 4 {
            for s in stages.iter_mut() {
                s.limits = Limits {
                    core: v[0],
                    medium: v[1],
                    wide1: v[2],
                    wide2: v[3],
                };
            }
        }
    }
    let times = std::env::var_os("VX_MAP_TIMES").is_some();
    let deepest = stages.iter().map(|s| s.limits.deepest()).max().unwrap_or(0);
    let mut frontiers: Vec<Vec<(Vec<MStep>, MInfo)>> = stages.iter().map(|_| Vec::new()).collect();
    let mut counts = vec![0u64; stages.len()];
    let mut millis = vec![0u128; stages.len()];
    let foreign = AtomicU64::new(0);
    let foreign_pending = AtomicU64::new(0);
    let dropped = AtomicU64::new(0);
    let noops = AtomicU64::new(0);
    let mut res: Result<(), Stop> = Ok(());
    // iterative deepening on the number of operations, all configurations in turn: a witness is as short as possible
    'deepening: for d in 0..=deepest {
        for (si, st) in stages.iter().enumerate() {
            if d > st.limits.deepest() {
                continue;
            }
            let started = Instant::now();
            let before = h.cases;
            let run_one = |tally: &mut Tally, steps: Vec<MStep>| -> Result<Option<(Vec<MStep>, MInfo)>, Stop> {
                if tally.expired() {
                    return Err(Stop::Timeout);
                }
                let case = st.case(target, steps);
                match execute(&case, false) {
                    Ok(info) => {
                        tally.cases += 1;
                        foreign.fetch_add(info.stats.foreign as u64, Ordering::Relaxed);
                        foreign_pending.fetch_add(info.stats.foreign_pending as u64, Ordering::Relaxed);
                        if info.noop {
                            // a duplicate of a shorter history: checked, not extended
                            noops.fetch_add(1, Ordering::Relaxed);
                            return Ok(None);
                        }
                        Ok(Some((case.steps, info)))
                    }
                    Err((_, f)) if is_invalid(&f) => {
                        dropped.fetch_add(1, Ordering::Relaxed);
                        Ok(None)
                    }
                    Err((done, failure)) => Err(Stop::Found(Box::new(Found {
                        fields: case.fields(&done),
                        failure,
                    }))),
                }
            };
            let produced: Result<Vec<Vec<(Vec<MStep>, MInfo)>>, Stop> = if d == 0 {
                h.par(1, &|tally: &mut Tally, _| Ok(run_one(tally, Vec::new())?.into_iter().collect()))
            } else {
                let fr = &frontiers[si];
                h.par(fr.len(), &|tally: &mut Tally, i: usize| {
                    let (steps, info) = &fr[i];
                    let mut kept = Vec::new();
                    for child in st.children(steps, info) {
                        if let Some(k) = run_one(tally, child)? {
                            kept.push(k);
                        }
                    }
                    Ok(kept)
                })
            };
            counts[si] += h.cases - before;
            millis[si] += started.elapsed().as_millis();
            match produced {
                Ok(lists) => frontiers[si] = lists.into_iter().flatten().collect(),
                Err(stop) => {
                    res = Err(stop);
                    break 'deepening;
                }
            }
        }
    }
    if times {
        for (si, st) in stages.iter().enumerate() {
            eprintln!("{:40} {:>9} cases {:>8} ms", st.name, counts[si], millis[si]);
        }
    }
    let per_stage: Vec<(&str, J)> = stages.iter().enumerate().map(|(si, st)| (st.name, J::Num(counts[si] as i64))).collect();
    let (json_form, relay_ok) = json_support();
    let extra = vec![
        ("cases_per_stage", J::obj(per_stage)),
        ("histories_without_effect_not_extended", J::Num(noops.load(Ordering::Relaxed) as i64)),
        ("foreign_entries_applied", J::Num(foreign.load(Ordering::Relaxed) as i64)),
        ("foreign_entries_left_pending", J::Num(foreign_pending.load(Ordering::Relaxed) as i64)),
        ("cases_dropped_as_not_executable", J::Num(dropped.load(Ordering::Relaxed) as i64)),
        (
            "content_json",
            J::str(match (json_form, relay_ok) {
                (None, _) => "not injected: this tree decodes neither count form",
                (Some(JsonForm::Yjs), true) => "count written as Yjs writes it; relayed between replicas",
                (Some(JsonForm::Yjs), false) => "count written as Yjs writes it; never relayed (the tree's own encoding of it does not decode)",
                (Some(JsonForm::OneLess), true) => "count written one lower (this tree reads one string more than announced); relayed between replicas",
                (Some(JsonForm::OneLess), false) => {
                    "count written one lower (this tree reads one string more than announced); never relayed (the tree's own encoding of it does not decode)"
                }
            }),
        ),
    ];
    finish(target, universe, res, &h, extra)
}

/// `replay` of a witness of this module; `Err`: usage error (exit 2). The case is executed
/// `REPLAY_RUNS` times on fresh documents (the hash order of a map differs from one execution to
/// the next), reading after every operation and every step; any failing execution is reported.
pub fn cmd_replay(j: &J) -> Result<i32, String> {
    let case = MCase::from_json(j)?;
    let mut last = MInfo::default();
    for run in 0..REPLAY_RUNS {
        match execute(&case, true) {
            Ok(info) => last = info,
            Err((_, f)) if is_invalid(&f) => return Err(f.why),
            Err((done, mut f)) => {
                if let J::Obj(_) = f.actual {
                    f.actual.push_field("failed_in_execution", J::Num(run as i64 + 1));
                    f.actual.push_field("failed_after_steps", J::Arr(done.iter().map(|s| s.json()).collect()));
                }
                return Ok(finish_replay(Err(f)));
            }
        }
    }
    Ok(finish_replay(Ok(J::obj(vec![
        ("all_read_paths_agree", J::Bool(true)),
        ("executions", J::Num(REPLAY_RUNS as i64)),
        ("steps", J::Num(case.steps.len() as i64)),
        ("foreign_entries_applied", J::num(last.stats.foreign)),
        ("foreign_entries_left_pending", J::num(last.stats.foreign_pending)),
    ]))))
}
