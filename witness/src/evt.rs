//! Targets `evt_keys`, `evt_seq`, `events`: the change events delivered to the
//! observers of a shared type are exact edit scripts.
//!
//! Two replicas (fixed client ids) each hold a root Map `m` and a root Array
//! `a`. On BOTH replicas an `observe` callback per type maintains a SHADOW copy
//! of the content purely from the events it receives (`MapEvent::keys`:
//! Inserted / Updated / Removed with their old values checked against the
//! shadow; `ArrayEvent::delta`: Retain / Removed / Added applied to the shadow
//! vector). After EVERY committed transaction - a local one made of 1..k
//! operations, or a remote one: `apply_update` of the peer's
//! `encode_state_as_update_v1` against the receiver's state vector, so that
//! several remote transactions land in one - the shadow must equal the content
//! read back from the document, every observer must have fired at most once,
//! and the observer of a type that no delivered operation touched must not
//! have fired at all. The oracle contains no model of the CRDT: whatever the
//! content is after the transaction, the events must transform the old content
//! into it. An observer call that reports nothing (empty key set / empty
//! delta) is tolerated.
//!
//! Histories are enumerated breadth first (shortest first, so a witness is as
//! small as possible); every written value is unique.
//!
//! This file also holds the small search harness (`Hunt`, `bfs`) shared with
//! stk.rs.

use crate::json::J;
use crate::model::Failure;
use std::cell::RefCell;
use std::collections::BTreeMap;
use std::panic::{catch_unwind, AssertUnwindSafe};
use std::sync::atomic::{AtomicBool, AtomicUsize, Ordering};
use std::sync::{Arc, Mutex};
use std::time::Instant;
use yrs::types::{Change, EntryChange};
use yrs::updates::decoder::Decode;
use yrs::{
    Any, Array, ArrayRef, ClientID, Doc, GetString, Map, MapRef, Observable, Options, Out, ReadTxn, Subscription, Transact,
    TransactionMut, Update, Xml, XmlElementPrelim, XmlElementRef, XmlFragment, XmlOut, XmlTextPrelim,
};

// ---------------------------------------------------------------------------
// shared harness
// ---------------------------------------------------------------------------

thread_local! {
    /// The public entry point of yrs that is being called right now: lets a
    /// caught panic name the call that raised it.
    static CURRENT_API: RefCell<String> = RefCell::new(String::new());
}

/// Announces the next call into the code under test.
pub fn at(api: &str) {
    CURRENT_API.with(|c| {
        let mut c = c.borrow_mut();
        c.clear();
        c.push_str(api);
    });
}

pub fn current_api() -> String {
    CURRENT_API.with(|c| c.borrow().clone())
}

pub fn fail(why: &str, api: &str, expected: J, actual: J) -> Failure {
    Failure {
        why: why.to_string(),
        expected,
        actual,
        api: api.to_string(),
    }
}

/// A failing case: the fields of the witness line (`target`, `variant`, `op`)
/// of the case that failed (cut after the failing step) and the disagreement.
pub struct Found {
    pub fields: Vec<(&'static str, J)>,
    pub failure: Failure,
}

pub enum Stop {
    Found(Box<Found>),
    Timeout,
}

/// Runs `f`; a panic of the code under test is a disagreement like any other.
pub fn guarded<T>(f: impl FnOnce() -> Result<T, Failure>) -> Result<T, Failure> {
    at("");
    match catch_unwind(AssertUnwindSafe(f)) {
        Ok(r) => r,
        Err(payload) => {
            let msg = if let Some(s) = payload.downcast_ref::<&str>() {
                s.to_string()
            } else if let Some(s) = payload.downcast_ref::<String>() {
                s.clone()
            } else {
                "non-string panic payload".to_string()
            };
            Err(Failure {
                why: format!("panic: {}", msg),
                expected: J::str("no panic"),
                actual: J::Null,
                api: current_api(),
            })
        }
    }
}

/// Per-thread counters.
pub struct Tally {
    deadline: Option<Instant>,
    pub cases: u64,
    ticks: u64,
}

impl Tally {
    pub fn expired(&mut self) -> bool {
        self.ticks += 1;
        if self.ticks % 16 == 1 {
            if let Some(d) = self.deadline {
                return Instant::now() >= d;
            }
        }
        false
    }
}

pub struct Hunt {
    pub jobs: usize,
    pub deadline: Option<Instant>,
    pub cases: u64,
}

impl Hunt {
    /// Runs `f` for every index below `count` on `jobs` threads (dynamic
    /// scheduling). The reported disagreement is the one with the smallest
    /// index (the one a sequential run would meet first); otherwise the
    /// results, by index.
    pub fn par<T: Send>(
        &mut self,
        count: usize,
        f: &(dyn Fn(&mut Tally, usize) -> Result<T, Stop> + Sync),
    ) -> Result<Vec<T>, Stop> {
        let jobs = self.jobs.max(1).min(count.max(1));
        let next = AtomicUsize::new(0);
        let best = AtomicUsize::new(usize::MAX);
        let timed_out = AtomicBool::new(false);
        let deadline = self.deadline;
        type Hit = Option<(usize, Box<Found>)>;
        let mut results: Vec<(u64, Vec<(usize, T)>, Hit)> = Vec::new();
        std::thread::scope(|scope| {
            let handles: Vec<_> = (0..jobs)
                .map(|_| {
                    let (next, best, timed_out) = (&next, &best, &timed_out);
                    scope.spawn(move || {
                        let mut tally = Tally {
                            deadline,
                            cases: 0,
                            ticks: 0,
                        };
                        let mut out = Vec::new();
                        let mut hit: Hit = None;
                        loop {
                            let i = next.fetch_add(1, Ordering::Relaxed);
                            if i >= count || i > best.load(Ordering::Relaxed) || timed_out.load(Ordering::Relaxed) {
                                break;
                            }
                            match f(&mut tally, i) {
                                Ok(v) => out.push((i, v)),
                                Err(Stop::Found(fd)) => {
                                    best.fetch_min(i, Ordering::Relaxed);
                                    hit = Some((i, fd));
                                    break;
                                }
                                Err(Stop::Timeout) => {
                                    timed_out.store(true, Ordering::Relaxed);
                                    break;
                                }
                            }
                        }
                        (tally.cases, out, hit)
                    })
                })
                .collect();
            for h in handles {
                if let Ok(r) = h.join() {
                    results.push(r);
                }
            }
        });
        let mut first: Hit = None;
        let mut all: Vec<(usize, T)> = Vec::new();
        for (cases, out, hit) in results {
            self.cases += cases;
            all.extend(out);
            if let Some((i, fd)) = hit {
                if first.as_ref().map(|(j, _)| i < *j).unwrap_or(true) {
                    first = Some((i, fd));
                }
            }
        }
        if let Some((_, fd)) = first {
            return Err(Stop::Found(fd));
        }
        if timed_out.load(Ordering::Relaxed) {
            return Err(Stop::Timeout);
        }
        all.sort_by_key(|(i, _)| *i);
        Ok(all.into_iter().map(|(_, v)| v).collect())
    }
}

/// A space of histories explored breadth first.
pub trait Space: Sync {
    type Case: Clone + Send + Sync;
    /// What a passing run tells about the final state (needed to extend the history).
    type Info: Send + Sync;
    /// Runs the case on the real code; on a disagreement returns the case that
    /// failed (cut after the failing step) as witness fields.
    fn run(&self, case: &Self::Case) -> Result<Self::Info, Box<Found>>;
    /// The one-step extensions of a passing case.
    fn children(&self, case: &Self::Case, info: &Self::Info) -> Vec<Self::Case>;
    /// `false`: the case has no extensions (it need not be kept).
    fn expandable(&self, case: &Self::Case) -> bool;
}

pub fn bfs<S: Space>(h: &mut Hunt, space: &S, roots: Vec<S::Case>) -> Result<(), Stop> {
    let mut frontier: Vec<(S::Case, S::Info)> = {
        let roots = &roots;
        h.par(roots.len(), &|tally: &mut Tally, i: usize| {
            if tally.expired() {
                return Err(Stop::Timeout);
            }
            let info = space.run(&roots[i]).map_err(Stop::Found)?;
            tally.cases += 1;
            Ok((roots[i].clone(), info))
        })?
    };
    while !frontier.is_empty() {
        let fr = &frontier;
        let kept = h.par(fr.len(), &|tally: &mut Tally, i: usize| {
            let (case, info) = &fr[i];
            let mut kept = Vec::new();
            for child in space.children(case, info) {
                if tally.expired() {
                    return Err(Stop::Timeout);
                }
                let info = space.run(&child).map_err(Stop::Found)?;
                tally.cases += 1;
                if space.expandable(&child) {
                    kept.push((child, info));
                }
            }
            Ok(kept)
        })?;
        frontier = kept.into_iter().flatten().collect();
    }
    Ok(())
}

/// Prints the closing line of a search; returns the exit code.
pub fn finish(target: &str, universe: u32, res: Result<(), Stop>, h: &Hunt, extra: Vec<(&'static str, J)>) -> i32 {
    let mut truncated = false;
    match res {
        Ok(()) => {}
        Err(Stop::Found(fd)) => {
            let mut fields = fd.fields;
            fields.push(("expected", fd.failure.expected.clone()));
            fields.push(("actual", fd.failure.actual.clone()));
            fields.push(("why", J::str(&fd.failure.why)));
            fields.push(("api", J::str(&fd.failure.api)));
            println!("{}", J::obj(fields));
            return 1;
        }
        Err(Stop::Timeout) => truncated = true,
    }
    let mut out = vec![
        ("target", J::str(target)),
        ("found", J::Bool(false)),
        ("cases", J::Num(h.cases as i64)),
        ("universe", J::num(universe)),
    ];
    out.extend(extra);
    if truncated {
        // --max-seconds elapsed before the enumeration was complete
        out.push(("truncated", J::Bool(true)));
    }
    println!("{}", J::obj(out));
    0
}

/// Prints the line of a replay; returns the exit code.
pub fn finish_replay(res: Result<J, Failure>) -> i32 {
    match res {
        Ok(actual) => {
            println!("{}", J::obj(vec![("reproduced", J::Bool(false)), ("actual", actual)]));
            0
        }
        Err(f) => {
            println!(
                "{}",
                J::obj(vec![
                    ("reproduced", J::Bool(true)),
                    ("actual", f.actual),
                    ("expected", f.expected),
                    ("why", J::str(&f.why)),
                    ("api", J::str(&f.api)),
                ])
            );
            1
        }
    }
}

// ---------------------------------------------------------------------------
// cases
// ---------------------------------------------------------------------------

pub const TARGETS: &str = "events | evt_keys | evt_seq";

pub fn is_target(target: &str) -> bool {
    matches!(target, "events" | "evt_keys" | "evt_seq")
}

/// Is this witness line one of ours?
pub fn owns(j: &J) -> bool {
    j.get("target").and_then(|t| t.as_str()).map(is_target).unwrap_or(false)
}

const MAP: &str = "m";
const SEQ: &str = "a";
const KEYS: [&str; 2] = ["a", "b"];
/// The array never grows beyond this in the enumeration.
const MAX_LEN: u32 = 5;

#[derive(Clone, Debug, PartialEq)]
pub enum EOp {
    /// `Map::insert(key, value)`
    Set { key: String, value: i64 },
    /// `Map::remove(key)`
    Unset { key: String },
    /// `Array::insert_range(index, values)` (`push_back` for one value at the end)
    Ins { index: u32, values: Vec<i64> },
    /// `Array::remove_range(index, len)`
    Rem { index: u32, len: u32 },
}

impl EOp {
    fn on_map(&self) -> bool {
        matches!(self, EOp::Set { .. } | EOp::Unset { .. })
    }

    fn json(&self) -> J {
        match self {
            EOp::Set { key, value } => J::obj(vec![("op", J::str("set")), ("key", J::str(key)), ("value", J::Num(*value))]),
            EOp::Unset { key } => J::obj(vec![("op", J::str("remove")), ("key", J::str(key))]),
            EOp::Ins { index, values } => J::obj(vec![
                ("op", J::str("insert_range")),
                ("index", J::num(*index)),
                ("values", J::Arr(values.iter().map(|v| J::Num(*v)).collect())),
            ]),
            EOp::Rem { index, len } => {
                J::obj(vec![("op", J::str("remove_range")), ("index", J::num(*index)), ("len", J::num(*len))])
            }
        }
    }

    fn from_json(j: &J, what: &str) -> Result<EOp, String> {
        let num = |key: &str| -> Result<u32, String> {
            match j.get(key).and_then(|v| v.as_i64()) {
                Some(n) if (0..=1000).contains(&n) => Ok(n as u32),
                _ => Err(format!("{}.{}: expected a number in 0..=1000", what, key)),
            }
        };
        let key = || -> Result<String, String> {
            Ok(j.get("key")
                .and_then(|k| k.as_str())
                .ok_or_else(|| format!("{}.key missing", what))?
                .to_string())
        };
        match j.get("op").and_then(|o| o.as_str()) {
            Some("set") => Ok(EOp::Set {
                key: key()?,
                value: j
                    .get("value")
                    .and_then(|v| v.as_i64())
                    .ok_or_else(|| format!("{}.value: expected an integer", what))?,
            }),
            Some("remove") => Ok(EOp::Unset { key: key()? }),
            Some("insert_range") | Some("insert") => {
                let vals = j
                    .get("values")
                    .and_then(|v| v.as_arr())
                    .ok_or_else(|| format!("{}.values missing", what))?;
                let mut values = Vec::new();
                for v in vals {
                    values.push(v.as_i64().ok_or_else(|| format!("{}.values: expected integers", what))?);
                }
                if values.is_empty() {
                    return Err(format!("{}.values: empty", what));
                }
                Ok(EOp::Ins { index: num("index")?, values })
            }
            Some("remove_range") => Ok(EOp::Rem {
                index: num("index")?,
                len: num("len")?,
            }),
            _ => Err(format!("{}.op: expected set | remove | insert_range | remove_range", what)),
        }
    }
}

#[derive(Clone, Debug, PartialEq)]
pub enum EStep {
    /// One committed transaction of replica `replica` (0 or 1).
    Txn { replica: usize, ops: Vec<EOp> },
    /// Replica `to` applies, in ONE transaction, everything replica `from` has and `to` lacks.
    Sync { to: usize, from: usize },
}

impl EStep {
    fn json(&self) -> J {
        match self {
            EStep::Txn { replica, ops } => J::obj(vec![
                ("step", J::str("transaction")),
                ("replica", J::Num(*replica as i64 + 1)),
                ("ops", J::Arr(ops.iter().map(|o| o.json()).collect())),
            ]),
            EStep::Sync { to, from } => J::obj(vec![
                ("step", J::str("deliver")),
                ("to_replica", J::Num(*to as i64 + 1)),
                ("from_replica", J::Num(*from as i64 + 1)),
            ]),
        }
    }
}

#[derive(Clone, Debug)]
pub struct EvCase {
    /// Name of the search target that produced the case (`evt_keys` ..).
    pub target: String,
    /// Client ids of replica 1 and replica 2.
    pub clients: [u64; 2],
    /// The observed type is ONE XmlElement (first child of the root fragment `x`, created by
    /// replica 1 before the observers are attached): the map operations work on its attributes,
    /// the array operations on its children (XmlText nodes holding the value). Otherwise the
    /// root Map `m` and the root Array `a`.
    pub xml: bool,
    pub steps: Vec<EStep>,
}

fn replica_index(j: Option<&J>, what: &str) -> Result<usize, String> {
    match j.and_then(|v| v.as_i64()) {
        Some(1) => Ok(0),
        Some(2) => Ok(1),
        _ => Err(format!("{}: expected replica 1 or 2", what)),
    }
}

impl EvCase {
    fn fields(&self) -> Vec<(&'static str, J)> {
        let remote = self.steps.iter().any(|s| matches!(s, EStep::Sync { .. }));
        vec![
            ("target", J::str(&self.target)),
            ("variant", J::str(if remote { "remote" } else { "local" })),
            (
                "op",
                J::obj(vec![
                    ("kind", J::str("events")),
                    ("host", J::str(if self.xml { "xml_element" } else { "map_and_array" })),
                    (
                        "observed",
                        J::str(if self.xml {
                            "attributes and children of an XmlElement, on both replicas"
                        } else {
                            "root Map \"m\" and root Array \"a\", on both replicas"
                        }),
                    ),
                    ("clients", J::Arr(self.clients.iter().map(|c| J::Num(*c as i64)).collect())),
                    ("steps", J::Arr(self.steps.iter().map(|s| s.json()).collect())),
                ]),
            ),
        ]
    }

    pub fn from_json(j: &J) -> Result<EvCase, String> {
        let target = j.get("target").and_then(|t| t.as_str()).unwrap_or("events").to_string();
        let op = j.get("op").ok_or("op missing")?;
        let xml = match op.get_non_null("host").map(|h| h.as_str()) {
            None | Some(Some("map_and_array")) => false,
            Some(Some("xml_element")) => true,
            _ => return Err("op.host: expected map_and_array | xml_element".into()),
        };
        let mut clients = [1u64, 2u64];
        if let Some(cs) = op.get_non_null("clients") {
            let cs = cs.as_arr().ok_or("op.clients: expected an array")?;
            if cs.len() != 2 {
                return Err("op.clients: expected two client ids".into());
            }
            for (i, c) in cs.iter().enumerate() {
                match c.as_i64() {
                    Some(n) if n >= 0 && (n as u64) < (1u64 << 53) => clients[i] = n as u64,
                    _ => return Err("op.clients: expected 53-bit client ids".into()),
                }
            }
            if clients[0] == clients[1] {
                return Err("op.clients: the client ids must differ".into());
            }
        }
        let arr = op.get("steps").and_then(|s| s.as_arr()).ok_or("op.steps: expected an array")?;
        let mut steps = Vec::new();
        for (i, st) in arr.iter().enumerate() {
            let what = format!("op.steps[{}]", i);
            match st.get("step").and_then(|s| s.as_str()) {
                Some("transaction") => {
                    let replica = replica_index(st.get("replica"), &format!("{}.replica", what))?;
                    let ops_j = st.get("ops").and_then(|o| o.as_arr()).ok_or_else(|| format!("{}.ops missing", what))?;
                    let mut ops = Vec::new();
                    for (k, o) in ops_j.iter().enumerate() {
                        ops.push(EOp::from_json(o, &format!("{}.ops[{}]", what, k))?);
                    }
                    steps.push(EStep::Txn { replica, ops });
                }
                Some("deliver") => {
                    let to = replica_index(st.get("to_replica"), &format!("{}.to_replica", what))?;
                    let from = replica_index(st.get("from_replica"), &format!("{}.from_replica", what))?;
                    if to == from {
                        return Err(format!("{}: to_replica and from_replica must differ", what));
                    }
                    steps.push(EStep::Sync { to, from });
                }
                _ => return Err(format!("{}.step: expected transaction | deliver", what)),
            }
        }
        Ok(EvCase {
            target,
            clients,
            xml,
            steps,
        })
    }
}

// ---------------------------------------------------------------------------
// execution
// ---------------------------------------------------------------------------

/// What the observers of one replica have seen.
#[derive(Default)]
struct Shadow {
    map: BTreeMap<String, i64>,
    seq: Vec<i64>,
    map_calls: u32,
    seq_calls: u32,
    /// Observer calls that reported nothing (tolerated).
    empty_calls: u32,
    /// Events that do not fit the content the observer holds.
    problems: Vec<String>,
    /// The events of the current transaction, rendered.
    events: Vec<J>,
}

/// The integer a value written by a script reads back as.
fn out_val<T: ReadTxn>(txn: &T, o: &Out) -> Result<i64, String> {
    match o {
        // a child of the XmlElement: an XmlText holding the value
        Out::YXmlText(t) => {
            let text = t.get_string(txn);
            text.parse::<i64>().map_err(|_| format!("XmlText {:?}", text))
        }
        Out::Any(Any::BigInt(n)) => Ok(*n),
        Out::Any(Any::Number(f)) if f.fract() == 0.0 && f.abs() < 1e15 => Ok(*f as i64),
        Out::Any(a) => Err(format!("{:?}", a)),
        _ => Err("a shared type".to_string()),
    }
}

fn val_json(v: &Result<i64, String>) -> J {
    match v {
        Ok(n) => J::Num(*n),
        Err(s) => J::str(s),
    }
}

const FOREIGN: i64 = i64::MIN;

impl Shadow {
    fn on_keys(&mut self, txn: &TransactionMut, keys: &std::collections::HashMap<Arc<str>, EntryChange>) {
        self.map_calls += 1;
        let mut sorted: Vec<(&Arc<str>, &EntryChange)> = keys.iter().collect();
        sorted.sort_by(|a, b| a.0.cmp(b.0));
        let mut rendered = Vec::new();
        for (key, change) in sorted {
            let key: &str = key;
            let held = self.map.get(key).copied();
            let check_old = |this: &mut Shadow, what: &str, old: &Result<i64, String>| match (held, old) {
                (None, _) => this.problems.push(format!(
                    "the map event reports {} for key {:?}, which the observer does not hold",
                    what, key
                )),
                (Some(h), Ok(o)) if h == *o => {}
                (Some(h), o) => this.problems.push(format!(
                    "the map event reports {} for key {:?} with old value {}, but the observer holds {}",
                    what,
                    key,
                    val_json(o),
                    h
                )),
            };
            match change {
                EntryChange::Inserted(new) => {
                    let new = out_val(txn, new);
                    rendered.push(J::obj(vec![("key", J::str(key)), ("inserted", val_json(&new))]));
                    if let Some(h) = held {
                        self.problems.push(format!(
                            "the map event reports Inserted for key {:?}, which the observer already holds (value {})",
                            key, h
                        ));
                    }
                    if new.is_err() {
                        self.problems.push(format!("the map event carries a value no script wrote for key {:?}", key));
                    }
                    self.map.insert(key.to_string(), new.unwrap_or(FOREIGN));
                }
                EntryChange::Updated(old, new) => {
                    let (old, new) = (out_val(txn, old), out_val(txn, new));
                    rendered.push(J::obj(vec![
                        ("key", J::str(key)),
                        ("updated_from", val_json(&old)),
                        ("to", val_json(&new)),
                    ]));
                    check_old(self, "Updated", &old);
                    if new.is_err() {
                        self.problems.push(format!("the map event carries a value no script wrote for key {:?}", key));
                    }
                    self.map.insert(key.to_string(), new.unwrap_or(FOREIGN));
                }
                EntryChange::Removed(old) => {
                    let old = out_val(txn, old);
                    rendered.push(J::obj(vec![("key", J::str(key)), ("removed", val_json(&old))]));
                    check_old(self, "Removed", &old);
                    self.map.remove(key);
                }
            }
        }
        self.events.push(J::obj(vec![("map_event_keys", J::Arr(rendered))]));
    }

    fn on_delta(&mut self, txn: &TransactionMut, delta: &[Change]) {
        self.seq_calls += 1;
        let mut rendered = Vec::new();
        let mut at = 0usize;
        for change in delta {
            match change {
                Change::Retain(n) => {
                    rendered.push(J::obj(vec![("retain", J::num(*n))]));
                    at += *n as usize;
                    if at > self.seq.len() {
                        self.problems.push(format!(
                            "the array event retains up to index {}, but the observer holds {} elements",
                            at,
                            self.seq.len()
                        ));
                        at = self.seq.len();
                    }
                }
                Change::Removed(n) => {
                    rendered.push(J::obj(vec![("removed", J::num(*n))]));
                    let end = at + *n as usize;
                    if end > self.seq.len() {
                        self.problems.push(format!(
                            "the array event removes the elements {}..{}, but the observer holds {} elements",
                            at,
                            end,
                            self.seq.len()
                        ));
                    }
                    let end = end.min(self.seq.len());
                    self.seq.drain(at..end);
                }
                Change::Added(values) => {
                    let vals: Vec<Result<i64, String>> = values.iter().map(|v| out_val(txn, v)).collect();
                    rendered.push(J::obj(vec![("added", J::Arr(vals.iter().map(val_json).collect()))]));
                    if vals.iter().any(|v| v.is_err()) {
                        self.problems.push("the array event carries a value no script wrote".to_string());
                    }
                    let ints: Vec<i64> = vals.into_iter().map(|v| v.unwrap_or(FOREIGN)).collect();
                    let n = ints.len();
                    self.seq.splice(at..at, ints);
                    at += n;
                }
            }
        }
        self.events.push(J::obj(vec![("array_event_delta", J::Arr(rendered))]));
    }
}

fn lock(s: &Arc<Mutex<Shadow>>) -> std::sync::MutexGuard<'_, Shadow> {
    s.lock().unwrap_or_else(|e| e.into_inner())
}

enum Host {
    Plain { map: MapRef, seq: ArrayRef },
    Xml(XmlElementRef),
}

struct Peer {
    doc: Doc,
    host: Host,
    shadow: Arc<Mutex<Shadow>>,
    _subs: Vec<Subscription>,
}

const XML_ROOT: &str = "x";

fn new_doc(client: u64) -> Doc {
    at("Doc::with_options");
    Doc::with_options(Options::with_client_id(ClientID::new(client)))
}

/// The two replicas with their observers attached.
fn peers(case: &EvCase) -> Result<[Peer; 2], Failure> {
    let docs = [new_doc(case.clients[0]), new_doc(case.clients[1])];
    let mut hosts: Vec<Host> = Vec::new();
    if case.xml {
        at("Doc::get_or_insert_xml_fragment");
        let frags = [docs[0].get_or_insert_xml_fragment(XML_ROOT), docs[1].get_or_insert_xml_fragment(XML_ROOT)];
        let first = {
            at("XmlFragment::insert (set-up)");
            let mut txn = docs[0].transact_mut();
            frags[0].insert(&mut txn, 0, XmlElementPrelim::empty("p"))
        };
        transfer(&docs[0], &docs[1], API_SYNC)?;
        at("XmlFragment::get (set-up)");
        let second = match frags[1].get(&docs[1].transact(), 0) {
            Some(XmlOut::Element(e)) => e,
            _ => {
                return Err(fail(
                    "the XmlElement created by replica 1 is not readable after synchronisation",
                    "XmlFragment::get",
                    J::str("the element"),
                    J::Null,
                ))
            }
        };
        hosts.push(Host::Xml(first));
        hosts.push(Host::Xml(second));
    } else {
        at("Doc::get_or_insert_map / get_or_insert_array");
        for d in docs.iter() {
            hosts.push(Host::Plain {
                map: d.get_or_insert_map(MAP),
                seq: d.get_or_insert_array(SEQ),
            });
        }
    }
    let mut out: Vec<Peer> = Vec::new();
    for (doc, host) in docs.into_iter().zip(hosts.into_iter()) {
        let shadow = Arc::new(Mutex::new(Shadow::default()));
        at("Observable::observe");
        let subs = match &host {
            Host::Plain { map, seq } => {
                let sh = shadow.clone();
                let s1 = map.observe(move |txn, e| {
                    at("MapEvent::keys");
                    let keys = e.keys(txn);
                    let mut sh = lock(&sh);
                    sh.on_keys(txn, keys);
                    if keys.is_empty() {
                        sh.empty_calls += 1;
                    }
                });
                let sh = shadow.clone();
                let s2 = seq.observe(move |txn, e| {
                    at("ArrayEvent::delta");
                    let delta = e.delta(txn);
                    let mut sh = lock(&sh);
                    sh.on_delta(txn, delta);
                    if delta.is_empty() {
                        sh.empty_calls += 1;
                    }
                });
                vec![s1, s2]
            }
            Host::Xml(elem) => {
                let sh = shadow.clone();
                // ONE observer: its call counts for the attributes and for the children
                let s = elem.observe(move |txn, e| {
                    at("XmlEvent::keys");
                    let keys = e.keys(txn);
                    at("XmlEvent::delta");
                    let delta = e.delta(txn);
                    let mut sh = lock(&sh);
                    sh.on_keys(txn, keys);
                    sh.on_delta(txn, delta);
                    if keys.is_empty() && delta.is_empty() {
                        sh.empty_calls += 1;
                    }
                });
                vec![s]
            }
        };
        out.push(Peer {
            doc,
            host,
            shadow,
            _subs: subs,
        });
    }
    let second = out.pop().unwrap();
    let first = out.pop().unwrap();
    Ok([first, second])
}

impl Peer {
    fn read_map(&self) -> BTreeMap<String, Result<i64, String>> {
        let txn = self.doc.transact();
        match &self.host {
            Host::Plain { map, .. } => {
                at("Map::iter");
                map.iter(&txn).map(|(k, v)| (k.to_string(), out_val(&txn, &v))).collect()
            }
            Host::Xml(elem) => {
                at("Xml::attributes");
                elem.attributes(&txn).map(|(k, v)| (k.to_string(), out_val(&txn, &v))).collect()
            }
        }
    }

    fn read_seq(&self) -> Vec<Result<i64, String>> {
        let txn = self.doc.transact();
        match &self.host {
            Host::Plain { seq, .. } => {
                at("Array::iter");
                seq.iter(&txn).map(|v| out_val(&txn, &v)).collect()
            }
            Host::Xml(elem) => {
                at("XmlFragment::children");
                elem.children(&txn)
                    .map(|n| match n {
                        XmlOut::Text(t) => out_val(&txn, &Out::YXmlText(t)),
                        _ => Err("an XML node no script inserted".to_string()),
                    })
                    .collect()
            }
        }
    }

    fn seq_len(&self, txn: &TransactionMut) -> u32 {
        match &self.host {
            Host::Plain { seq, .. } => {
                at("Array::len");
                seq.len(txn)
            }
            Host::Xml(elem) => {
                at("XmlFragment::len");
                XmlFragment::len(elem, txn)
            }
        }
    }

    fn apply(&self, txn: &mut TransactionMut, op: &EOp) {
        match (&self.host, op) {
            (Host::Plain { map, .. }, EOp::Set { key, value }) => {
                at("Map::insert");
                map.insert(txn, key.as_str(), *value);
            }
            (Host::Plain { map, .. }, EOp::Unset { key }) => {
                at("Map::remove");
                map.remove(txn, key);
            }
            (Host::Plain { seq, .. }, EOp::Ins { index, values }) => {
                if values.len() == 1 && *index == seq.len(txn) {
                    at("Array::push_back");
                    seq.push_back(txn, values[0]);
                } else {
                    at("Array::insert_range");
                    seq.insert_range(txn, *index, values.iter().copied());
                }
            }
            (Host::Plain { seq, .. }, EOp::Rem { index, len }) => {
                at("Array::remove_range");
                seq.remove_range(txn, *index, *len);
            }
            (Host::Xml(elem), EOp::Set { key, value }) => {
                at("Xml::insert_attribute");
                elem.insert_attribute(txn, key.as_str(), *value);
            }
            (Host::Xml(elem), EOp::Unset { key }) => {
                at("Xml::remove_attribute");
                elem.remove_attribute(txn, key);
            }
            (Host::Xml(elem), EOp::Ins { index, values }) => {
                at("XmlFragment::insert");
                for (k, v) in values.iter().enumerate() {
                    XmlFragment::insert(elem, txn, *index + k as u32, XmlTextPrelim::new(v.to_string()));
                }
            }
            (Host::Xml(elem), EOp::Rem { index, len }) => {
                at("XmlFragment::remove_range");
                XmlFragment::remove_range(elem, txn, *index, *len);
            }
        }
    }
}

fn transfer(from: &Doc, to: &Doc, api: &str) -> Result<(), Failure> {
    at(api);
    let sv = to.transact().state_vector();
    let bytes = from.transact().encode_state_as_update_v1(&sv);
    let update = Update::decode_v1(&bytes)
        .map_err(|e| fail("an update just encoded does not decode", api, J::str("Ok"), J::str(&e.to_string())))?;
    let mut txn = to.transact_mut();
    txn.apply_update(update)
        .map_err(|e| fail("apply_update of a peer's state failed", api, J::str("Ok"), J::str(&e.to_string())))?;
    drop(txn); // commit: the observers run here
    Ok(())
}

fn map_json(m: &BTreeMap<String, Result<i64, String>>) -> J {
    J::Obj(m.iter().map(|(k, v)| (k.clone(), val_json(v))).collect())
}

fn seq_json(s: &[Result<i64, String>]) -> J {
    J::Arr(s.iter().map(val_json).collect())
}

/// State of the replicas after a passing run.
#[derive(Clone, Debug, Default)]
pub struct EvInfo {
    /// Bit k: key `KEYS[k]` is present.
    present: [u8; 2],
    len: [u32; 2],
    /// Observer calls that reported nothing (empty key set / empty delta): tolerated.
    pub empty_calls: u32,
}

/// A script that cannot be executed (replay of a hand-written case).
fn invalid(why: String) -> Failure {
    Failure {
        why: format!("invalid case: {}", why),
        expected: J::Null,
        actual: J::Null,
        api: "(none)".to_string(),
    }
}

pub fn is_invalid(f: &Failure) -> bool {
    f.why.starts_with("invalid case: ")
}

/// Content of the observed replica before the step, the check after it.
fn check_step(
    p: &Peer,
    replica: usize,
    step_no: usize,
    touched: (bool, bool),
    before: (&BTreeMap<String, i64>, &[i64]),
    api: &str,
) -> Result<(), Failure> {
    let real_map = p.read_map();
    let real_seq = p.read_seq();
    let mut sh = lock(&p.shadow);
    let shadow_map: BTreeMap<String, Result<i64, String>> = sh.map.iter().map(|(k, v)| (k.clone(), Ok(*v))).collect();
    let shadow_seq: Vec<Result<i64, String>> = sh.seq.iter().map(|v| Ok(*v)).collect();
    let before_map: BTreeMap<String, Result<i64, String>> = before.0.iter().map(|(k, v)| (k.clone(), Ok(*v))).collect();
    let before_seq: Vec<Result<i64, String>> = before.1.iter().map(|v| Ok(*v)).collect();
    let report = |why: String, sh: &Shadow| -> Failure {
        Failure {
            why,
            expected: J::obj(vec![
                ("step", J::Num(step_no as i64 + 1)),
                ("replica", J::Num(replica as i64 + 1)),
                (
                    "events_transform",
                    J::obj(vec![("m", map_json(&before_map)), ("a", seq_json(&before_seq))]),
                ),
                ("into", J::obj(vec![("m", map_json(&real_map)), ("a", seq_json(&real_seq))])),
            ]),
            actual: J::obj(vec![
                ("events", J::Arr(sh.events.clone())),
                (
                    "content_before_with_events_applied",
                    J::obj(vec![("m", map_json(&shadow_map)), ("a", seq_json(&shadow_seq))]),
                ),
                ("map_observer_calls", J::num(sh.map_calls)),
                ("array_observer_calls", J::num(sh.seq_calls)),
            ]),
            api: api.to_string(),
        }
    };
    if let Some(p0) = sh.problems.first() {
        return Err(report(p0.clone(), &sh));
    }
    if sh.map_calls > 1 || sh.seq_calls > 1 {
        return Err(report("an observer fired more than once for one transaction".to_string(), &sh));
    }
    if !touched.0 && sh.map_calls > 0 {
        return Err(report(
            "the map observer fired although no operation of the transaction touched the map".to_string(),
            &sh,
        ));
    }
    if !touched.1 && sh.seq_calls > 0 {
        return Err(report(
            "the array observer fired although no operation of the transaction touched the array".to_string(),
            &sh,
        ));
    }
    if shadow_map != real_map {
        return Err(report(
            "applying the reported key changes to the content the map observer held does not yield the map's content".to_string(),
            &sh,
        ));
    }
    if shadow_seq != real_seq {
        return Err(report(
            "applying the reported delta to the content the array observer held does not yield the array's content".to_string(),
            &sh,
        ));
    }
    sh.map_calls = 0;
    sh.seq_calls = 0;
    sh.events.clear();
    Ok(())
}

const API_TXN: &str = "TransactionMut::commit (local transaction) -> Observable::observe callbacks";
const API_SYNC: &str =
    "ReadTxn::encode_state_as_update_v1 -> Update::decode_v1 -> TransactionMut::apply_update -> Observable::observe callbacks";

/// Runs the steps; `close`: afterwards delivers whatever has not been
/// delivered yet (1 <- 2, then 2 <- 1). On a disagreement returns the case cut
/// after the failing step.
fn execute(case: &EvCase, close: bool) -> Result<EvInfo, (EvCase, Failure)> {
    let mut done: Vec<EStep> = Vec::new();
    let r = guarded(|| {
        let peers = peers(case)?;
        // news[r]: what replica r wrote and the other has not received (map, array)
        let mut news = [(false, false); 2];
        let mut pending: Vec<EStep> = case.steps.clone();
        pending.reverse();
        let mut closing = 0;
        loop {
            let step = match pending.pop() {
                Some(s) => s,
                None => {
                    if !close || closing == 2 {
                        break;
                    }
                    closing += 1;
                    let (to, from) = if closing == 1 { (0, 1) } else { (1, 0) };
                    if news[from] == (false, false) {
                        continue;
                    }
                    EStep::Sync { to, from }
                }
            };
            let step_no = done.len();
            done.push(step.clone());
            match &step {
                EStep::Txn { replica, ops } => {
                    let p = &peers[*replica];
                    let (bm, bs) = {
                        let sh = lock(&p.shadow);
                        (sh.map.clone(), sh.seq.clone())
                    };
                    let mut touched = (false, false);
                    {
                        at("Doc::transact_mut");
                        let mut txn = p.doc.transact_mut();
                        for op in ops {
                            if op.on_map() {
                                touched.0 = true;
                            } else {
                                touched.1 = true;
                            }
                            match op {
                                EOp::Ins { index, .. } => {
                                    let len = p.seq_len(&txn);
                                    if *index > len {
                                        return Err(invalid(format!(
                                            "step {}: insert at {} into {} elements",
                                            step_no + 1,
                                            index,
                                            len
                                        )));
                                    }
                                }
                                EOp::Rem { index, len } => {
                                    let have = p.seq_len(&txn);
                                    if *len == 0 || *index + *len > have {
                                        return Err(invalid(format!(
                                            "step {}: remove_range({}, {}) on {} elements",
                                            step_no + 1,
                                            index,
                                            len,
                                            have
                                        )));
                                    }
                                }
                                _ => {}
                            }
                            p.apply(&mut txn, op);
                        }
                        at(API_TXN);
                        drop(txn);
                    }
                    if case.xml {
                        // one type, one observer
                        touched = (true, true);
                    }
                    news[*replica].0 |= touched.0;
                    news[*replica].1 |= touched.1;
                    check_step(p, *replica, step_no, touched, (&bm, &bs), API_TXN)?;
                }
                EStep::Sync { to, from } => {
                    let p = &peers[*to];
                    let (bm, bs) = {
                        let sh = lock(&p.shadow);
                        (sh.map.clone(), sh.seq.clone())
                    };
                    transfer(&peers[*from].doc, &peers[*to].doc, API_SYNC)?;
                    let touched = news[*from];
                    news[*from] = (false, false);
                    check_step(p, *to, step_no, touched, (&bm, &bs), API_SYNC)?;
                }
            }
        }
        let mut info = EvInfo::default();
        for (i, p) in peers.iter().enumerate() {
            let m = p.read_map();
            for (k, name) in KEYS.iter().enumerate() {
                if m.contains_key(*name) {
                    info.present[i] |= 1 << k;
                }
            }
            info.len[i] = p.read_seq().len() as u32;
            info.empty_calls += lock(&p.shadow).empty_calls;
        }
        Ok(info)
    });
    r.map_err(|f| {
        (
            EvCase {
                steps: done,
                ..case.clone()
            },
            f,
        )
    })
}

// ---------------------------------------------------------------------------
// enumeration
// ---------------------------------------------------------------------------

#[derive(Clone, Copy, Debug, PartialEq)]
enum Kind {
    Keys,
    Seq,
    Both,
}

struct EvSpace {
    kind: Kind,
    /// Operations per history.
    budget: usize,
    /// Operations per transaction.
    per_txn: usize,
    /// Tolerated observer calls without a change, over the complete histories.
    empty_calls: std::sync::atomic::AtomicU64,
}

fn ops_used(steps: &[EStep]) -> usize {
    steps
        .iter()
        .map(|s| match s {
            EStep::Txn { ops, .. } => ops.len(),
            EStep::Sync { .. } => 0,
        })
        .sum()
}

/// Number of values written so far (the next value to write is this + 1) and
/// number of distinct keys used so far.
fn counters(steps: &[EStep]) -> (i64, usize) {
    let mut values = 0i64;
    let mut keys = 0usize;
    for s in steps {
        if let EStep::Txn { ops, .. } = s {
            for op in ops {
                match op {
                    EOp::Set { key, .. } => {
                        values += 1;
                        if let Some(k) = KEYS.iter().position(|n| n == key) {
                            keys = keys.max(k + 1);
                        }
                    }
                    EOp::Ins { values: vs, .. } => values += vs.len() as i64,
                    _ => {}
                }
            }
        }
    }
    (values, keys)
}

/// news[r]: replica r has committed something the other one has not received.
fn news(steps: &[EStep]) -> [bool; 2] {
    let mut n = [false; 2];
    for s in steps {
        match s {
            EStep::Txn { replica, .. } => n[*replica] = true,
            EStep::Sync { from, .. } => n[*from] = false,
        }
    }
    n
}

impl EvSpace {
    /// All transactions of 1..=max operations that can run on a replica in the given state.
    fn txns(&self, present: u8, len: u32, next_value: i64, keys_used: usize, max: usize) -> Vec<Vec<EOp>> {
        let mut out = Vec::new();
        let mut cur = Vec::new();
        self.txns_rec(present, len, next_value, keys_used, max, &mut cur, &mut out);
        out.sort_by_key(|ops| ops.len()); // stable: short transactions first
        out
    }

    #[allow(clippy::too_many_arguments)]
    fn txns_rec(
        &self,
        present: u8,
        len: u32,
        next_value: i64,
        keys_used: usize,
        left: usize,
        cur: &mut Vec<EOp>,
        out: &mut Vec<Vec<EOp>>,
    ) {
        if left == 0 {
            return;
        }
        if self.kind != Kind::Seq {
            // keys are introduced in order: "b" only after "a" has been written
            for k in 0..KEYS.len().min(keys_used + 1) {
                cur.push(EOp::Set {
                    key: KEYS[k].to_string(),
                    value: next_value,
                });
                out.push(cur.clone());
                self.txns_rec(present | (1 << k), len, next_value + 1, keys_used.max(k + 1), left - 1, cur, out);
                cur.pop();
                if present & (1 << k) != 0 {
                    cur.push(EOp::Unset { key: KEYS[k].to_string() });
                    out.push(cur.clone());
                    self.txns_rec(present & !(1 << k), len, next_value, keys_used, left - 1, cur, out);
                    cur.pop();
                }
            }
        }
        if self.kind != Kind::Keys {
            for index in 0..=len {
                for n in 1..=2u32 {
                    if len + n > MAX_LEN {
                        continue;
                    }
                    cur.push(EOp::Ins {
                        index,
                        values: (0..n as i64).map(|i| next_value + i).collect(),
                    });
                    out.push(cur.clone());
                    self.txns_rec(present, len + n, next_value + n as i64, keys_used, left - 1, cur, out);
                    cur.pop();
                }
            }
            for n in 1..=len.min(3) {
                for index in 0..=(len - n) {
                    cur.push(EOp::Rem { index, len: n });
                    out.push(cur.clone());
                    self.txns_rec(present, len - n, next_value, keys_used, left - 1, cur, out);
                    cur.pop();
                }
            }
        }
    }
}

impl Space for EvSpace {
    type Case = EvCase;
    type Info = EvInfo;

    fn run(&self, case: &EvCase) -> Result<EvInfo, Box<Found>> {
        // a history that has used up its operations is closed by the outstanding deliveries
        let close = ops_used(&case.steps) >= self.budget;
        match execute(case, close) {
            Ok(info) => {
                if close && info.empty_calls > 0 {
                    self.empty_calls.fetch_add(info.empty_calls as u64, Ordering::Relaxed);
                }
                Ok(info)
            }
            Err((failed, failure)) => Err(Box::new(Found {
                fields: failed.fields(),
                failure,
            })),
        }
    }

    fn expandable(&self, case: &EvCase) -> bool {
        ops_used(&case.steps) < self.budget
    }

    fn children(&self, case: &EvCase, info: &EvInfo) -> Vec<EvCase> {
        let used = ops_used(&case.steps);
        if used >= self.budget {
            return Vec::new(); // closed by `run`
        }
        let left = (self.budget - used).min(self.per_txn);
        let (values, keys_used) = counters(&case.steps);
        let mut out = Vec::new();
        let extend = |step: EStep| -> EvCase {
            let mut c = case.clone();
            c.steps.push(step);
            c
        };
        for replica in 0..2 {
            // transactions of different replicas commute as long as nothing is delivered in
            // between: only the order "replica 1 first" is enumerated
            if replica == 0 && matches!(case.steps.last(), Some(EStep::Txn { replica: 1, .. })) {
                continue;
            }
            for ops in self.txns(info.present[replica], info.len[replica], values + 1, keys_used, left) {
                out.push(extend(EStep::Txn { replica, ops }));
            }
        }
        let n = news(&case.steps);
        for (to, from) in [(0usize, 1usize), (1, 0)] {
            if n[from] {
                out.push(extend(EStep::Sync { to, from }));
            }
        }
        out
    }
}

/// Operations per history: map, array, both in one history (each on the
/// root types; one less on the XmlElement).
fn budgets(universe: u32) -> (usize, usize, usize) {
    let u = universe.clamp(1, 8) as usize;
    let keys = u.saturating_sub(1).clamp(1, 6);
    let seq = u.saturating_sub(2).clamp(1, 5);
    let both = u.saturating_sub(3).clamp(1, 4);
    (keys, seq, both)
}

pub fn cmd_search(target: &str, universe: u32, jobs: usize, deadline: Option<Instant>) -> i32 {
    let mut h = Hunt {
        jobs: jobs.max(1),
        deadline,
        cases: 0,
    };
    let (bk, bs, bb) = budgets(universe);
    let less = |b: usize| b.saturating_sub(1).max(1);
    // (name, operations, host is the XmlElement, operations per history)
    let mut stages: Vec<(&str, Kind, bool, usize)> = Vec::new();
    if target != "evt_seq" {
        stages.push(("map", Kind::Keys, false, bk));
        stages.push(("xml_attributes", Kind::Keys, true, less(bk)));
    }
    if target != "evt_keys" {
        stages.push(("array", Kind::Seq, false, bs));
        stages.push(("xml_children", Kind::Seq, true, less(bs)));
    }
    if target == "events" {
        stages.push(("map_and_array", Kind::Both, false, bb));
        stages.push(("xml_attributes_and_children", Kind::Both, true, bb));
    }
    let mut res = Ok(());
    let mut per_stage: Vec<(&str, J)> = Vec::new();
    let deepest = stages.iter().map(|s| s.3).max().unwrap_or(1);
    let mut counts = vec![0u64; stages.len()];
    let mut empty = 0u64;
    // iterative deepening on the number of operations: a witness has as few as possible
    'deepening: for b in 1..=deepest {
        for (si, (_, kind, xml, budget)) in stages.iter().enumerate() {
            if b > *budget {
                continue;
            }
            let space = EvSpace {
                kind: *kind,
                budget: b,
                per_txn: 3,
                empty_calls: std::sync::atomic::AtomicU64::new(0),
            };
            let root = EvCase {
                target: target.to_string(),
                clients: [1, 2],
                xml: *xml,
                steps: Vec::new(),
            };
            let before = h.cases;
            res = bfs(&mut h, &space, vec![root]);
            counts[si] += h.cases - before;
            empty += space.empty_calls.load(Ordering::Relaxed);
            if res.is_err() {
                break 'deepening;
            }
        }
    }
    for (si, (name, ..)) in stages.iter().enumerate() {
        per_stage.push((name, J::Num(counts[si] as i64)));
    }
    let mut extra = if per_stage.len() > 1 {
        vec![("cases_per_stage", J::obj(per_stage))]
    } else {
        Vec::new()
    };
    // tolerated: observer calls that reported no change (empty key set / empty delta)
    extra.push(("observer_calls_without_change", J::Num(empty as i64)));
    finish(target, universe, res, &h, extra)
}

/// `replay` of a witness of this module; `Err`: usage error (exit 2).
pub fn cmd_replay(j: &J) -> Result<i32, String> {
    let case = EvCase::from_json(j)?;
    match execute(&case, false) {
        Ok(info) => Ok(finish_replay(Ok(J::obj(vec![
            ("all_events_exact", J::Bool(true)),
            ("observer_calls_without_change", J::num(info.empty_calls)),
            (
                "array_lengths",
                J::Arr(info.len.iter().map(|l| J::num(*l)).collect()),
            ),
        ])))),
        Err((_, f)) if is_invalid(&f) => Err(f.why),
        Err((_, f)) => Ok(finish_replay(Err(f))),
    }
}
