//! Target `updlog` (property C07): the updates handed to the `observe_update_v1` /
//! `observe_update_v2` subscribers of a document form a complete, minimal replication log.
//!
//! HARNESS. An EMITTER document (client 5; `skip_gc` both ways, everything else default, so the
//! automatic formatting clean-up is ON) carries one `observe_update_v1` and one
//! `observe_update_v2` subscriber that record every emitted update in order. Two PASSIVE
//! followers (clients 9001 / 9002, `cleanup_formatting: false`, same `skip_gc`, no edits of their
//! own) are fed ONLY by the v1 stream resp. ONLY by the v2 stream: every update is applied right
//! after the emitter transaction that produced it, in emission order. One or two AUTHOR replicas
//! (clients 1 and 9: one below, one above the emitter) make edits of their own; their
//! per-transaction updates are captured and delivered to the emitter in any order, any number
//! of times. Root types: Text `t`, Array `a`, Map `m`; at most one nested type (element of `a`
//! or entry `n` of `m`).
//!
//! STEPS (`op.steps`):
//! * `local`   one local transaction of the emitter made of 0..k operations (origin none);
//! * `author`  one local transaction of an author (captured in v1 and v2; NOT an emitter transaction);
//! * `pull`    an author applies the emitter's `encode_state_as_update_v1(&author_sv)` (not an emitter transaction);
//! * `deliver` the emitter applies captured update `[author, number]` (origin "remote"): in order, out
//!             of order (same-sender reordering: blocks integrated behind a Skip, or stashed and
//!             re-integrated later), duplicates;
//! * `relay`   the emitter applies the author's `encode_state_as_update(&emitter_sv)`;
//! * `undo` / `redo` through an `UndoManager` (capture timeout 0) that tracks the three root types;
//! * `gc`      `TransactionMut::gc(None)` on the emitter.
//! OPERATIONS: text insert (start / mid / end; 0, 1 or 2 fresh characters), text removal (first /
//! last / all / nothing), `Text::format` of a range (all / first / last / nothing; bold on / bold
//! null), array insert / removal (also `remove_range(0, 0)`), map set / removal (also of an absent
//! key), creation of a nested array / map, insertion into it, its removal.
//!
//! ORACLES, checked after EVERY emitter transaction in `replay`, after the last step in `search`
//! (histories are enumerated breadth first, every prefix is a case of its own; the followers are
//! fed after every step in both modes). `integrated(d)` = the ids of the blocks `d` exports
//! without its stash (`encode_diff_v1(&empty)` -> `Update::insertions(true)`), `ds(d)` =
//! `snapshot().delete_set`; sets of ids are compared as plain sets of `client#clock` built by the
//! tool (no `IdSet` algebra of yrs involved).
//!  (E1) both followers EQUAL the emitter: text, text with formatting chunks (`Text::diff`),
//!       JSON of `a` and `m`, `state_vector()`, `ds`, `integrated`, and the store itself:
//!       `encode_diff_v1(&empty)` byte for byte (blocks, boundaries, origins, contents, deleted
//!       flags, delete set). If the bytes differ, both exports are applied to fresh non-collecting
//!       documents (which squash whatever can be squashed) and THEIR exports must be identical
//!       (block boundaries are no part of the property: `UndoManager` splits blocks without
//!       changing anything). After a `gc` step (a collection no follower is told about) the store
//!       comparison is dropped for the rest of the history; content, vector, delete set and ids stay.
//!       What the emitter has merely STASHED (pending update / pending delete set) is no part of
//!       any emitted update until it is integrated: `encode_diff_v1`, not
//!       `encode_state_as_update_v1`, is compared, and a follower must NEVER hold anything
//!       pending (`has_missing_updates()`, `pending_update()`, `pending_ds()`): every block of an
//!       emitted update was integrated by the emitter, so by induction its dependencies are in
//!       the follower.
//!  (E2) emission count: with `changed` = (`integrated` or `ds` of the emitter differ before /
//!       after the transaction), exactly ONE update per encoding if `changed`, NONE otherwise;
//!       both encodings announce the same number. An `undo` / `redo` call may run several
//!       transactions (one per popped stack item): then at most one update per popped item, at
//!       least one if `changed`, none otherwise.
//!  (E3) the v1 and the v2 update of one transaction decode to the same `Update` (`==`, and equal
//!       `encode_v1()` and `encode_v2()` re-encodings).
//!  (E4) exactness of the emitted update against the emitter's state change (`new` =
//!       `integrated` after minus before, `newds` = `ds` after minus before):
//!       complete: `new` is carried; `newds` is in the update's delete set or names carried blocks;
//!       minimal: every carried block is in `new`, EXCEPT (tolerated, see TOLERATED) ...; every id
//!       of the update's delete set is in `newds`.
//!
//! See the end of the file for the enumeration (`stages`).

use crate::evt::{at, fail, finish, finish_replay, guarded, Found, Hunt, Stop, Tally};
use crate::json::J;
use crate::model::Failure;
use std::collections::{BTreeMap, BTreeSet, HashMap, HashSet};
use std::hash::{Hash, Hasher};
use std::panic::{catch_unwind, AssertUnwindSafe};
use std::sync::{Arc, Mutex};
use std::time::Instant;
use yrs::types::text::YChange;
use yrs::types::{Attrs, ToJson};
use yrs::undo::UndoManager;
use yrs::updates::decoder::Decode;
use yrs::updates::encoder::Encode;
use yrs::{
    Any, Array, ArrayPrelim, ArrayRef, ClientID, Doc, GetString, IdSet, Map, MapPrelim, MapRef, Options, Out, ReadTxn, StateVector,
    Subscription, Text, TextRef, Transact, TransactionMut, Update,
};

pub const TARGETS: &str = "updlog | updlog_strict | updlog_peek";

/// `updlog_strict` switches the tolerance of (E4) off, `updlog_peek` adds a mid-transaction
/// `encode_update_v1()` call to the alphabet: both are diagnostic and EXPECTED to report.
pub fn is_target(target: &str) -> bool {
    matches!(target, "updlog" | "updlog_strict" | "updlog_peek")
}

/// Is this witness line one of ours?
pub fn owns(j: &J) -> bool {
    j.get("target").and_then(|t| t.as_str()).map(is_target).unwrap_or(false)
}

const EMITTER: u64 = 5;
const AUTHORS: [u64; 2] = [1, 9];
const FOLLOWERS: [u64; 2] = [9001, 9002];
const TEXT: &str = "t";
const SEQ: &str = "a";
const MAP: &str = "m";
const KEYS: [&str; 2] = ["k", "j"];
const NEST_KEY: &str = "n";
const BOLD: &str = "b";

// ---------------------------------------------------------------------------
// cases
// ---------------------------------------------------------------------------

#[derive(Clone, Copy, Debug, PartialEq, Eq, Hash)]
pub enum Pos {
    Start,
    Mid,
    End,
}

#[derive(Clone, Copy, Debug, PartialEq, Eq, Hash)]
pub enum Span {
    First,
    Last,
    All,
    Nothing,
}

#[derive(Clone, Copy, Debug, PartialEq, Eq, Hash)]
pub enum Host {
    Arr,
    Map,
}

#[derive(Clone, Debug, PartialEq, Eq, Hash)]
pub enum Op {
    /// `Text::insert` of `n` (0..=2) fresh characters at the start (needs 1 character), at `len / 2`
    /// (needs 2) or at the end.
    TIns { at: Pos, n: u32 },
    /// `Text::remove_range`: first character, last (needs 2), all (needs 2), `(0, 0)`.
    TDel { what: Span },
    /// `Text::format(range, {"b": true | null})`: all (needs 1), first / last (needs 2), `(0, 0)`.
    TFmt { span: Span, on: bool },
    /// `Array::insert(0, fresh)` (needs 1 element) / `Array::push_back(fresh)`.
    AIns { at: Pos },
    /// `Array::remove` of the first / last (needs 2) element, `remove_range(0, 0)`.
    ADel { what: Span },
    /// `Map::insert(KEYS[key], fresh number)`.
    MSet { key: usize },
    /// `Map::remove(KEYS[key])`, present or not.
    MDel { key: usize },
    /// A nested array / map pushed onto `a` resp. stored under `m["n"]` (no nested type visible yet).
    NNew { host: Host, map: bool },
    /// `push_back(fresh)` / `insert("x", fresh)` on the nested type.
    NPut,
    /// Removes the nested type from its host.
    NDrop,
    /// Diagnostic (`updlog_peek`): `TransactionMut::encode_update_v1()` in the middle of the transaction.
    Peek,
}

fn span_str(s: Span) -> &'static str {
    match s {
        Span::First => "first",
        Span::Last => "last",
        Span::All => "all",
        Span::Nothing => "nothing",
    }
}

fn span_of(j: &J, key: &str, what: &str) -> Result<Span, String> {
    match j.get(key).and_then(|a| a.as_str()) {
        Some("first") => Ok(Span::First),
        Some("last") => Ok(Span::Last),
        Some("all") => Ok(Span::All),
        Some("nothing") => Ok(Span::Nothing),
        _ => Err(format!("{}.{}: first | last | all | nothing", what, key)),
    }
}

impl Op {
    fn json(&self) -> J {
        let pos = |p: &Pos| {
            J::str(match p {
                Pos::Start => "start",
                Pos::Mid => "mid",
                Pos::End => "end",
            })
        };
        match self {
            Op::TIns { at, n } => J::obj(vec![("op", J::str("text_insert")), ("at", pos(at)), ("chars", J::num(*n))]),
            Op::TDel { what } => J::obj(vec![("op", J::str("text_remove")), ("what", J::str(span_str(*what)))]),
            Op::TFmt { span, on } => J::obj(vec![
                ("op", J::str("text_format")),
                ("span", J::str(span_str(*span))),
                ("bold", if *on { J::Bool(true) } else { J::Null }),
            ]),
            Op::AIns { at } => J::obj(vec![("op", J::str("array_insert")), ("at", pos(at))]),
            Op::ADel { what } => J::obj(vec![("op", J::str("array_remove")), ("what", J::str(span_str(*what)))]),
            Op::MSet { key } => J::obj(vec![("op", J::str("map_set")), ("key", J::str(KEYS[*key]))]),
            Op::MDel { key } => J::obj(vec![("op", J::str("map_remove")), ("key", J::str(KEYS[*key]))]),
            Op::NNew { host, map } => J::obj(vec![
                ("op", J::str("nested_new")),
                ("host", J::str(if *host == Host::Arr { "array" } else { "map" })),
                ("kind", J::str(if *map { "map" } else { "array" })),
            ]),
            Op::NPut => J::obj(vec![("op", J::str("nested_put"))]),
            Op::NDrop => J::obj(vec![("op", J::str("nested_drop"))]),
            Op::Peek => J::obj(vec![("op", J::str("peek_encode_update"))]),
        }
    }

    fn from_json(j: &J, what: &str) -> Result<Op, String> {
        let pos = || -> Result<Pos, String> {
            match j.get("at").and_then(|a| a.as_str()) {
                Some("start") => Ok(Pos::Start),
                Some("mid") => Ok(Pos::Mid),
                Some("end") => Ok(Pos::End),
                _ => Err(format!("{}.at: start | mid | end", what)),
            }
        };
        let key = || -> Result<usize, String> {
            let k = j.get("key").and_then(|k| k.as_str()).unwrap_or("");
            KEYS.iter().position(|n| *n == k).ok_or_else(|| format!("{}.key: k | j", what))
        };
        match j.get("op").and_then(|o| o.as_str()) {
            Some("text_insert") => {
                let n = j.get_non_null("chars").and_then(|n| n.as_i64()).unwrap_or(1);
                if !(0..=4).contains(&n) {
                    return Err(format!("{}.chars: 0..=4", what));
                }
                Ok(Op::TIns { at: pos()?, n: n as u32 })
            }
            Some("text_remove") => Ok(Op::TDel { what: span_of(j, "what", what)? }),
            Some("text_format") => {
                let on = match j.get("bold") {
                    Some(J::Bool(true)) => true,
                    Some(J::Null) | None => false,
                    _ => return Err(format!("{}.bold: true | null", what)),
                };
                Ok(Op::TFmt { span: span_of(j, "span", what)?, on })
            }
            Some("array_insert") => {
                let at = pos()?;
                if at == Pos::Mid {
                    return Err(format!("{}.at: start | end", what));
                }
                Ok(Op::AIns { at })
            }
            Some("array_remove") => {
                let w = span_of(j, "what", what)?;
                if w == Span::All {
                    return Err(format!("{}.what: first | last | nothing", what));
                }
                Ok(Op::ADel { what: w })
            }
            Some("map_set") => Ok(Op::MSet { key: key()? }),
            Some("map_remove") => Ok(Op::MDel { key: key()? }),
            Some("nested_new") => {
                let host = match j.get("host").and_then(|h| h.as_str()) {
                    Some("array") => Host::Arr,
                    Some("map") => Host::Map,
                    _ => return Err(format!("{}.host: array | map", what)),
                };
                let map = match j.get("kind").and_then(|h| h.as_str()) {
                    Some("array") => false,
                    Some("map") => true,
                    _ => return Err(format!("{}.kind: array | map", what)),
                };
                Ok(Op::NNew { host, map })
            }
            Some("nested_put") => Ok(Op::NPut),
            Some("nested_drop") => Ok(Op::NDrop),
            Some("peek_encode_update") => Ok(Op::Peek),
            _ => Err(format!(
                "{}.op: text_insert | text_remove | text_format | array_insert | array_remove | map_set | map_remove | nested_new | nested_put | nested_drop | peek_encode_update",
                what
            )),
        }
    }
}

/// Authors are numbered from 0 here, from 1 in the JSON.
#[derive(Clone, Debug, PartialEq, Eq, Hash)]
pub enum Step {
    Local { ops: Vec<Op> },
    Author { a: usize, ops: Vec<Op> },
    Pull { a: usize },
    Deliver { a: usize, seq: usize },
    Relay { a: usize },
    Undo,
    Redo,
    Gc,
}

impl Step {
    fn json(&self) -> J {
        let ops_json = |ops: &Vec<Op>| J::Arr(ops.iter().map(|o| o.json()).collect());
        match self {
            Step::Local { ops } => J::obj(vec![("step", J::str("local")), ("ops", ops_json(ops))]),
            Step::Author { a, ops } => J::obj(vec![("step", J::str("author")), ("author", J::Num(*a as i64 + 1)), ("ops", ops_json(ops))]),
            Step::Pull { a } => J::obj(vec![("step", J::str("pull")), ("author", J::Num(*a as i64 + 1))]),
            Step::Deliver { a, seq } => J::obj(vec![
                ("step", J::str("deliver")),
                ("update", J::Arr(vec![J::Num(*a as i64 + 1), J::Num(*seq as i64)])),
            ]),
            Step::Relay { a } => J::obj(vec![("step", J::str("relay")), ("author", J::Num(*a as i64 + 1))]),
            Step::Undo => J::obj(vec![("step", J::str("undo"))]),
            Step::Redo => J::obj(vec![("step", J::str("redo"))]),
            Step::Gc => J::obj(vec![("step", J::str("gc"))]),
        }
    }

    /// Is this a transaction of the emitter?
    fn on_emitter(&self) -> bool {
        !matches!(self, Step::Author { .. } | Step::Pull { .. })
    }
}

#[derive(Clone, Debug)]
pub struct Case {
    pub target: String,
    /// Name of the enumeration stage (informative).
    pub variant: String,
    pub authors: usize,
    /// Garbage collection on (`skip_gc = false`) on emitter, followers and authors.
    pub gc: bool,
    /// Author updates travel to the emitter in lib0 v2 (otherwise v1).
    pub v2: bool,
    /// An `UndoManager` is attached to the emitter.
    pub undo: bool,
    /// `cleanup_formatting` of the emitter (default of yrs: true).
    pub cleanup: bool,
    /// (E4) tolerates the re-emission described at `tolerated` (false: `updlog_strict`).
    pub tolerate: bool,
    pub steps: Vec<Step>,
}

impl Case {
    fn fields(&self, steps: &[Step]) -> Vec<(&'static str, J)> {
        let mut op = vec![
            ("kind", J::str("updlog")),
            ("emitter_client", J::Num(EMITTER as i64)),
            ("author_clients", J::Arr(AUTHORS[..self.authors].iter().map(|c| J::Num(*c as i64)).collect())),
            ("authors", J::Num(self.authors as i64)),
            ("gc", J::Bool(self.gc)),
            ("enc", J::str(if self.v2 { "v2" } else { "v1" })),
            ("undo_manager", J::Bool(self.undo)),
            ("cleanup_formatting", J::Bool(self.cleanup)),
        ];
        if !self.tolerate {
            op.push(("tolerate_reemission_behind_gap", J::Bool(false)));
        }
        op.push(("steps", J::Arr(steps.iter().map(|s| s.json()).collect())));
        vec![("target", J::str(&self.target)), ("variant", J::str(&self.variant)), ("op", J::obj(op))]
    }

    pub fn from_json(j: &J) -> Result<Case, String> {
        let target = j.get("target").and_then(|t| t.as_str()).unwrap_or("updlog").to_string();
        let variant = j.get("variant").and_then(|t| t.as_str()).unwrap_or("replay").to_string();
        let op = j.get("op").ok_or("op missing")?;
        let authors = match op.get_non_null("authors").map(|r| r.as_i64()) {
            None | Some(Some(1)) => 1usize,
            Some(Some(2)) => 2,
            _ => return Err("op.authors: 1 | 2".into()),
        };
        let flag = |key: &str, default: bool| -> Result<bool, String> {
            match op.get_non_null(key) {
                None => Ok(default),
                Some(J::Bool(b)) => Ok(*b),
                _ => Err(format!("op.{}: true | false", key)),
            }
        };
        let v2 = match op.get_non_null("enc").map(|e| e.as_str()) {
            None | Some(Some("v1")) => false,
            Some(Some("v2")) => true,
            _ => return Err("op.enc: v1 | v2".into()),
        };
        let author = |j: Option<&J>, what: &str| -> Result<usize, String> {
            match j.and_then(|v| v.as_i64()) {
                Some(n) if n >= 1 && n <= authors as i64 => Ok(n as usize - 1),
                _ => Err(format!("{}: expected an author in 1..={}", what, authors)),
            }
        };
        let ops_of = |st: &J, what: &str| -> Result<Vec<Op>, String> {
            let ops_j = st.get("ops").and_then(|o| o.as_arr()).ok_or_else(|| format!("{}.ops missing", what))?;
            let mut ops = Vec::new();
            for (k, o) in ops_j.iter().enumerate() {
                ops.push(Op::from_json(o, &format!("{}.ops[{}]", what, k))?);
            }
            Ok(ops)
        };
        let arr = op.get("steps").and_then(|s| s.as_arr()).ok_or("op.steps: expected an array")?;
        let mut steps = Vec::new();
        for (i, st) in arr.iter().enumerate() {
            let what = format!("op.steps[{}]", i);
            match st.get("step").and_then(|s| s.as_str()) {
                Some("local") => steps.push(Step::Local { ops: ops_of(st, &what)? }),
                Some("author") => steps.push(Step::Author {
                    a: author(st.get("author"), &format!("{}.author", what))?,
                    ops: ops_of(st, &what)?,
                }),
                Some("pull") => steps.push(Step::Pull {
                    a: author(st.get("author"), &format!("{}.author", what))?,
                }),
                Some("relay") => steps.push(Step::Relay {
                    a: author(st.get("author"), &format!("{}.author", what))?,
                }),
                Some("deliver") => {
                    let u = st.get("update").and_then(|u| u.as_arr()).ok_or_else(|| format!("{}.update: [author, number]", what))?;
                    if u.len() != 2 {
                        return Err(format!("{}.update: [author, number]", what));
                    }
                    let a = author(Some(&u[0]), &format!("{}.update[0]", what))?;
                    let seq = match u[1].as_i64() {
                        Some(n) if (0..64).contains(&n) => n as usize,
                        _ => return Err(format!("{}.update[1]: a sequence number", what)),
                    };
                    steps.push(Step::Deliver { a, seq });
                }
                Some("undo") => steps.push(Step::Undo),
                Some("redo") => steps.push(Step::Redo),
                Some("gc") => steps.push(Step::Gc),
                _ => return Err(format!("{}.step: local | author | pull | deliver | relay | undo | redo | gc", what)),
            }
        }
        Ok(Case {
            target,
            variant,
            authors,
            gc: flag("gc", true)?,
            v2,
            undo: flag("undo_manager", false)?,
            cleanup: flag("cleanup_formatting", true)?,
            tolerate: flag("tolerate_reemission_behind_gap", true)?,
            steps,
        })
    }
}

// ---------------------------------------------------------------------------
// id sets, rendering
// ---------------------------------------------------------------------------

/// A set of `client#clock`, kept by the tool itself.
type Ids = BTreeSet<(u64, u32)>;

fn ids_of(set: &IdSet, what: &str, api: &str) -> Result<Ids, Failure> {
    let mut out = Ids::new();
    for (client, ranges) in set.iter() {
        for r in ranges.iter() {
            if r.start >= r.end {
                continue;
            }
            if r.end - r.start > 4096 {
                return Err(fail(
                    &format!("{} names a range of ids that no replica of the history ever produced", what),
                    api,
                    J::str("ranges of a few clocks"),
                    J::Str(format!("client {} clocks {}..{}", client.get(), r.start, r.end)),
                ));
            }
            for k in r.start..r.end {
                out.insert((client.get(), k));
            }
        }
    }
    Ok(out)
}

/// `["1#0-2","9#1"]`
fn ids_json(s: &Ids) -> J {
    let mut out = Vec::new();
    let v: Vec<(u64, u32)> = s.iter().copied().collect();
    let mut i = 0;
    while i < v.len() {
        let (c, start) = v[i];
        let mut end = start;
        while i + 1 < v.len() && v[i + 1] == (c, end + 1) {
            end += 1;
            i += 1;
        }
        out.push(J::Str(if end == start { format!("{}#{}", c, start) } else { format!("{}#{}-{}", c, start, end) }));
        i += 1;
    }
    J::Arr(out)
}

fn minus(a: &Ids, b: &Ids) -> Ids {
    a.difference(b).copied().collect()
}

fn sv_pairs(sv: &StateVector) -> Vec<(u64, u32)> {
    let mut v: Vec<(u64, u32)> = sv.iter().map(|(c, k)| (c.get(), *k)).filter(|(_, k)| *k > 0).collect();
    v.sort();
    v
}

fn sv_json(sv: &[(u64, u32)]) -> J {
    J::Arr(sv.iter().map(|(c, k)| J::Arr(vec![J::Num(*c as i64), J::num(*k)])).collect())
}

fn bytes_json(b: &[u8]) -> J {
    J::Arr(b.iter().map(|x| J::num(*x)).collect())
}

fn shorten(s: String) -> String {
    if s.chars().count() > 1500 {
        let cut: String = s.chars().take(1500).collect();
        format!("{}...", cut)
    } else {
        s
    }
}

fn any_json(a: &Any) -> J {
    match a {
        Any::Null => J::Null,
        Any::Undefined => J::str("undefined"),
        Any::Bool(b) => J::Bool(*b),
        Any::Number(f) if f.fract() == 0.0 && f.abs() < 1e15 => J::Num(*f as i64),
        Any::Number(f) => J::Str(format!("{}", f)),
        Any::BigInt(n) => J::Num(*n),
        Any::String(s) => J::str(s),
        Any::Buffer(b) => bytes_json(b),
        Any::Array(items) => J::Arr(items.iter().map(any_json).collect()),
        Any::Map(m) => {
            let sorted: BTreeMap<&String, &Any> = m.iter().collect();
            J::Obj(sorted.into_iter().map(|(k, v)| (k.clone(), any_json(v))).collect())
        }
    }
}

fn out_json<T: ReadTxn>(txn: &T, o: &Out) -> J {
    match o {
        Out::Any(a) => any_json(a),
        Out::YArray(r) => any_json(&r.to_json(txn)),
        Out::YMap(r) => any_json(&r.to_json(txn)),
        Out::YText(r) => J::str(&r.get_string(txn)),
        _ => J::str("(another shared type)"),
    }
}

// ---------------------------------------------------------------------------
// replicas
// ---------------------------------------------------------------------------

struct Rep {
    client: u64,
    doc: Doc,
    text: TextRef,
    seq: ArrayRef,
    map: MapRef,
    /// Characters / numbers written so far.
    chars: u32,
    vals: u32,
}

type Log = Arc<Mutex<Vec<Vec<u8>>>>;

fn lock<T>(m: &Mutex<T>) -> std::sync::MutexGuard<'_, T> {
    m.lock().unwrap_or_else(|e| e.into_inner())
}

fn new_rep(client: u64, gc: bool, cleanup: bool) -> Rep {
    at("Doc::with_options");
    let options = Options {
        skip_gc: !gc,
        cleanup_formatting: cleanup,
        ..Options::with_client_id(ClientID::new(client))
    };
    let doc = Doc::with_options(options);
    at("Doc::get_or_insert_text / get_or_insert_array / get_or_insert_map");
    let text = doc.get_or_insert_text(TEXT);
    let seq = doc.get_or_insert_array(SEQ);
    let map = doc.get_or_insert_map(MAP);
    Rep {
        client,
        doc,
        text,
        seq,
        map,
        chars: 0,
        vals: 0,
    }
}

/// Both update streams of a document, recorded in emission order.
fn capture(doc: &Doc) -> Result<(Log, Log, Vec<Subscription>), Failure> {
    let (l1, l2): (Log, Log) = (Arc::new(Mutex::new(Vec::new())), Arc::new(Mutex::new(Vec::new())));
    at("Doc::observe_update_v1");
    let sink = l1.clone();
    let s1 = doc
        .observe_update_v1(move |_, e| lock(&sink).push(e.update.clone()))
        .map_err(|_| fail("the update observer cannot be attached", "Doc::observe_update_v1", J::str("Ok"), J::str("Err")))?;
    at("Doc::observe_update_v2");
    let sink = l2.clone();
    let s2 = doc
        .observe_update_v2(move |_, e| lock(&sink).push(e.update.clone()))
        .map_err(|_| fail("the update observer cannot be attached", "Doc::observe_update_v2", J::str("Ok"), J::str("Err")))?;
    Ok((l1, l2, vec![s1, s2]))
}

/// The character / number a replica writes next.
fn letter(client: u64, k: u32) -> Option<char> {
    if k >= 26 {
        return None;
    }
    let base = match client {
        EMITTER => b'a',
        1 => b'A',
        _ => b'!',
    };
    Some((base + k as u8) as char)
}

enum NestedRef {
    Arr(ArrayRef),
    Map(MapRef),
}

/// The nested type of a replica: the first shared type among the elements of `a`, else `m["n"]`.
fn find_nested<T: ReadTxn>(rep: &Rep, txn: &T) -> Option<(Host, u32, NestedRef)> {
    for (i, v) in rep.seq.iter(txn).enumerate() {
        match v {
            Out::YArray(r) => return Some((Host::Arr, i as u32, NestedRef::Arr(r))),
            Out::YMap(r) => return Some((Host::Arr, i as u32, NestedRef::Map(r))),
            _ => {}
        }
    }
    match rep.map.get(txn, NEST_KEY) {
        Some(Out::YArray(r)) => Some((Host::Map, 0, NestedRef::Arr(r))),
        Some(Out::YMap(r)) => Some((Host::Map, 0, NestedRef::Map(r))),
        _ => None,
    }
}

fn bold(on: bool) -> Attrs {
    let mut attrs: Attrs = HashMap::new();
    attrs.insert(BOLD.into(), if on { Any::Bool(true) } else { Any::Null });
    attrs
}

/// Everything a reader sees: text, text with formatting chunks, array, map.
fn content_json<T: ReadTxn>(rep: &Rep, txn: &T) -> J {
    at("Text::get_string");
    let text = rep.text.get_string(txn);
    at("Text::diff");
    let chunks: Vec<J> = rep
        .text
        .diff(txn, YChange::identity)
        .iter()
        .map(|d| {
            let mut fields = vec![("insert", out_json(txn, &d.insert))];
            if let Some(attrs) = &d.attributes {
                let sorted: BTreeMap<String, J> = attrs.iter().map(|(k, v)| (k.to_string(), any_json(v))).collect();
                fields.push(("attributes", J::Obj(sorted.into_iter().collect())));
            }
            J::obj(fields)
        })
        .collect();
    at("Array::to_json / Map::to_json");
    J::obj(vec![
        ("t", J::str(&text)),
        ("t_chunks", J::Arr(chunks)),
        ("a", any_json(&rep.seq.to_json(txn))),
        ("m", any_json(&rep.map.to_json(txn))),
    ])
}

/// A script that cannot be executed (replay of a hand-written case).
fn invalid(why: String) -> Failure {
    Failure {
        why: format!("invalid case: {}", why),
        expected: J::Null,
        actual: J::Null,
        api: "(none)".to_string(),
    }
}

fn is_invalid(f: &Failure) -> bool {
    f.why.starts_with("invalid case: ")
}

/// Runs `f` on an open read-write transaction; a panic inside leaves the transaction
/// un-dropped (its destructor commits, and a second panic while unwinding would abort).
fn with_txn<T>(doc: &Doc, origin: Option<&str>, f: impl FnOnce(&mut TransactionMut) -> T) -> T {
    let mut txn = match origin {
        Some(o) => doc.transact_mut_with(o),
        None => doc.transact_mut(),
    };
    match catch_unwind(AssertUnwindSafe(|| f(&mut txn))) {
        Ok(v) => {
            drop(txn); // commit; a panic here is a first panic and is caught by `guarded`
            v
        }
        Err(payload) => {
            std::mem::forget(txn);
            std::panic::resume_unwind(payload)
        }
    }
}

/// One operation inside an open transaction; `Err`: the operation cannot be executed here.
fn apply_op(rep: &mut Rep, txn: &mut TransactionMut, op: &Op) -> Result<(), String> {
    let mut fresh_number = |rep: &mut Rep| -> i64 {
        let v = rep.client as i64 * 1000 + rep.vals as i64;
        rep.vals += 1;
        v
    };
    match op {
        Op::TIns { at: p, n } => {
            let len = rep.text.len(txn);
            let index = match p {
                Pos::End => len,
                Pos::Start if len >= 1 && *n >= 1 => 0,
                Pos::Mid if len >= 2 && *n >= 1 => len / 2,
                _ => return Err("text_insert at start / mid needs 1 / 2 characters (and at least one to insert)".into()),
            };
            let mut chunk = String::new();
            for _ in 0..*n {
                chunk.push(letter(rep.client, rep.chars).ok_or("a replica writes at most 26 characters")?);
                rep.chars += 1;
            }
            at("Text::insert");
            rep.text.insert(txn, index, &chunk);
        }
        Op::TDel { what } => {
            let len = rep.text.len(txn);
            let (index, n) = match what {
                Span::First if len >= 1 => (0, 1),
                Span::Last if len >= 2 => (len - 1, 1),
                Span::All if len >= 2 => (0, len),
                Span::Nothing => (0, 0),
                _ => return Err("text_remove first / last / all needs 1 / 2 / 2 characters".into()),
            };
            at("Text::remove_range");
            rep.text.remove_range(txn, index, n);
        }
        Op::TFmt { span, on } => {
            let len = rep.text.len(txn);
            let (index, n) = match span {
                Span::All if len >= 1 => (0, len),
                Span::First if len >= 2 => (0, 1),
                Span::Last if len >= 2 => (len - 1, 1),
                Span::Nothing => (0, 0),
                _ => return Err("text_format all / first / last needs 1 / 2 / 2 characters".into()),
            };
            at("Text::format");
            rep.text.format(txn, index, n, bold(*on));
        }
        Op::AIns { at: p } => {
            let len = rep.seq.len(txn);
            let v = fresh_number(rep);
            match p {
                Pos::End => {
                    at("Array::push_back");
                    rep.seq.push_back(txn, v);
                }
                Pos::Start if len >= 1 => {
                    at("Array::insert");
                    rep.seq.insert(txn, 0, v);
                }
                _ => return Err("array_insert at start needs 1 element".into()),
            }
        }
        Op::ADel { what } => {
            let len = rep.seq.len(txn);
            match what {
                Span::First if len >= 1 => {
                    at("Array::remove");
                    rep.seq.remove(txn, 0);
                }
                Span::Last if len >= 2 => {
                    at("Array::remove");
                    rep.seq.remove(txn, len - 1);
                }
                Span::Nothing => {
                    at("Array::remove_range");
                    rep.seq.remove_range(txn, 0, 0);
                }
                _ => return Err("array_remove first / last needs 1 / 2 elements".into()),
            }
        }
        Op::MSet { key } => {
            let v = fresh_number(rep);
            at("Map::insert");
            rep.map.insert(txn, KEYS[*key], v);
        }
        Op::MDel { key } => {
            at("Map::remove");
            rep.map.remove(txn, KEYS[*key]);
        }
        Op::NNew { host, map } => {
            if find_nested(rep, txn).is_some() {
                return Err("nested_new: a nested type exists already".into());
            }
            match (host, map) {
                (Host::Arr, false) => {
                    at("Array::push_back(ArrayPrelim)");
                    rep.seq.push_back(txn, ArrayPrelim::default());
                }
                (Host::Arr, true) => {
                    at("Array::push_back(MapPrelim)");
                    rep.seq.push_back(txn, MapPrelim::default());
                }
                (Host::Map, false) => {
                    at("Map::insert(ArrayPrelim)");
                    rep.map.insert(txn, NEST_KEY, ArrayPrelim::default());
                }
                (Host::Map, true) => {
                    at("Map::insert(MapPrelim)");
                    rep.map.insert(txn, NEST_KEY, MapPrelim::default());
                }
            }
        }
        Op::NPut => {
            let nested = find_nested(rep, txn).ok_or("nested_put: no nested type")?;
            let v = fresh_number(rep);
            match nested.2 {
                NestedRef::Arr(r) => {
                    at("Array::push_back (nested)");
                    r.push_back(txn, v);
                }
                NestedRef::Map(r) => {
                    at("Map::insert (nested)");
                    r.insert(txn, "x", v);
                }
            }
        }
        Op::NDrop => {
            let (host, index, _) = find_nested(rep, txn).ok_or("nested_drop: no nested type")?;
            match host {
                Host::Arr => {
                    at("Array::remove (nested type)");
                    rep.seq.remove(txn, index);
                }
                Host::Map => {
                    at("Map::remove (nested type)");
                    rep.map.remove(txn, NEST_KEY);
                }
            }
        }
        Op::Peek => {
            at("TransactionMut::encode_update_v1 (inside the open transaction)");
            let _ = txn.encode_update_v1();
        }
    }
    Ok(())
}

/// One local transaction (origin none) made of `ops`.
fn run_ops(rep: &mut Rep, ops: &[Op], step_no: usize) -> Result<(), Failure> {
    let doc = rep.doc.clone();
    at("Doc::transact_mut");
    let r = with_txn(&doc, None, |txn| {
        for op in ops {
            apply_op(rep, txn, op)?;
        }
        at("TransactionMut::commit (local transaction)");
        Ok::<(), String>(())
    });
    r.map_err(|e| invalid(format!("step {}: {}", step_no, e)))
}

// ---------------------------------------------------------------------------
// observation
// ---------------------------------------------------------------------------

/// Everything observable about a replica.
#[derive(Clone, Debug, PartialEq)]
struct Obs {
    sv: Vec<(u64, u32)>,
    /// Ids of the blocks exported without the stash (`encode_diff_v1(&empty)`).
    integrated: Ids,
    /// `snapshot().delete_set`.
    ds: Ids,
    /// `encode_diff_v1(&empty)`.
    diff: Vec<u8>,
    pending: bool,
    pending_ds: bool,
    has_missing: bool,
    content: J,
}

impl Obs {
    fn json(&self) -> J {
        J::obj(vec![
            ("content", self.content.clone()),
            ("state_vector", sv_json(&self.sv)),
            ("delete_set", ids_json(&self.ds)),
            ("integrated", ids_json(&self.integrated)),
            ("has_missing_updates", J::Bool(self.has_missing)),
        ])
    }
}

fn decode1(bytes: &[u8]) -> Result<Update, String> {
    Update::decode_v1(bytes).map_err(|e| e.to_string())
}

fn decode2(bytes: &[u8]) -> Result<Update, String> {
    Update::decode_v2(bytes).map_err(|e| e.to_string())
}

fn observe(rep: &Rep) -> Result<Obs, Failure> {
    at("Doc::transact");
    let txn = rep.doc.transact();
    at("ReadTxn::state_vector");
    let sv = sv_pairs(&txn.state_vector());
    let api = "ReadTxn::encode_diff_v1(&empty)";
    at(api);
    let diff = txn.encode_diff_v1(&StateVector::default());
    let u = decode1(&diff).map_err(|e| {
        fail(
            "an update just encoded does not decode",
            api,
            J::str("Ok"),
            J::obj(vec![("client", J::Num(rep.client as i64)), ("error", J::str(&e)), ("bytes", bytes_json(&diff))]),
        )
    })?;
    let integrated = ids_of(&u.insertions(true), "the export of a replica", api)?;
    at("ReadTxn::snapshot");
    let ds = ids_of(&txn.snapshot().delete_set, "the delete set of a replica", "ReadTxn::snapshot")?;
    at("Store::pending_update / Store::pending_ds / ReadTxn::has_missing_updates");
    let pending = txn.store().pending_update().is_some();
    let pending_ds = txn.store().pending_ds().is_some();
    let has_missing = txn.has_missing_updates();
    let content = content_json(rep, &txn);
    Ok(Obs {
        sv,
        integrated,
        ds,
        diff,
        pending,
        pending_ds,
        has_missing,
        content,
    })
}

/// 128 bits from two differently salted SipHash states.
struct Fp(std::collections::hash_map::DefaultHasher, std::collections::hash_map::DefaultHasher);

impl Fp {
    fn new() -> Fp {
        let a = std::collections::hash_map::DefaultHasher::new();
        let mut b = std::collections::hash_map::DefaultHasher::new();
        b.write_u64(0x9e37_79b9_7f4a_7c15);
        Fp(a, b)
    }
    fn value(&self) -> u128 {
        ((self.0.finish() as u128) << 64) | self.1.finish() as u128
    }
}

impl Hasher for Fp {
    fn finish(&self) -> u64 {
        self.0.finish()
    }
    fn write(&mut self, bytes: &[u8]) {
        self.0.write(bytes);
        self.1.write(bytes);
    }
}

/// The export of a store after a fresh non-collecting document has applied it: block boundaries
/// are normalised (everything that can be squashed is squashed at commit).
fn normalised(diff: &[u8]) -> Result<Vec<u8>, String> {
    let u = decode1(diff)?;
    let fresh = new_rep(9100, false, false);
    with_txn(&fresh.doc, Some("normalise"), |txn| txn.apply_update(u)).map_err(|e| e.to_string())?;
    let txn = fresh.doc.transact();
    Ok(txn.encode_diff_v1(&StateVector::default()))
}

// ---------------------------------------------------------------------------
// the world
// ---------------------------------------------------------------------------

struct Author {
    rep: Rep,
    log1: Log,
    log2: Log,
    /// Captured updates of the local transactions: (v1, v2).
    updates: Vec<(Vec<u8>, Vec<u8>)>,
    _subs: Vec<Subscription>,
}

struct World<'a> {
    case: &'a Case,
    undo: Option<UndoManager<()>>,
    e: Rep,
    log1: Log,
    log2: Log,
    _subs: Vec<Subscription>,
    followers: Vec<Rep>,
    authors: Vec<Author>,
    /// A `gc` step ran: the stores of the followers are no longer comparable block by block.
    forced_gc: bool,
}

impl<'a> Drop for World<'a> {
    fn drop(&mut self) {
        // After a caught panic a transaction may have been leaked with the store locked; the
        // destructor of the UndoManager unsubscribes through that lock and would panic again (abort).
        if std::thread::panicking() {
            if let Some(u) = self.undo.take() {
                std::mem::forget(u);
            }
        }
    }
}

const API_STREAM_1: &str = "Doc::observe_update_v1 -> Update::decode_v1 -> TransactionMut::apply_update (follower of the v1 stream)";
const API_STREAM_2: &str = "Doc::observe_update_v2 -> Update::decode_v2 -> TransactionMut::apply_update (follower of the v2 stream)";

impl<'a> World<'a> {
    fn new(case: &'a Case) -> Result<World<'a>, Failure> {
        let e = new_rep(EMITTER, case.gc, case.cleanup);
        let (log1, log2, subs) = capture(&e.doc)?;
        let followers = vec![new_rep(FOLLOWERS[0], case.gc, false), new_rep(FOLLOWERS[1], case.gc, false)];
        let mut authors = Vec::new();
        for a in 0..case.authors {
            let rep = new_rep(AUTHORS[a], case.gc, true);
            let (l1, l2, s) = capture(&rep.doc)?;
            authors.push(Author {
                rep,
                log1: l1,
                log2: l2,
                updates: Vec::new(),
                _subs: s,
            });
        }
        let undo = if case.undo {
            at("UndoManager::with_options / expand_scope");
            // capture timeout 0: every tracked transaction is a stack item of its own (no wall clock in the result)
            let options = yrs::undo::Options {
                capture_timeout_millis: 0,
                ..Default::default()
            };
            let mut mgr: UndoManager<()> = UndoManager::with_options(options);
            mgr.expand_scope(&e.doc, &e.text);
            mgr.expand_scope(&e.doc, &e.seq);
            mgr.expand_scope(&e.doc, &e.map);
            Some(mgr)
        } else {
            None
        };
        Ok(World {
            case,
            undo,
            e,
            log1,
            log2,
            _subs: subs,
            followers,
            authors,
            forced_gc: false,
        })
    }

    fn author(&mut self, a: usize, step_no: usize) -> Result<&mut Author, Failure> {
        self.authors.get_mut(a).ok_or_else(|| invalid(format!("step {}: no author {}", step_no, a + 1)))
    }

    /// `check`: run the oracles on this step (the followers are fed in any case).
    fn step(&mut self, step: &Step, step_no: usize, check: bool) -> Result<(), Failure> {
        match step {
            Step::Author { a, ops } => {
                let au = self.author(*a, step_no)?;
                lock(&au.log1).clear();
                lock(&au.log2).clear();
                run_ops(&mut au.rep, ops, step_no)?;
                let v1: Vec<Vec<u8>> = std::mem::take(&mut *lock(&au.log1));
                let v2: Vec<Vec<u8>> = std::mem::take(&mut *lock(&au.log2));
                if v1.len() != v2.len() || v1.len() > 1 {
                    return Err(fail(
                        "a local transaction of an author announced more than one update, or not the same number in both encodings",
                        "Doc::observe_update_v1 / observe_update_v2 (author)",
                        J::obj(vec![("step", J::Num(step_no as i64)), ("updates_per_encoding", J::str("0 or 1, the same in v1 and v2"))]),
                        J::obj(vec![("v1", J::Num(v1.len() as i64)), ("v2", J::Num(v2.len() as i64))]),
                    ));
                }
                for (x, y) in v1.into_iter().zip(v2.into_iter()) {
                    au.updates.push((x, y));
                }
                Ok(())
            }
            Step::Pull { a } => {
                let api = "ReadTxn::encode_state_as_update_v1(&author state vector) -> TransactionMut::apply_update (author)";
                at(api);
                let sv = self.author(*a, step_no)?.rep.doc.transact().state_vector();
                let bytes = self.e.doc.transact().encode_state_as_update_v1(&sv);
                let u = decode1(&bytes).map_err(|e| {
                    fail("an update just encoded does not decode", api, J::str("Ok"), J::obj(vec![("error", J::str(&e)), ("bytes", bytes_json(&bytes))]))
                })?;
                let au = self.author(*a, step_no)?;
                with_txn(&au.rep.doc, Some("remote"), |txn| txn.apply_update(u))
                    .map_err(|e| fail("apply_update failed on an author", api, J::str("Ok"), J::str(&e.to_string())))?;
                // what an author emits while it applies remote content is not delivered to anybody
                lock(&au.log1).clear();
                lock(&au.log2).clear();
                Ok(())
            }
            _ => self.emitter_step(step, step_no, check),
        }
    }

    fn emitter_step(&mut self, step: &Step, step_no: usize, check: bool) -> Result<(), Failure> {
        let before = if check { Some(observe(&self.e)?) } else { None };
        lock(&self.log1).clear();
        lock(&self.log2).clear();
        // number of transactions the step runs on the emitter
        let mut txns = 1usize;
        let api: String;
        match step {
            Step::Local { ops } => {
                api = "Doc::transact_mut -> operations -> commit -> Doc::observe_update_v1 / observe_update_v2 callbacks".to_string();
                if self.case.target != "updlog_peek" && ops.contains(&Op::Peek) && self.case.variant != "replay" {
                    return Err(invalid("peek_encode_update belongs to the target updlog_peek".into()));
                }
                run_ops(&mut self.e, ops, step_no)?;
            }
            Step::Deliver { a, seq } => {
                let enc = if self.case.v2 { "v2" } else { "v1" };
                api = format!("Update::decode_{} -> TransactionMut::apply_update (emitter) -> commit -> Doc::observe_update_v1 / observe_update_v2 callbacks", enc);
                at(&api);
                let v2 = self.case.v2;
                let au = self.author(*a, step_no)?;
                let (b1, b2) = au
                    .updates
                    .get(*seq)
                    .ok_or_else(|| invalid(format!("step {}: author {} has no update {}", step_no, a + 1, seq)))?;
                let bytes = if v2 { b2.clone() } else { b1.clone() };
                let u = (if v2 { decode2(&bytes) } else { decode1(&bytes) }).map_err(|e| {
                    fail(
                        "the update announced for a local transaction of an author does not decode",
                        &api,
                        J::obj(vec![("step", J::Num(step_no as i64)), ("decodes", J::Bool(true))]),
                        J::obj(vec![("error", J::str(&e)), ("bytes", bytes_json(&bytes))]),
                    )
                })?;
                with_txn(&self.e.doc, Some("remote"), |txn| txn.apply_update(u)).map_err(|e| {
                    fail(
                        "apply_update failed on the emitter",
                        &api,
                        J::obj(vec![("step", J::Num(step_no as i64)), ("result", J::str("Ok"))]),
                        J::obj(vec![("error", J::str(&e.to_string())), ("bytes", bytes_json(&bytes))]),
                    )
                })?;
            }
            Step::Relay { a } => {
                let enc = if self.case.v2 { "v2" } else { "v1" };
                api = format!("ReadTxn::encode_state_as_update_{}(&emitter state vector) (author) -> TransactionMut::apply_update (emitter) -> commit -> update callbacks", enc);
                at(&api);
                let v2 = self.case.v2;
                let sv = self.e.doc.transact().state_vector();
                let au = self.author(*a, step_no)?;
                let bytes = {
                    let t = au.rep.doc.transact();
                    if v2 {
                        t.encode_state_as_update_v2(&sv)
                    } else {
                        t.encode_state_as_update_v1(&sv)
                    }
                };
                let u = (if v2 { decode2(&bytes) } else { decode1(&bytes) }).map_err(|e| {
                    fail("an update just encoded does not decode", &api, J::str("Ok"), J::obj(vec![("error", J::str(&e)), ("bytes", bytes_json(&bytes))]))
                })?;
                with_txn(&self.e.doc, Some("remote"), |txn| txn.apply_update(u))
                    .map_err(|e| fail("apply_update failed on the emitter", &api, J::str("Ok"), J::str(&e.to_string())))?;
            }
            Step::Undo | Step::Redo => {
                let undoing = matches!(step, Step::Undo);
                api = format!("UndoManager::{} -> commit -> update callbacks", if undoing { "undo_blocking" } else { "redo_blocking" });
                let mgr = self.undo.as_mut().ok_or_else(|| invalid(format!("step {}: no UndoManager attached", step_no)))?;
                let depth = |m: &UndoManager<()>| if undoing { m.undo_stack().len() } else { m.redo_stack().len() };
                let had = depth(mgr);
                at(&api);
                if undoing {
                    mgr.undo_blocking();
                } else {
                    mgr.redo_blocking();
                }
                // one transaction per popped stack item
                txns = had.saturating_sub(depth(mgr));
            }
            Step::Gc => {
                api = "TransactionMut::gc(None) -> commit -> update callbacks".to_string();
                at(&api);
                with_txn(&self.e.doc, None, |txn| txn.gc(None));
                self.forced_gc = true;
            }
            Step::Author { .. } | Step::Pull { .. } => unreachable!(),
        }
        let v1: Vec<Vec<u8>> = std::mem::take(&mut *lock(&self.log1));
        let v2: Vec<Vec<u8>> = std::mem::take(&mut *lock(&self.log2));
        let at_step = |what: &str| J::obj(vec![("step", J::Num(step_no as i64)), ("property", J::str(what))]);

        // the followers: each update, right away, in emission order
        let mut u1s = Vec::new();
        for bytes in &v1 {
            at(API_STREAM_1);
            let u = decode1(bytes).map_err(|e| {
                fail("an emitted v1 update does not decode", API_STREAM_1, at_step("every emitted update decodes"), J::obj(vec![("error", J::str(&e)), ("bytes", bytes_json(bytes))]))
            })?;
            with_txn(&self.followers[0].doc, Some("stream"), |txn| txn.apply_update(u)).map_err(|e| {
                fail("a follower cannot apply an emitted update", API_STREAM_1, at_step("apply_update is Ok"), J::obj(vec![("error", J::str(&e.to_string())), ("bytes", bytes_json(bytes))]))
            })?;
            if check {
                u1s.push(decode1(bytes).map_err(|e| invalid(e))?);
            }
        }
        let mut u2s = Vec::new();
        for bytes in &v2 {
            at(API_STREAM_2);
            let u = decode2(bytes).map_err(|e| {
                fail("an emitted v2 update does not decode", API_STREAM_2, at_step("every emitted update decodes"), J::obj(vec![("error", J::str(&e)), ("bytes", bytes_json(bytes))]))
            })?;
            with_txn(&self.followers[1].doc, Some("stream"), |txn| txn.apply_update(u)).map_err(|e| {
                fail("a follower cannot apply an emitted update", API_STREAM_2, at_step("apply_update is Ok"), J::obj(vec![("error", J::str(&e.to_string())), ("bytes", bytes_json(bytes))]))
            })?;
            if check {
                u2s.push(decode2(bytes).map_err(|e| invalid(e))?);
            }
        }
        let before = match before {
            Some(b) => b,
            None => return Ok(()),
        };
        let after = observe(&self.e)?;
        self.check_emission(step_no, &api, txns, &before, &after, (&v1, &v2), (&u1s, &u2s))?;
        self.check_followers(step_no, &api, &after)
    }
}
