//! Target `updlog` (property C07): the updates handed to the `observe_update_v1` /
//! `observe_update_v2` subscribers of a document form a complete, minimal replication log.
//!
//! HARNESS. An EMITTER document (client 5; `skip_gc` both ways, everything else default, so the
//! automatic formatting clean-up is ON) carries one `observe_update_v1` and one
//! `observe_update_v2` subscriber that record every emitted update in order. Two PASSIVE
//! followers (clients 9001 / 9002, `cleanup_formatting: false`, same `skip_gc`, no edits of their
//! own) are fed ONLY by the v1 stream resp. ONLY by the v2 stream: every update is applied right
//! after the emitter transaction that produced it, in emission order. One or two AUTHOR replicas
//! (clients 1 and 9: one below, one above the emitter) make edits of their own; their
//! per-transaction updates are captured and delivered to the emitter in any order, any number
//! of times. Root types: Text `t`, Array `a`, Map `m`; at most one nested type (element of `a`
//! or entry `n` of `m`).
//!
//! STEPS (`op.steps`):
//! * `local`   one local transaction of the emitter made of 0..k operations (origin none);
//! * `author`  one local transaction of an author (captured in v1 and v2; NOT an emitter transaction);
//! * `pull`    an author applies the emitter's `encode_state_as_update_v1(&author_sv)` (not an emitter transaction);
//! * `deliver` the emitter applies captured update `[author, number]` (origin "remote"): in order, out
//!             of order (same-sender reordering: blocks integrated behind a Skip, or stashed and
//!             re-integrated later), duplicates;
//! * `relay`   the emitter applies the author's `encode_state_as_update(&emitter_sv)`;
//! * `undo` / `redo` through an `UndoManager` (capture timeout 0) that tracks the three root types;
//! * `gc`      `TransactionMut::gc(None)` on the emitter.
//! OPERATIONS: text insert (start / mid / end; 0, 1 or 2 fresh characters), text removal (first /
//! last / all / nothing), `Text::format` of a range (all / first / last / nothing; bold on / bold
//! null), array insert / removal (also `remove_range(0, 0)`), map set / removal (also of an absent
//! key), creation of a nested array / map, insertion into it, its removal.
//!
//! ORACLES, checked after EVERY emitter transaction in `replay`, after the last step in `search`
//! (histories are enumerated breadth first, every prefix is a case of its own; the followers are
//! fed after every step in both modes). `integrated(d)` = the ids of the blocks `d` exports
//! without its stash (`encode_diff_v1(&empty)` -> `Update::insertions(true)`), `ds(d)` =
//! `snapshot().delete_set`; sets of ids are compared as plain sets of `client#clock` built by the
//! tool (no `IdSet` algebra of yrs involved).
//!  (E1) both followers EQUAL the emitter: text, text with formatting chunks (`Text::diff`),
//!       JSON of `a` and `m`, `state_vector()`, `ds`, `integrated`, and the store itself:
//!       `encode_diff_v1(&empty)` byte for byte (blocks, boundaries, origins, contents, deleted
//!       flags, delete set). If the bytes differ, both exports are applied to fresh non-collecting
//!       documents (which squash whatever can be squashed) and THEIR exports must be identical
//!       (block boundaries are no part of the property: `UndoManager` splits blocks without
//!       changing anything). Where the CONTENT of deleted blocks may legitimately differ - after a
//!       `gc` step (a collection no follower is told about) and with an `UndoManager` on a
//!       collecting emitter (it keeps the content of deleted blocks it may have to restore, the
//!       followers collect them) - the two exports must at least agree after both went through a
//!       fresh COLLECTING document (`World::contents_may_differ`).
//!       What the emitter has merely STASHED (pending update / pending delete set) is no part of
//!       any emitted update until it is integrated: `encode_diff_v1`, not
//!       `encode_state_as_update_v1`, is compared, and a follower must NEVER hold anything
//!       pending (`has_missing_updates()`, `pending_update()`, `pending_ds()`): every block of an
//!       emitted update was integrated by the emitter, so by induction its dependencies are in
//!       the follower.
//!  (E2) emission count: with `changed` = (`integrated` or `ds` of the emitter differ before /
//!       after the transaction; the state vector alone would miss blocks integrated behind a
//!       gap), exactly ONE update per encoding if `changed`, NONE otherwise (a transaction that
//!       only stashes, a duplicate, an empty transaction, removal of an absent key, insertion of
//!       nothing, an explicit collection); both encodings announce the same number. An `undo` /
//!       `redo` call may run several transactions (one per popped stack item): then at most one
//!       update per popped item, at least one if `changed`, none otherwise.
//!  (E3) the v1 and the v2 update of one transaction decode to the same `Update` (`==`, and equal
//!       `encode_v1()` and `encode_v2()` re-encodings).
//!  (E4) exactness of the emitted update against the emitter's state change (`new` =
//!       `integrated` after minus before, `newds` = `ds` after minus before):
//!       complete: `new` is carried; `newds` is in the update's delete set or names blocks the
//!       update carries as deleted / collected (`insertions(true)` minus `insertions(false)`);
//!       minimal: every carried block is in `new`, except the re-emission tolerated below; every
//!       id of the update's delete set is in `newds`.
//!
//! TOLERATED (see `World::tolerated`; `search updlog_strict` reports it): a transaction that
//! integrates a block of client `c` while `c` has a gap emits again the blocks of `c` that earlier
//! transactions integrated behind that gap (`encode_update` writes from the transaction's
//! before-state of `c` to the END of `c`'s block list). Over-sending, followers stay equal.
//! HISTORY (see K-GCSPLIT before `World`): the first runs found, on the then current tree, that a
//! receiver panicked on an update whose GC block begins with ids it lacks and continues with ids
//! it holds - and the tolerated re-emission produces such updates. Repaired in /repo (c9ef1ac);
//! nothing is excluded any more.
//! NOT PART OF `updlog` (`search updlog_peek` reports it): `TransactionMut::encode_update_v1()` /
//! `after_state()` called INSIDE an open transaction freeze the transaction's after-state
//! (`OnceCell`); blocks of a client the transaction had not yet written for at that moment are
//! missing from its update event, and a transaction that had written nothing yet and deletes
//! nothing emits no event at all (`[peek, text insert]`: the follower never sees the character).
//!
//! ENUMERATION (`stages`): breadth first over the number of steps (iterative deepening, all stages
//! in turn, so a witness is as short as possible), one execution per history; a history whose
//! final state (stores, stashes, captured updates, undo stacks of all documents) was reached
//! before in its stage is not extended again. `--universe N` = at most N+1 steps for the
//! delivery-order stage (one author, collecting, v1), N steps for most stages, N-1 for the
//! no-change alphabet, the multi-operation transactions and two of the nested variants.
//! Measured on the tree of 2026-09-26 (dev profile): universe 6: about 438 700 cases, 26 s (8 jobs; 48 s under load 18);
//! universe 7: about 1 947 500 cases, 142 s (16 jobs); nothing found. The counts of the two undo stages vary by a few cases from run to run:
//! `UndoManager` walks a `HashSet<ItemPtr>` (hashed by address) when it restores several items,
//! so their new clocks, hence the de-duplicated states, differ; the verdicts do not depend on it.

use crate::evt::{at, fail, finish, finish_replay, guarded, Found, Hunt, Stop, Tally};
use crate::json::J;
use crate::model::Failure;
use std::collections::{BTreeMap, BTreeSet, HashMap, HashSet};
use std::hash::{Hash, Hasher};
use std::panic::{catch_unwind, AssertUnwindSafe};
use std::sync::{Arc, Mutex};
use std::time::Instant;
use yrs::types::text::YChange;
use yrs::types::{Attrs, ToJson};
use yrs::undo::UndoManager;
use yrs::updates::decoder::Decode;
use yrs::updates::encoder::Encode;
use yrs::{
    Any, Array, ArrayPrelim, ArrayRef, ClientID, Doc, GetString, IdSet, Map, MapPrelim, MapRef, Options, Out, ReadTxn, StateVector,
    Subscription, Text, TextRef, Transact, TransactionMut, Update,
};

pub const TARGETS: &str = "updlog | updlog_strict | updlog_peek | updlog_gcsplit";

/// `updlog_strict` switches the tolerance of (E4) off, `updlog_peek` adds a mid-transaction
/// `encode_update_v1()` call to the alphabet: both are diagnostic and EXPECTED to report.
/// `updlog_gcsplit` is an alias of `updlog` (it used to switch off the exclusion of the defect
/// K-GCSPLIT, repaired since: see HISTORY below).
pub fn is_target(target: &str) -> bool {
    matches!(target, "updlog" | "updlog_strict" | "updlog_peek" | "updlog_gcsplit")
}

/// Is this witness line one of ours?
pub fn owns(j: &J) -> bool {
    j.get("target").and_then(|t| t.as_str()).map(is_target).unwrap_or(false)
}

const EMITTER: u64 = 5;
const AUTHORS: [u64; 2] = [1, 9];
const FOLLOWERS: [u64; 2] = [9001, 9002];
const TEXT: &str = "t";
const SEQ: &str = "a";
const MAP: &str = "m";
const KEYS: [&str; 2] = ["k", "j"];
const NEST_KEY: &str = "n";
const BOLD: &str = "b";

// ---------------------------------------------------------------------------
// cases
// ---------------------------------------------------------------------------

#[derive(Clone, Copy, Debug, PartialEq, Eq, Hash)]
pub enum Pos {
    Start,
    Mid,
    End,
}

#[derive(Clone, Copy, Debug, PartialEq, Eq, Hash)]
pub enum Span {
    First,
    Last,
    All,
    Nothing,
}

#[derive(Clone, Copy, Debug, PartialEq, Eq, Hash)]
pub enum Host {
    Arr,
    Map,
}

#[derive(Clone, Debug, PartialEq, Eq, Hash)]
pub enum Op {
    /// `Text::insert` of `n` (0..=2) fresh characters at the start (needs 1 character), at `len / 2`
    /// (needs 2) or at the end.
    TIns { at: Pos, n: u32 },
    /// `Text::remove_range`: first character, last (needs 2), all (needs 2), `(0, 0)`.
    TDel { what: Span },
    /// `Text::format(range, {"b": true | null})`: all (needs 1), first / last (needs 2), `(0, 0)`.
    TFmt { span: Span, on: bool },
    /// `Array::insert(0, fresh)` (needs 1 element) / `Array::push_back(fresh)`.
    AIns { at: Pos },
    /// `Array::remove` of the first / last (needs 2) element, `remove_range(0, 0)`.
    ADel { what: Span },
    /// `Map::insert(KEYS[key], fresh number)`.
    MSet { key: usize },
    /// `Map::remove(KEYS[key])`, present or not.
    MDel { key: usize },
    /// A nested array / map pushed onto `a` resp. stored under `m["n"]` (no nested type visible yet).
    NNew { host: Host, map: bool },
    /// `push_back(fresh)` / `insert("x", fresh)` on the nested type.
    NPut,
    /// Removes the nested type from its host.
    NDrop,
    /// Diagnostic (`updlog_peek`): `TransactionMut::encode_update_v1()` in the middle of the transaction.
    Peek,
}

fn span_str(s: Span) -> &'static str {
    match s {
        Span::First => "first",
        Span::Last => "last",
        Span::All => "all",
        Span::Nothing => "nothing",
    }
}

fn span_of(j: &J, key: &str, what: &str) -> Result<Span, String> {
    match j.get(key).and_then(|a| a.as_str()) {
        Some("first") => Ok(Span::First),
        Some("last") => Ok(Span::Last),
        Some("all") => Ok(Span::All),
        Some("nothing") => Ok(Span::Nothing),
        _ => Err(format!("{}.{}: first | last | all | nothing", what, key)),
    }
}

impl Op {
    fn json(&self) -> J {
        let pos = |p: &Pos| {
            J::str(match p {
                Pos::Start => "start",
                Pos::Mid => "mid",
                Pos::End => "end",
            })
        };
        match self {
            Op::TIns { at, n } => J::obj(vec![("op", J::str("text_insert")), ("at", pos(at)), ("chars", J::num(*n))]),
            Op::TDel { what } => J::obj(vec![("op", J::str("text_remove")), ("what", J::str(span_str(*what)))]),
            Op::TFmt { span, on } => J::obj(vec![
                ("op", J::str("text_format")),
                ("span", J::str(span_str(*span))),
                ("bold", if *on { J::Bool(true) } else { J::Null }),
            ]),
            Op::AIns { at } => J::obj(vec![("op", J::str("array_insert")), ("at", pos(at))]),
            Op::ADel { what } => J::obj(vec![("op", J::str("array_remove")), ("what", J::str(span_str(*what)))]),
            Op::MSet { key } => J::obj(vec![("op", J::str("map_set")), ("key", J::str(KEYS[*key]))]),
            Op::MDel { key } => J::obj(vec![("op", J::str("map_remove")), ("key", J::str(KEYS[*key]))]),
            Op::NNew { host, map } => J::obj(vec![
                ("op", J::str("nested_new")),
                ("host", J::str(if *host == Host::Arr { "array" } else { "map" })),
                ("kind", J::str(if *map { "map" } else { "array" })),
            ]),
            Op::NPut => J::obj(vec![("op", J::str("nested_put"))]),
            Op::NDrop => J::obj(vec![("op", J::str("nested_drop"))]),
            Op::Peek => J::obj(vec![("op", J::str("peek_encode_update"))]),
        }
    }

    fn from_json(j: &J, what: &str) -> Result<Op, String> {
        let pos = || -> Result<Pos, String> {
            match j.get("at").and_then(|a| a.as_str()) {
                Some("start") => Ok(Pos::Start),
                Some("mid") => Ok(Pos::Mid),
                Some("end") => Ok(Pos::End),
                _ => Err(format!("{}.at: start | mid | end", what)),
            }
        };
        let key = || -> Result<usize, String> {
            let k = j.get("key").and_then(|k| k.as_str()).unwrap_or("");
            KEYS.iter().position(|n| *n == k).ok_or_else(|| format!("{}.key: k | j", what))
        };
        match j.get("op").and_then(|o| o.as_str()) {
            Some("text_insert") => {
                let n = j.get_non_null("chars").and_then(|n| n.as_i64()).unwrap_or(1);
                if !(0..=4).contains(&n) {
                    return Err(format!("{}.chars: 0..=4", what));
                }
                Ok(Op::TIns { at: pos()?, n: n as u32 })
            }
            Some("text_remove") => Ok(Op::TDel { what: span_of(j, "what", what)? }),
            Some("text_format") => {
                let on = match j.get("bold") {
                    Some(J::Bool(true)) => true,
                    Some(J::Null) | None => false,
                    _ => return Err(format!("{}.bold: true | null", what)),
                };
                Ok(Op::TFmt { span: span_of(j, "span", what)?, on })
            }
            Some("array_insert") => {
                let at = pos()?;
                if at == Pos::Mid {
                    return Err(format!("{}.at: start | end", what));
                }
                Ok(Op::AIns { at })
            }
            Some("array_remove") => {
                let w = span_of(j, "what", what)?;
                if w == Span::All {
                    return Err(format!("{}.what: first | last | nothing", what));
                }
                Ok(Op::ADel { what: w })
            }
            Some("map_set") => Ok(Op::MSet { key: key()? }),
            Some("map_remove") => Ok(Op::MDel { key: key()? }),
            Some("nested_new") => {
                let host = match j.get("host").and_then(|h| h.as_str()) {
                    Some("array") => Host::Arr,
                    Some("map") => Host::Map,
                    _ => return Err(format!("{}.host: array | map", what)),
                };
                let map = match j.get("kind").and_then(|h| h.as_str()) {
                    Some("array") => false,
                    Some("map") => true,
                    _ => return Err(format!("{}.kind: array | map", what)),
                };
                Ok(Op::NNew { host, map })
            }
            Some("nested_put") => Ok(Op::NPut),
            Some("nested_drop") => Ok(Op::NDrop),
            Some("peek_encode_update") => Ok(Op::Peek),
            _ => Err(format!(
                "{}.op: text_insert | text_remove | text_format | array_insert | array_remove | map_set | map_remove | nested_new | nested_put | nested_drop | peek_encode_update",
                what
            )),
        }
    }
}

/// Authors are numbered from 0 here, from 1 in the JSON.
#[derive(Clone, Debug, PartialEq, Eq, Hash)]
pub enum Step {
    Local { ops: Vec<Op> },
    Author { a: usize, ops: Vec<Op> },
    Pull { a: usize },
    Deliver { a: usize, seq: usize },
    Relay { a: usize },
    Undo,
    Redo,
    Gc,
}

impl Step {
    fn json(&self) -> J {
        let ops_json = |ops: &Vec<Op>| J::Arr(ops.iter().map(|o| o.json()).collect());
        match self {
            Step::Local { ops } => J::obj(vec![("step", J::str("local")), ("ops", ops_json(ops))]),
            Step::Author { a, ops } => J::obj(vec![("step", J::str("author")), ("author", J::Num(*a as i64 + 1)), ("ops", ops_json(ops))]),
            Step::Pull { a } => J::obj(vec![("step", J::str("pull")), ("author", J::Num(*a as i64 + 1))]),
            Step::Deliver { a, seq } => J::obj(vec![
                ("step", J::str("deliver")),
                ("update", J::Arr(vec![J::Num(*a as i64 + 1), J::Num(*seq as i64)])),
            ]),
            Step::Relay { a } => J::obj(vec![("step", J::str("relay")), ("author", J::Num(*a as i64 + 1))]),
            Step::Undo => J::obj(vec![("step", J::str("undo"))]),
            Step::Redo => J::obj(vec![("step", J::str("redo"))]),
            Step::Gc => J::obj(vec![("step", J::str("gc"))]),
        }
    }

    /// Is this a transaction of the emitter?
    fn on_emitter(&self) -> bool {
        !matches!(self, Step::Author { .. } | Step::Pull { .. })
    }
}

#[derive(Clone, Debug)]
pub struct Case {
    pub target: String,
    /// Name of the enumeration stage (informative).
    pub variant: String,
    pub authors: usize,
    /// Garbage collection on (`skip_gc = false`) on emitter, followers and authors.
    pub gc: bool,
    /// Author updates travel to the emitter in lib0 v2 (otherwise v1).
    pub v2: bool,
    /// An `UndoManager` is attached to the emitter.
    pub undo: bool,
    /// `cleanup_formatting` of the emitter (default of yrs: true).
    pub cleanup: bool,
    /// (E4) tolerates the re-emission described at `tolerated` (false: `updlog_strict`).
    pub tolerate: bool,
    pub steps: Vec<Step>,
}

impl Case {
    fn fields(&self, steps: &[Step]) -> Vec<(&'static str, J)> {
        let mut op = vec![
            ("kind", J::str("updlog")),
            ("emitter_client", J::Num(EMITTER as i64)),
            ("author_clients", J::Arr(AUTHORS[..self.authors].iter().map(|c| J::Num(*c as i64)).collect())),
            ("authors", J::Num(self.authors as i64)),
            ("gc", J::Bool(self.gc)),
            ("enc", J::str(if self.v2 { "v2" } else { "v1" })),
            ("undo_manager", J::Bool(self.undo)),
            ("cleanup_formatting", J::Bool(self.cleanup)),
        ];
        if !self.tolerate {
            op.push(("tolerate_reemission_behind_gap", J::Bool(false)));
        }
        op.push(("steps", J::Arr(steps.iter().map(|s| s.json()).collect())));
        vec![("target", J::str(&self.target)), ("variant", J::str(&self.variant)), ("op", J::obj(op))]
    }

    pub fn from_json(j: &J) -> Result<Case, String> {
        let target = j.get("target").and_then(|t| t.as_str()).unwrap_or("updlog").to_string();
        let variant = j.get("variant").and_then(|t| t.as_str()).unwrap_or("replay").to_string();
        let op = j.get("op").ok_or("op missing")?;
        let authors = match op.get_non_null("authors").map(|r| r.as_i64()) {
            None | Some(Some(1)) => 1usize,
            Some(Some(2)) => 2,
            _ => return Err("op.authors: 1 | 2".into()),
        };
        let flag = |key: &str, default: bool| -> Result<bool, String> {
            match op.get_non_null(key) {
                None => Ok(default),
                Some(J::Bool(b)) => Ok(*b),
                _ => Err(format!("op.{}: true | false", key)),
            }
        };
        let v2 = match op.get_non_null("enc").map(|e| e.as_str()) {
            None | Some(Some("v1")) => false,
            Some(Some("v2")) => true,
            _ => return Err("op.enc: v1 | v2".into()),
        };
        let author = |j: Option<&J>, what: &str| -> Result<usize, String> {
            match j.and_then(|v| v.as_i64()) {
                Some(n) if n >= 1 && n <= authors as i64 => Ok(n as usize - 1),
                _ => Err(format!("{}: expected an author in 1..={}", what, authors)),
            }
        };
        let ops_of = |st: &J, what: &str| -> Result<Vec<Op>, String> {
            let ops_j = st.get("ops").and_then(|o| o.as_arr()).ok_or_else(|| format!("{}.ops missing", what))?;
            let mut ops = Vec::new();
            for (k, o) in ops_j.iter().enumerate() {
                ops.push(Op::from_json(o, &format!("{}.ops[{}]", what, k))?);
            }
            Ok(ops)
        };
        let arr = op.get("steps").and_then(|s| s.as_arr()).ok_or("op.steps: expected an array")?;
        let mut steps = Vec::new();
        for (i, st) in arr.iter().enumerate() {
            let what = format!("op.steps[{}]", i);
            match st.get("step").and_then(|s| s.as_str()) {
                Some("local") => steps.push(Step::Local { ops: ops_of(st, &what)? }),
                Some("author") => steps.push(Step::Author {
                    a: author(st.get("author"), &format!("{}.author", what))?,
                    ops: ops_of(st, &what)?,
                }),
                Some("pull") => steps.push(Step::Pull {
                    a: author(st.get("author"), &format!("{}.author", what))?,
                }),
                Some("relay") => steps.push(Step::Relay {
                    a: author(st.get("author"), &format!("{}.author", what))?,
                }),
                Some("deliver") => {
                    let u = st.get("update").and_then(|u| u.as_arr()).ok_or_else(|| format!("{}.update: [author, number]", what))?;
                    if u.len() != 2 {
                        return Err(format!("{}.update: [author, number]", what));
                    }
                    let a = author(Some(&u[0]), &format!("{}.update[0]", what))?;
                    let seq = match u[1].as_i64() {
                        Some(n) if (0..64).contains(&n) => n as usize,
                        _ => return Err(format!("{}.update[1]: a sequence number", what)),
                    };
                    steps.push(Step::Deliver { a, seq });
                }
                Some("undo") => steps.push(Step::Undo),
                Some("redo") => steps.push(Step::Redo),
                Some("gc") => steps.push(Step::Gc),
                _ => return Err(format!("{}.step: local | author | pull | deliver | relay | undo | redo | gc", what)),
            }
        }
        Ok(Case {
            target,
            variant,
            authors,
            gc: flag("gc", true)?,
            v2,
            undo: flag("undo_manager", false)?,
            cleanup: flag("cleanup_formatting", true)?,
            tolerate: flag("tolerate_reemission_behind_gap", true)?,
            steps,
        })
    }
}

// ---------------------------------------------------------------------------
// id sets, rendering
// ---------------------------------------------------------------------------

/// A set of `client#clock`, kept by the tool itself.
type Ids = BTreeSet<(u64, u32)>;

fn ids_of(set: &IdSet, what: &str, api: &str) -> Result<Ids, Failure> {
    let mut out = Ids::new();
    for (client, ranges) in set.iter() {
        for r in ranges.iter() {
            if r.start >= r.end {
                continue;
            }
            if r.end - r.start > 4096 {
                return Err(fail(
                    &format!("{} names a range of ids that no replica of the history ever produced", what),
                    api,
                    J::str("ranges of a few clocks"),
                    J::Str(format!("client {} clocks {}..{}", client.get(), r.start, r.end)),
                ));
            }
            for k in r.start..r.end {
                out.insert((client.get(), k));
            }
        }
    }
    Ok(out)
}

/// `["1#0-2","9#1"]`
fn ids_json(s: &Ids) -> J {
    let mut out = Vec::new();
    let v: Vec<(u64, u32)> = s.iter().copied().collect();
    let mut i = 0;
    while i < v.len() {
        let (c, start) = v[i];
        let mut end = start;
        while i + 1 < v.len() && v[i + 1] == (c, end + 1) {
            end += 1;
            i += 1;
        }
        out.push(J::Str(if end == start { format!("{}#{}", c, start) } else { format!("{}#{}-{}", c, start, end) }));
        i += 1;
    }
    J::Arr(out)
}

fn minus(a: &Ids, b: &Ids) -> Ids {
    a.difference(b).copied().collect()
}

fn sv_pairs(sv: &StateVector) -> Vec<(u64, u32)> {
    let mut v: Vec<(u64, u32)> = sv.iter().map(|(c, k)| (c.get(), *k)).filter(|(_, k)| *k > 0).collect();
    v.sort();
    v
}

fn sv_json(sv: &[(u64, u32)]) -> J {
    J::Arr(sv.iter().map(|(c, k)| J::Arr(vec![J::Num(*c as i64), J::num(*k)])).collect())
}

fn bytes_json(b: &[u8]) -> J {
    J::Arr(b.iter().map(|x| J::num(*x)).collect())
}

fn shorten(s: String) -> String {
    if s.chars().count() > 1500 {
        let cut: String = s.chars().take(1500).collect();
        format!("{}...", cut)
    } else {
        s
    }
}

fn any_json(a: &Any) -> J {
    match a {
        Any::Null => J::Null,
        Any::Undefined => J::str("undefined"),
        Any::Bool(b) => J::Bool(*b),
        Any::Number(f) if f.fract() == 0.0 && f.abs() < 1e15 => J::Num(*f as i64),
        Any::Number(f) => J::Str(format!("{}", f)),
        Any::BigInt(n) => J::Num(*n),
        Any::String(s) => J::str(s),
        Any::Buffer(b) => bytes_json(b),
        Any::Array(items) => J::Arr(items.iter().map(any_json).collect()),
        Any::Map(m) => {
            let sorted: BTreeMap<&String, &Any> = m.iter().collect();
            J::Obj(sorted.into_iter().map(|(k, v)| (k.clone(), any_json(v))).collect())
        }
    }
}

fn out_json<T: ReadTxn>(txn: &T, o: &Out) -> J {
    match o {
        Out::Any(a) => any_json(a),
        Out::YArray(r) => any_json(&r.to_json(txn)),
        Out::YMap(r) => any_json(&r.to_json(txn)),
        Out::YText(r) => J::str(&r.get_string(txn)),
        _ => J::str("(another shared type)"),
    }
}

// ---------------------------------------------------------------------------
// replicas
// ---------------------------------------------------------------------------

struct Rep {
    client: u64,
    doc: Doc,
    text: TextRef,
    seq: ArrayRef,
    map: MapRef,
    /// Characters / numbers written so far.
    chars: u32,
    vals: u32,
}

type Log = Arc<Mutex<Vec<Vec<u8>>>>;

fn lock<T>(m: &Mutex<T>) -> std::sync::MutexGuard<'_, T> {
    m.lock().unwrap_or_else(|e| e.into_inner())
}

fn new_rep(client: u64, gc: bool, cleanup: bool) -> Rep {
    at("Doc::with_options");
    let options = Options {
        skip_gc: !gc,
        cleanup_formatting: cleanup,
        ..Options::with_client_id(ClientID::new(client))
    };
    let doc = Doc::with_options(options);
    at("Doc::get_or_insert_text / get_or_insert_array / get_or_insert_map");
    let text = doc.get_or_insert_text(TEXT);
    let seq = doc.get_or_insert_array(SEQ);
    let map = doc.get_or_insert_map(MAP);
    Rep {
        client,
        doc,
        text,
        seq,
        map,
        chars: 0,
        vals: 0,
    }
}

/// Both update streams of a document, recorded in emission order.
fn capture(doc: &Doc) -> Result<(Log, Log, Vec<Subscription>), Failure> {
    let (l1, l2): (Log, Log) = (Arc::new(Mutex::new(Vec::new())), Arc::new(Mutex::new(Vec::new())));
    at("Doc::observe_update_v1");
    let sink = l1.clone();
    let s1 = doc
        .observe_update_v1(move |_, e| lock(&sink).push(e.update.clone()))
        .map_err(|_| fail("the update observer cannot be attached", "Doc::observe_update_v1", J::str("Ok"), J::str("Err")))?;
    at("Doc::observe_update_v2");
    let sink = l2.clone();
    let s2 = doc
        .observe_update_v2(move |_, e| lock(&sink).push(e.update.clone()))
        .map_err(|_| fail("the update observer cannot be attached", "Doc::observe_update_v2", J::str("Ok"), J::str("Err")))?;
    Ok((l1, l2, vec![s1, s2]))
}

/// The character / number a replica writes next.
fn letter(client: u64, k: u32) -> Option<char> {
    if k >= 26 {
        return None;
    }
    let base = match client {
        EMITTER => b'a',
        1 => b'A',
        _ => b'!',
    };
    Some((base + k as u8) as char)
}

enum NestedRef {
    Arr(ArrayRef),
    Map(MapRef),
}

/// The nested type of a replica: the first shared type among the elements of `a`, else `m["n"]`.
fn find_nested<T: ReadTxn>(rep: &Rep, txn: &T) -> Option<(Host, u32, NestedRef)> {
    for (i, v) in rep.seq.iter(txn).enumerate() {
        match v {
            Out::YArray(r) => return Some((Host::Arr, i as u32, NestedRef::Arr(r))),
            Out::YMap(r) => return Some((Host::Arr, i as u32, NestedRef::Map(r))),
            _ => {}
        }
    }
    match rep.map.get(txn, NEST_KEY) {
        Some(Out::YArray(r)) => Some((Host::Map, 0, NestedRef::Arr(r))),
        Some(Out::YMap(r)) => Some((Host::Map, 0, NestedRef::Map(r))),
        _ => None,
    }
}

fn bold(on: bool) -> Attrs {
    let mut attrs: Attrs = HashMap::new();
    attrs.insert(BOLD.into(), if on { Any::Bool(true) } else { Any::Null });
    attrs
}

/// Everything a reader sees: text, text with formatting chunks, array, map.
fn content_json<T: ReadTxn>(rep: &Rep, txn: &T) -> J {
    at("Text::get_string");
    let text = rep.text.get_string(txn);
    at("Text::diff");
    let chunks: Vec<J> = rep
        .text
        .diff(txn, YChange::identity)
        .iter()
        .map(|d| {
            let mut fields = vec![("insert", out_json(txn, &d.insert))];
            if let Some(attrs) = &d.attributes {
                let sorted: BTreeMap<String, J> = attrs.iter().map(|(k, v)| (k.to_string(), any_json(v))).collect();
                fields.push(("attributes", J::Obj(sorted.into_iter().collect())));
            }
            J::obj(fields)
        })
        .collect();
    at("Array::to_json / Map::to_json");
    J::obj(vec![
        ("t", J::str(&text)),
        ("t_chunks", J::Arr(chunks)),
        ("a", any_json(&rep.seq.to_json(txn))),
        ("m", any_json(&rep.map.to_json(txn))),
    ])
}

/// A script that cannot be executed (replay of a hand-written case).
fn invalid(why: String) -> Failure {
    Failure {
        why: format!("invalid case: {}", why),
        expected: J::Null,
        actual: J::Null,
        api: "(none)".to_string(),
    }
}

fn is_invalid(f: &Failure) -> bool {
    f.why.starts_with("invalid case: ")
}

/// Runs `f` on an open read-write transaction; a panic inside leaves the transaction
/// un-dropped (its destructor commits, and a second panic while unwinding would abort).
fn with_txn<T>(doc: &Doc, origin: Option<&str>, f: impl FnOnce(&mut TransactionMut) -> T) -> T {
    let mut txn = match origin {
        Some(o) => doc.transact_mut_with(o),
        None => doc.transact_mut(),
    };
    match catch_unwind(AssertUnwindSafe(|| f(&mut txn))) {
        Ok(v) => {
            drop(txn); // commit; a panic here is a first panic and is caught by `guarded`
            v
        }
        Err(payload) => {
            std::mem::forget(txn);
            std::panic::resume_unwind(payload)
        }
    }
}

/// One operation inside an open transaction; `Err`: the operation cannot be executed here.
fn apply_op(rep: &mut Rep, txn: &mut TransactionMut, op: &Op) -> Result<(), String> {
    let fresh_number = |rep: &mut Rep| -> i64 {
        let v = rep.client as i64 * 1000 + rep.vals as i64;
        rep.vals += 1;
        v
    };
    match op {
        Op::TIns { at: p, n } => {
            let len = rep.text.len(txn);
            let index = match p {
                Pos::End => len,
                Pos::Start if len >= 1 && *n >= 1 => 0,
                Pos::Mid if len >= 2 && *n >= 1 => len / 2,
                _ => return Err("text_insert at start / mid needs 1 / 2 characters (and at least one to insert)".into()),
            };
            let mut chunk = String::new();
            for _ in 0..*n {
                chunk.push(letter(rep.client, rep.chars).ok_or("a replica writes at most 26 characters")?);
                rep.chars += 1;
            }
            at("Text::insert");
            rep.text.insert(txn, index, &chunk);
        }
        Op::TDel { what } => {
            let len = rep.text.len(txn);
            let (index, n) = match what {
                Span::First if len >= 1 => (0, 1),
                Span::Last if len >= 2 => (len - 1, 1),
                Span::All if len >= 2 => (0, len),
                Span::Nothing => (0, 0),
                _ => return Err("text_remove first / last / all needs 1 / 2 / 2 characters".into()),
            };
            at("Text::remove_range");
            rep.text.remove_range(txn, index, n);
        }
        Op::TFmt { span, on } => {
            let len = rep.text.len(txn);
            let (index, n) = match span {
                Span::All if len >= 1 => (0, len),
                Span::First if len >= 2 => (0, 1),
                Span::Last if len >= 2 => (len - 1, 1),
                Span::Nothing => (0, 0),
                _ => return Err("text_format all / first / last needs 1 / 2 / 2 characters".into()),
            };
            at("Text::format");
            rep.text.format(txn, index, n, bold(*on));
        }
        Op::AIns { at: p } => {
            let len = rep.seq.len(txn);
            let v = fresh_number(rep);
            match p {
                Pos::End => {
                    at("Array::push_back");
                    rep.seq.push_back(txn, v);
                }
                Pos::Start if len >= 1 => {
                    at("Array::insert");
                    rep.seq.insert(txn, 0, v);
                }
                _ => return Err("array_insert at start needs 1 element".into()),
            }
        }
        Op::ADel { what } => {
            let len = rep.seq.len(txn);
            match what {
                Span::First if len >= 1 => {
                    at("Array::remove");
                    rep.seq.remove(txn, 0);
                }
                Span::Last if len >= 2 => {
                    at("Array::remove");
                    rep.seq.remove(txn, len - 1);
                }
                Span::Nothing => {
                    at("Array::remove_range");
                    rep.seq.remove_range(txn, 0, 0);
                }
                _ => return Err("array_remove first / last needs 1 / 2 elements".into()),
            }
        }
        Op::MSet { key } => {
            let v = fresh_number(rep);
            at("Map::insert");
            rep.map.insert(txn, KEYS[*key], v);
        }
        Op::MDel { key } => {
            at("Map::remove");
            rep.map.remove(txn, KEYS[*key]);
        }
        Op::NNew { host, map } => {
            if find_nested(rep, txn).is_some() {
                return Err("nested_new: a nested type exists already".into());
            }
            match (host, map) {
                (Host::Arr, false) => {
                    at("Array::push_back(ArrayPrelim)");
                    rep.seq.push_back(txn, ArrayPrelim::default());
                }
                (Host::Arr, true) => {
                    at("Array::push_back(MapPrelim)");
                    rep.seq.push_back(txn, MapPrelim::default());
                }
                (Host::Map, false) => {
                    at("Map::insert(ArrayPrelim)");
                    rep.map.insert(txn, NEST_KEY, ArrayPrelim::default());
                }
                (Host::Map, true) => {
                    at("Map::insert(MapPrelim)");
                    rep.map.insert(txn, NEST_KEY, MapPrelim::default());
                }
            }
        }
        Op::NPut => {
            let nested = find_nested(rep, txn).ok_or("nested_put: no nested type")?;
            let v = fresh_number(rep);
            match nested.2 {
                NestedRef::Arr(r) => {
                    at("Array::push_back (nested)");
                    r.push_back(txn, v);
                }
                NestedRef::Map(r) => {
                    at("Map::insert (nested)");
                    r.insert(txn, "x", v);
                }
            }
        }
        Op::NDrop => {
            let (host, index, _) = find_nested(rep, txn).ok_or("nested_drop: no nested type")?;
            match host {
                Host::Arr => {
                    at("Array::remove (nested type)");
                    rep.seq.remove(txn, index);
                }
                Host::Map => {
                    at("Map::remove (nested type)");
                    rep.map.remove(txn, NEST_KEY);
                }
            }
        }
        Op::Peek => {
            at("TransactionMut::encode_update_v1 (inside the open transaction)");
            let _ = txn.encode_update_v1();
        }
    }
    Ok(())
}

/// One local transaction (origin none) made of `ops`.
fn run_ops(rep: &mut Rep, ops: &[Op], step_no: usize) -> Result<(), Failure> {
    let doc = rep.doc.clone();
    at("Doc::transact_mut");
    let r = with_txn(&doc, None, |txn| {
        for op in ops {
            apply_op(rep, txn, op)?;
        }
        at("TransactionMut::commit (local transaction)");
        Ok::<(), String>(())
    });
    r.map_err(|e| invalid(format!("step {}: {}", step_no, e)))
}

// ---------------------------------------------------------------------------
// observation
// ---------------------------------------------------------------------------

/// Everything observable about a replica.
#[derive(Clone, Debug, PartialEq)]
struct Obs {
    sv: Vec<(u64, u32)>,
    /// Ids of the blocks exported without the stash (`encode_diff_v1(&empty)`).
    integrated: Ids,
    /// `snapshot().delete_set`.
    ds: Ids,
    /// `encode_diff_v1(&empty)`.
    diff: Vec<u8>,
    pending: bool,
    pending_ds: bool,
    has_missing: bool,
    content: J,
}

impl Obs {
    fn json(&self) -> J {
        J::obj(vec![
            ("content", self.content.clone()),
            ("state_vector", sv_json(&self.sv)),
            ("delete_set", ids_json(&self.ds)),
            ("integrated", ids_json(&self.integrated)),
            ("has_missing_updates", J::Bool(self.has_missing)),
        ])
    }
}

fn decode1(bytes: &[u8]) -> Result<Update, String> {
    Update::decode_v1(bytes).map_err(|e| e.to_string())
}

fn decode2(bytes: &[u8]) -> Result<Update, String> {
    Update::decode_v2(bytes).map_err(|e| e.to_string())
}

fn observe(rep: &Rep) -> Result<Obs, Failure> {
    at("Doc::transact");
    let txn = rep.doc.transact();
    at("ReadTxn::state_vector");
    let sv = sv_pairs(&txn.state_vector());
    let api = "ReadTxn::encode_diff_v1(&empty)";
    at(api);
    let diff = txn.encode_diff_v1(&StateVector::default());
    let u = decode1(&diff).map_err(|e| {
        fail(
            "an update just encoded does not decode",
            api,
            J::str("Ok"),
            J::obj(vec![("client", J::Num(rep.client as i64)), ("error", J::str(&e)), ("bytes", bytes_json(&diff))]),
        )
    })?;
    let integrated = ids_of(&u.insertions(true), "the export of a replica", api)?;
    at("ReadTxn::snapshot");
    let ds = ids_of(&txn.snapshot().delete_set, "the delete set of a replica", "ReadTxn::snapshot")?;
    at("Store::pending_update / Store::pending_ds / ReadTxn::has_missing_updates");
    let pending = txn.store().pending_update().is_some();
    let pending_ds = txn.store().pending_ds().is_some();
    let has_missing = txn.has_missing_updates();
    let content = content_json(rep, &txn);
    Ok(Obs {
        sv,
        integrated,
        ds,
        diff,
        pending,
        pending_ds,
        has_missing,
        content,
    })
}

/// 128 bits from two differently salted SipHash states.
struct Fp(std::collections::hash_map::DefaultHasher, std::collections::hash_map::DefaultHasher);

impl Fp {
    fn new() -> Fp {
        let a = std::collections::hash_map::DefaultHasher::new();
        let mut b = std::collections::hash_map::DefaultHasher::new();
        b.write_u64(0x9e37_79b9_7f4a_7c15);
        Fp(a, b)
    }
    fn value(&self) -> u128 {
        ((self.0.finish() as u128) << 64) | self.1.finish() as u128
    }
}

impl Hasher for Fp {
    fn finish(&self) -> u64 {
        self.0.finish()
    }
    fn write(&mut self, bytes: &[u8]) {
        self.0.write(bytes);
        self.1.write(bytes);
    }
}

/// The export of a store after a fresh non-collecting document has applied it: block boundaries
/// are normalised (everything that can be squashed is squashed at commit).
fn normalised(diff: &[u8], gc: bool) -> Result<Vec<u8>, String> {
    let u = decode1(diff)?;
    let fresh = new_rep(9100, gc, false);
    with_txn(&fresh.doc, Some("normalise"), |txn| txn.apply_update(u)).map_err(|e| e.to_string())?;
    let txn = fresh.doc.transact();
    Ok(txn.encode_diff_v1(&StateVector::default()))
}

// ---------------------------------------------------------------------------
// HISTORY: K-GCSPLIT (found by this target on the tree of 2026-09-26 12:40, repaired in /repo
// since: c9ef1ac "BlockSet::exclude shortens a GC or Skip block it splits"; found again when that
// repair is reverted)
// ---------------------------------------------------------------------------
//
// `apply_update` first cuts what the receiver already holds out of the incoming update
// (`BlockSet::exclude` -> `split_at` -> `Block::splice`). For a GC (and Skip) block
// `Block::splice(&self, offset)` returned the RIGHT part but left the LEFT part at its full length
// (only `Block::Item` is cut in place). A GC block `[a, b)` of which the receiver lacked the
// beginning and held a later part (possible only when the receiver holds ids behind a gap) was
// therefore integrated with its full length over a shorter Skip placeholder: `BlockStore::push`
// computed `skip.next_clock() - block.next_clock()` = "attempt to subtract with overflow" (dev
// profile; wraps in release). The update log produces such updates itself: the re-emission
// tolerated at `World::tolerated` sends the GC block a follower holds behind a gap once more,
// SQUASHED with the neighbouring ids the gap-filling transaction collected. Smallest history
// (stage `several_operations_gc`): an author creates a nested map with one entry (1#0, 1#1), then
// in ONE transaction overwrites the entry (1#2) and removes the nested map (its update carries GC
// 1#2 and the delete set 1#0-1); the emitter receives the second update first (Skip 0..2, GC 2;
// emitted as such, the followers hold it) and then the first one: it emits
// `[item 1#0 (deleted), GC 1..3]`, and a follower that holds `[Skip 0..2, GC 2]` panicked in
// `apply_update`. While the defect was open, histories that met exactly this shape were stopped
// and counted; since the repair nothing is excluded (`updlog_gcsplit` is an alias of `updlog`;
// the key `exclude_known_gc_split` of older witness lines is ignored).

// ---------------------------------------------------------------------------
// the world
// ---------------------------------------------------------------------------

struct Author {
    rep: Rep,
    log1: Log,
    log2: Log,
    /// Captured updates of the local transactions: (v1, v2).
    updates: Vec<(Vec<u8>, Vec<u8>)>,
    _subs: Vec<Subscription>,
}

struct World<'a> {
    case: &'a Case,
    undo: Option<UndoManager<()>>,
    e: Rep,
    log1: Log,
    log2: Log,
    _subs: Vec<Subscription>,
    followers: Vec<Rep>,
    authors: Vec<Author>,
    /// A `gc` step ran: the stores of the followers are no longer comparable block by block.
    forced_gc: bool,
}

impl<'a> Drop for World<'a> {
    fn drop(&mut self) {
        // After a caught panic a transaction may have been leaked with the store locked; the
        // destructor of the UndoManager unsubscribes through that lock and would panic again (abort).
        if std::thread::panicking() {
            if let Some(u) = self.undo.take() {
                std::mem::forget(u);
            }
        }
    }
}

const API_STREAM_1: &str = "Doc::observe_update_v1 -> Update::decode_v1 -> TransactionMut::apply_update (follower of the v1 stream)";
const API_STREAM_2: &str = "Doc::observe_update_v2 -> Update::decode_v2 -> TransactionMut::apply_update (follower of the v2 stream)";

impl<'a> World<'a> {
    fn new(case: &'a Case) -> Result<World<'a>, Failure> {
        let e = new_rep(EMITTER, case.gc, case.cleanup);
        let (log1, log2, subs) = capture(&e.doc)?;
        let followers = vec![new_rep(FOLLOWERS[0], case.gc, false), new_rep(FOLLOWERS[1], case.gc, false)];
        let mut authors = Vec::new();
        for a in 0..case.authors {
            let rep = new_rep(AUTHORS[a], case.gc, true);
            let (l1, l2, s) = capture(&rep.doc)?;
            authors.push(Author {
                rep,
                log1: l1,
                log2: l2,
                updates: Vec::new(),
                _subs: s,
            });
        }
        let undo = if case.undo {
            at("UndoManager::with_options / expand_scope");
            // capture timeout 0: every tracked transaction is a stack item of its own (no wall clock in the result)
            let options = yrs::undo::Options {
                capture_timeout_millis: 0,
                ..Default::default()
            };
            let mut mgr: UndoManager<()> = UndoManager::with_options(options);
            mgr.expand_scope(&e.doc, &e.text);
            mgr.expand_scope(&e.doc, &e.seq);
            mgr.expand_scope(&e.doc, &e.map);
            Some(mgr)
        } else {
            None
        };
        Ok(World {
            case,
            undo,
            e,
            log1,
            log2,
            _subs: subs,
            followers,
            authors,
            forced_gc: false,
        })
    }

    fn author(&mut self, a: usize, step_no: usize) -> Result<&mut Author, Failure> {
        self.authors.get_mut(a).ok_or_else(|| invalid(format!("step {}: no author {}", step_no, a + 1)))
    }

    /// `check`: run the oracles on this step (the followers are fed in any case).
    fn step(&mut self, step: &Step, step_no: usize, check: bool) -> Result<(), Failure> {
        match step {
            Step::Author { a, ops } => {
                let au = self.author(*a, step_no)?;
                lock(&au.log1).clear();
                lock(&au.log2).clear();
                run_ops(&mut au.rep, ops, step_no)?;
                let v1: Vec<Vec<u8>> = std::mem::take(&mut *lock(&au.log1));
                let v2: Vec<Vec<u8>> = std::mem::take(&mut *lock(&au.log2));
                if v1.len() != v2.len() || v1.len() > 1 {
                    return Err(fail(
                        "a local transaction of an author announced more than one update, or not the same number in both encodings",
                        "Doc::observe_update_v1 / observe_update_v2 (author)",
                        J::obj(vec![("step", J::Num(step_no as i64)), ("updates_per_encoding", J::str("0 or 1, the same in v1 and v2"))]),
                        J::obj(vec![("v1", J::Num(v1.len() as i64)), ("v2", J::Num(v2.len() as i64))]),
                    ));
                }
                for (x, y) in v1.into_iter().zip(v2.into_iter()) {
                    au.updates.push((x, y));
                }
                Ok(())
            }
            Step::Pull { a } => {
                let api = "ReadTxn::encode_state_as_update_v1(&author state vector) -> TransactionMut::apply_update (author)";
                at(api);
                let sv = self.author(*a, step_no)?.rep.doc.transact().state_vector();
                let bytes = self.e.doc.transact().encode_state_as_update_v1(&sv);
                let u = decode1(&bytes).map_err(|e| {
                    fail("an update just encoded does not decode", api, J::str("Ok"), J::obj(vec![("error", J::str(&e)), ("bytes", bytes_json(&bytes))]))
                })?;
                let au = self.author(*a, step_no)?;
                with_txn(&au.rep.doc, Some("remote"), |txn| txn.apply_update(u))
                    .map_err(|e| fail("apply_update failed on an author", api, J::str("Ok"), J::str(&e.to_string())))?;
                // what an author emits while it applies remote content is not delivered to anybody
                lock(&au.log1).clear();
                lock(&au.log2).clear();
                Ok(())
            }
            _ => self.emitter_step(step, step_no, check),
        }
    }

    fn emitter_step(&mut self, step: &Step, step_no: usize, check: bool) -> Result<(), Failure> {
        let before = if check { Some(observe(&self.e)?) } else { None };
        lock(&self.log1).clear();
        lock(&self.log2).clear();
        // number of transactions the step runs on the emitter
        let mut txns = 1usize;
        let api: String;
        match step {
            Step::Local { ops } => {
                api = "Doc::transact_mut -> operations -> commit -> Doc::observe_update_v1 / observe_update_v2 callbacks".to_string();
                run_ops(&mut self.e, ops, step_no)?;
            }
            Step::Deliver { a, seq } => {
                let enc = if self.case.v2 { "v2" } else { "v1" };
                api = format!("Update::decode_{} -> TransactionMut::apply_update (emitter) -> commit -> Doc::observe_update_v1 / observe_update_v2 callbacks", enc);
                at(&api);
                let v2 = self.case.v2;
                let au = self.author(*a, step_no)?;
                let (b1, b2) = au
                    .updates
                    .get(*seq)
                    .ok_or_else(|| invalid(format!("step {}: author {} has no update {}", step_no, a + 1, seq)))?;
                let bytes = if v2 { b2.clone() } else { b1.clone() };
                let u = (if v2 { decode2(&bytes) } else { decode1(&bytes) }).map_err(|e| {
                    fail(
                        "the update announced for a local transaction of an author does not decode",
                        &api,
                        J::obj(vec![("step", J::Num(step_no as i64)), ("decodes", J::Bool(true))]),
                        J::obj(vec![("error", J::str(&e)), ("bytes", bytes_json(&bytes))]),
                    )
                })?;
                with_txn(&self.e.doc, Some("remote"), |txn| txn.apply_update(u)).map_err(|e| {
                    fail(
                        "apply_update failed on the emitter",
                        &api,
                        J::obj(vec![("step", J::Num(step_no as i64)), ("result", J::str("Ok"))]),
                        J::obj(vec![("error", J::str(&e.to_string())), ("bytes", bytes_json(&bytes))]),
                    )
                })?;
            }
            Step::Relay { a } => {
                let enc = if self.case.v2 { "v2" } else { "v1" };
                api = format!("ReadTxn::encode_state_as_update_{}(&emitter state vector) (author) -> TransactionMut::apply_update (emitter) -> commit -> update callbacks", enc);
                at(&api);
                let v2 = self.case.v2;
                let sv = self.e.doc.transact().state_vector();
                let au = self.author(*a, step_no)?;
                let bytes = {
                    let t = au.rep.doc.transact();
                    if v2 {
                        t.encode_state_as_update_v2(&sv)
                    } else {
                        t.encode_state_as_update_v1(&sv)
                    }
                };
                let u = (if v2 { decode2(&bytes) } else { decode1(&bytes) }).map_err(|e| {
                    fail("an update just encoded does not decode", &api, J::str("Ok"), J::obj(vec![("error", J::str(&e)), ("bytes", bytes_json(&bytes))]))
                })?;
                with_txn(&self.e.doc, Some("remote"), |txn| txn.apply_update(u))
                    .map_err(|e| fail("apply_update failed on the emitter", &api, J::str("Ok"), J::str(&e.to_string())))?;
            }
            Step::Undo | Step::Redo => {
                let undoing = matches!(step, Step::Undo);
                api = format!("UndoManager::{} -> commit -> update callbacks", if undoing { "undo_blocking" } else { "redo_blocking" });
                let mgr = self.undo.as_mut().ok_or_else(|| invalid(format!("step {}: no UndoManager attached", step_no)))?;
                let depth = |m: &UndoManager<()>| if undoing { m.undo_stack().len() } else { m.redo_stack().len() };
                let had = depth(mgr);
                at(&api);
                if undoing {
                    mgr.undo_blocking();
                } else {
                    mgr.redo_blocking();
                }
                // one transaction per popped stack item
                txns = had.saturating_sub(depth(mgr));
            }
            Step::Gc => {
                api = "TransactionMut::gc(None) -> commit -> update callbacks".to_string();
                at(&api);
                with_txn(&self.e.doc, None, |txn| txn.gc(None));
                self.forced_gc = true;
            }
            Step::Author { .. } | Step::Pull { .. } => unreachable!(),
        }
        let v1: Vec<Vec<u8>> = std::mem::take(&mut *lock(&self.log1));
        let v2: Vec<Vec<u8>> = std::mem::take(&mut *lock(&self.log2));
        let at_step = |what: &str| J::obj(vec![("step", J::Num(step_no as i64)), ("property", J::str(what))]);
        if std::env::var_os("VX_ULOG_TRACE").is_some() {
            // debugging aid: what the emitter announced, what it holds
            for b in &v1 {
                eprintln!("step {}: emitted {:?}", step_no, decode1(b));
            }
            let t = self.e.doc.transact();
            eprintln!("step {}: emitter holds {:?}", step_no, decode1(&t.encode_diff_v1(&StateVector::default())));
            eprintln!("step {}: emitter stash {:?} pending ds {:?}", step_no, t.store().pending_update().map(|p| &p.update), t.store().pending_ds());
            let t = self.followers[0].doc.transact();
            eprintln!("step {}: follower held {:?}", step_no, decode1(&t.encode_diff_v1(&StateVector::default())));
        }

        // the followers: each update, right away, in emission order
        let mut u1s = Vec::new();
        for bytes in &v1 {
            at(API_STREAM_1);
            let u = decode1(bytes).map_err(|e| {
                fail("an emitted v1 update does not decode", API_STREAM_1, at_step("every emitted update decodes"), J::obj(vec![("error", J::str(&e)), ("bytes", bytes_json(bytes))]))
            })?;
            with_txn(&self.followers[0].doc, Some("stream"), |txn| txn.apply_update(u)).map_err(|e| {
                fail("a follower cannot apply an emitted update", API_STREAM_1, at_step("apply_update is Ok"), J::obj(vec![("error", J::str(&e.to_string())), ("bytes", bytes_json(bytes))]))
            })?;
            if check {
                u1s.push(decode1(bytes).map_err(|e| invalid(e))?);
            }
        }
        let mut u2s = Vec::new();
        for bytes in &v2 {
            at(API_STREAM_2);
            let u = decode2(bytes).map_err(|e| {
                fail("an emitted v2 update does not decode", API_STREAM_2, at_step("every emitted update decodes"), J::obj(vec![("error", J::str(&e)), ("bytes", bytes_json(bytes))]))
            })?;
            with_txn(&self.followers[1].doc, Some("stream"), |txn| txn.apply_update(u)).map_err(|e| {
                fail("a follower cannot apply an emitted update", API_STREAM_2, at_step("apply_update is Ok"), J::obj(vec![("error", J::str(&e.to_string())), ("bytes", bytes_json(bytes))]))
            })?;
            if check {
                u2s.push(decode2(bytes).map_err(|e| invalid(e))?);
            }
        }
        let before = match before {
            Some(b) => b,
            None => return Ok(()),
        };
        let after = observe(&self.e)?;
        self.check_emission(step_no, &api, txns, &before, &after, (&v1, &v2), (&u1s, &u2s))?;
        self.check_followers(step_no, &api, &after)
    }
}

// ---------------------------------------------------------------------------
// the oracles
// ---------------------------------------------------------------------------

impl<'a> World<'a> {
    /// (E4) TOLERATED re-emission. `TransactionMut::encode_update` writes, for every client the
    /// transaction integrated a block of, everything from the transaction's before-state of that
    /// client (the first gap of the client resp. the lowest clock integrated, whichever is lower)
    /// up to the END of the client's block list. A transaction that integrates a block of client
    /// `c` while `c` has a gap (it fills the gap, lands inside it or behind it) therefore emits
    /// again the blocks of `c` that earlier transactions integrated behind the gap. Receivers
    /// drop what they know, followers stay equal; it is over-sending, tolerated here in exactly
    /// this form: an id of client `c` that was integrated before, lies at or above the emitter's
    /// state-vector entry for `c` BEFORE the transaction (so: behind a gap), and `c` is a client
    /// this transaction integrated something new of. `updlog_strict` reports it.
    fn tolerated(&self, id: &(u64, u32), before: &Obs, new: &Ids) -> bool {
        if !self.case.tolerate {
            return false;
        }
        let first_gap = before.sv.iter().find(|(c, _)| *c == id.0).map(|(_, k)| *k).unwrap_or(0);
        id.1 >= first_gap && new.iter().any(|(c, _)| *c == id.0)
    }

    #[allow(clippy::too_many_arguments)]
    fn check_emission(
        &self,
        step_no: usize,
        api: &str,
        txns: usize,
        before: &Obs,
        after: &Obs,
        raw: (&Vec<Vec<u8>>, &Vec<Vec<u8>>),
        decoded: (&Vec<Update>, &Vec<Update>),
    ) -> Result<(), Failure> {
        let (v1, v2) = raw;
        let (u1s, u2s) = decoded;
        let new = minus(&after.integrated, &before.integrated);
        let newds = minus(&after.ds, &before.ds);
        let changed = !new.is_empty() || !newds.is_empty() || before.integrated != after.integrated || before.ds != after.ds;
        let change = || {
            J::obj(vec![
                ("blocks_integrated_by_the_transaction", ids_json(&new)),
                ("ids_deleted_by_the_transaction", ids_json(&newds)),
                ("content_before", before.content.clone()),
                ("content_after", after.content.clone()),
                ("state_vector_before", sv_json(&before.sv)),
                ("state_vector_after", sv_json(&after.sv)),
            ])
        };
        let emitted = |extra: Vec<(&str, J)>| {
            let mut f = vec![
                ("v1_updates", J::Num(v1.len() as i64)),
                ("v2_updates", J::Num(v2.len() as i64)),
                ("v1", J::Arr(u1s.iter().map(|u| J::Str(shorten(format!("{:?}", u)))).collect())),
            ];
            f.extend(extra);
            J::obj(f)
        };
        // (E2)
        let expected = |what: &str| J::obj(vec![("step", J::Num(step_no as i64)), ("property", J::str(what)), ("transaction", change())]);
        if v1.len() != v2.len() {
            return Err(fail(
                "the v1 and the v2 subscriber were handed a different number of updates",
                api,
                expected("the same number of updates in both encodings"),
                emitted(vec![]),
            ));
        }
        if !changed && !v1.is_empty() {
            return Err(fail(
                "a transaction that changed nothing (no block integrated, nothing deleted) emitted an update",
                api,
                expected("no update event"),
                emitted(vec![]),
            ));
        }
        if changed && v1.is_empty() {
            return Err(fail(
                "a transaction that integrated blocks or deleted something emitted no update",
                api,
                expected("exactly one update per encoding"),
                emitted(vec![]),
            ));
        }
        if v1.len() > txns.max(if changed { 1 } else { 0 }) {
            return Err(fail(
                "more updates were emitted than transactions were committed",
                api,
                expected(&format!("at most one update per encoding and transaction ({} transaction(s))", txns)),
                emitted(vec![]),
            ));
        }
        // (E3)
        for (i, (a, b)) in u1s.iter().zip(u2s.iter()).enumerate() {
            at("Update::eq / Update::encode_v1 / Update::encode_v2");
            let same = a == b && a.encode_v1() == b.encode_v1() && a.encode_v2() == b.encode_v2();
            if !same {
                return Err(fail(
                    "the v1 and the v2 update of one transaction do not decode to the same Update",
                    api,
                    expected("Update::decode_v1(v1 event) == Update::decode_v2(v2 event), with equal re-encodings"),
                    J::obj(vec![
                        ("update_number", J::Num(i as i64)),
                        ("from_v1", J::Str(shorten(format!("{:?}", a)))),
                        ("from_v2", J::Str(shorten(format!("{:?}", b)))),
                        ("v1_bytes", bytes_json(&v1[i])),
                        ("v2_bytes", bytes_json(&v2[i])),
                    ]),
                ));
            }
        }
        // (E4)
        let mut carried = Ids::new();
        let mut carried_live = Ids::new();
        let mut carried_ds = Ids::new();
        for u in u1s.iter() {
            carried.extend(ids_of(&u.insertions(true), "an emitted update", api)?);
            carried_live.extend(ids_of(&u.insertions(false), "an emitted update", api)?);
            carried_ds.extend(ids_of(u.delete_set(), "the delete set of an emitted update", api)?);
        }
        let lost = minus(&new, &carried);
        if !lost.is_empty() {
            return Err(fail(
                "the emitted update does not carry every block the transaction integrated",
                api,
                expected("complete: the update carries the blocks the transaction integrated"),
                emitted(vec![("carried", ids_json(&carried)), ("missing", ids_json(&lost))]),
            ));
        }
        // (a block that travels as deleted / collected needs no entry in the delete set)
        let lost_ds: Ids = newds
            .iter()
            .filter(|id| !carried_ds.contains(id) && !(carried.contains(id) && !carried_live.contains(id)))
            .copied()
            .collect();
        if !lost_ds.is_empty() {
            return Err(fail(
                "the emitted update does not tell every deletion the transaction made",
                api,
                expected("complete: every id the transaction deleted is in the update's delete set (or names a block the update carries as deleted)"),
                emitted(vec![("delete_set", ids_json(&carried_ds)), ("missing", ids_json(&lost_ds))]),
            ));
        }
        let extra: Ids = carried.iter().filter(|id| !new.contains(id) && !self.tolerated(id, before, &new)).copied().collect();
        if !extra.is_empty() {
            return Err(fail(
                "the emitted update carries blocks the transaction did not integrate (not minimal)",
                api,
                expected("minimal: every block of the update was integrated by this transaction"),
                emitted(vec![("carried", ids_json(&carried)), ("not_integrated_by_this_transaction", ids_json(&extra))]),
            ));
        }
        let extra_ds = minus(&carried_ds, &newds);
        if !extra_ds.is_empty() {
            return Err(fail(
                "the delete set of the emitted update names ids the transaction did not delete (not minimal)",
                api,
                expected("minimal: every id of the update's delete set was deleted by this transaction"),
                emitted(vec![("delete_set", ids_json(&carried_ds)), ("not_deleted_by_this_transaction", ids_json(&extra_ds))]),
            ));
        }
        Ok(())
    }

    /// The contents of DELETED blocks need not agree between emitter and followers: after a `gc`
    /// step (a collection no follower is told about), and when an `UndoManager` is attached to a
    /// collecting emitter (it keeps the content of deleted blocks it may have to restore, the
    /// followers collect them). The stores are then compared after both exports went through a
    /// fresh COLLECTING document.
    fn contents_may_differ(&self) -> bool {
        self.forced_gc || (self.case.undo && self.case.gc)
    }

    /// (E1)
    fn check_followers(&self, step_no: usize, api: &str, emitter: &Obs) -> Result<(), Failure> {
        for (i, f) in self.followers.iter().enumerate() {
            let stream = if i == 0 { API_STREAM_1 } else { API_STREAM_2 };
            let name = if i == 0 { "v1" } else { "v2" };
            let o = observe(f)?;
            let report = |why: &str| -> Failure {
                fail(
                    &format!("{} (follower of the {} stream)", why, name),
                    &format!("{} | {}", api, stream),
                    J::obj(vec![
                        ("step", J::Num(step_no as i64)),
                        ("property", J::str("the follower equals the emitter after every transaction")),
                        ("emitter", emitter.json()),
                    ]),
                    J::obj(vec![("follower", o.json())]),
                )
            };
            if o.pending || o.pending_ds || o.has_missing {
                return Err(report("a follower that applied every emitted update in order holds pending content"));
            }
            if o.content != emitter.content {
                return Err(report("the content of a follower differs from the emitter's"));
            }
            if o.sv != emitter.sv {
                return Err(report("the state vector of a follower differs from the emitter's"));
            }
            if o.ds != emitter.ds {
                return Err(report("the delete set of a follower differs from the emitter's"));
            }
            if o.integrated != emitter.integrated {
                return Err(report("a follower does not hold the same blocks as the emitter"));
            }
            if o.diff != emitter.diff {
                // block boundaries are no part of the property
                let (a, b) = (normalised(&emitter.diff, false), normalised(&o.diff, false));
                let mut same = a.is_ok() && a == b;
                if !same && self.contents_may_differ() {
                    // the emitter may hold the content of deleted blocks the followers have
                    // collected (or the other way round): compare what is left after collection
                    let (a, b) = (normalised(&emitter.diff, true), normalised(&o.diff, true));
                    same = a.is_ok() && a == b;
                }
                if !same {
                    let show = |d: &[u8]| match decode1(d) {
                        Ok(u) => J::Str(shorten(format!("{:?}", u))),
                        Err(e) => J::Str(e),
                    };
                    return Err(fail(
                        &format!("the store of a follower differs from the emitter's (follower of the {} stream)", name),
                        &format!("{} | {}", api, stream),
                        J::obj(vec![
                            ("step", J::Num(step_no as i64)),
                            ("property", J::str("encode_diff_v1(&empty) of follower and emitter are equal (up to block boundaries)")),
                            ("emitter", show(&emitter.diff)),
                            ("emitter_bytes", bytes_json(&emitter.diff)),
                        ]),
                        J::obj(vec![("follower", show(&o.diff)), ("follower_bytes", bytes_json(&o.diff))]),
                    ));
                }
            }
        }
        Ok(())
    }
}

// ---------------------------------------------------------------------------
// execution
// ---------------------------------------------------------------------------

#[derive(Clone, Debug, Default)]
struct Lens {
    text: u32,
    arr: u32,
    keys: [bool; 2],
    nested: bool,
    chars: u32,
}

/// What a passing run tells about the final state (needed to extend the history).
#[derive(Clone, Debug, Default)]
pub struct Info {
    /// Emitter, then the authors.
    lens: Vec<Lens>,
    /// Captured updates per author.
    updates: Vec<usize>,
    can_undo: bool,
    can_redo: bool,
    fingerprint: u128,
}

fn lens_of(rep: &Rep) -> Lens {
    let txn = rep.doc.transact();
    Lens {
        text: rep.text.len(&txn),
        arr: rep.seq.len(&txn),
        keys: [rep.map.get(&txn, KEYS[0]).is_some(), rep.map.get(&txn, KEYS[1]).is_some()],
        nested: find_nested(rep, &txn).is_some(),
        chars: rep.chars,
    }
}

fn hash_rep(rep: &Rep, fp: &mut Fp) {
    let txn = rep.doc.transact();
    // the store, the stash, what the stash waits for
    txn.encode_diff_v1(&StateVector::default()).hash(fp);
    let store = txn.store();
    match store.pending_update() {
        Some(p) => {
            p.update.encode_v1().hash(fp);
            sv_pairs(&p.missing).hash(fp);
        }
        None => 0u8.hash(fp),
    }
    match store.pending_ds() {
        Some(d) => d.encode_v1().hash(fp),
        None => 0u8.hash(fp),
    }
    rep.chars.hash(fp);
    rep.vals.hash(fp);
}

/// Runs the case. `thorough` (replay): all checks after every emitter transaction; otherwise
/// (search) after the last step only - every prefix is a case of its own.
fn execute(case: &Case, thorough: bool, need_info: bool) -> Result<Info, (usize, Failure)> {
    let mut done = 0usize;
    let r = guarded(|| {
        let mut w = World::new(case)?;
        let last = case.steps.len();
        for (i, step) in case.steps.iter().enumerate() {
            done = i + 1;
            w.step(step, i + 1, thorough || i + 1 == last)?;
        }
        let mut info = Info::default();
        if need_info {
            let mut fp = Fp::new();
            hash_rep(&w.e, &mut fp);
            info.lens.push(lens_of(&w.e));
            for f in &w.followers {
                hash_rep(f, &mut fp);
            }
            for a in &w.authors {
                hash_rep(&a.rep, &mut fp);
                info.lens.push(lens_of(&a.rep));
                info.updates.push(a.updates.len());
                for (x, _) in &a.updates {
                    x.hash(&mut fp);
                }
            }
            w.forced_gc.hash(&mut fp);
            if let Some(m) = &w.undo {
                info.can_undo = m.can_undo();
                info.can_redo = m.can_redo();
                for stack in [m.undo_stack(), m.redo_stack()] {
                    stack.len().hash(&mut fp);
                    for item in stack {
                        item.insertions().encode_v1().hash(&mut fp);
                        item.deletions().encode_v1().hash(&mut fp);
                    }
                }
            }
            info.fingerprint = fp.value();
        }
        Ok(info)
    });
    r.map_err(|f| (done, f))
}

// ---------------------------------------------------------------------------
// enumeration
// ---------------------------------------------------------------------------

struct Stage {
    name: &'static str,
    authors: usize,
    gc: bool,
    v2: bool,
    undo: bool,
    /// Local transactions of the emitter / of an author.
    local: Vec<Vec<Op>>,
    author: Vec<Vec<Op>>,
    pull: bool,
    relay: bool,
    gc_step: bool,
    depth: usize,
    max_local: usize,
    max_author: usize,
}

fn ops_valid(ops: &[Op], lens: &Lens) -> bool {
    let mut l = lens.clone();
    for op in ops {
        match op {
            Op::TIns { at, n } => {
                match at {
                    Pos::Start if l.text < 1 || *n == 0 => return false,
                    Pos::Mid if l.text < 2 || *n == 0 => return false,
                    _ => {}
                }
                if l.chars + n > 26 {
                    return false;
                }
                l.text += n;
                l.chars += n;
            }
            Op::TDel { what } => match what {
                Span::First if l.text >= 1 => l.text -= 1,
                Span::Last if l.text >= 2 => l.text -= 1,
                Span::All if l.text >= 2 => l.text = 0,
                Span::Nothing => {}
                _ => return false,
            },
            Op::TFmt { span, .. } => match span {
                Span::All if l.text >= 1 => {}
                Span::First | Span::Last if l.text >= 2 => {}
                Span::Nothing => {}
                _ => return false,
            },
            Op::AIns { at } => {
                if *at == Pos::Start && l.arr < 1 {
                    return false;
                }
                l.arr += 1;
            }
            // (the removed element may be the nested type: `nested` is then stale, the run decides)
            Op::ADel { what } => match what {
                Span::First if l.arr >= 1 => l.arr -= 1,
                Span::Last if l.arr >= 2 => l.arr -= 1,
                Span::Nothing => {}
                _ => return false,
            },
            Op::MSet { key } => l.keys[*key] = true,
            Op::MDel { key } => l.keys[*key] = false,
            Op::NNew { host, .. } => {
                if l.nested {
                    return false;
                }
                l.nested = true;
                if *host == Host::Arr {
                    l.arr += 1;
                }
            }
            Op::NPut => {
                if !l.nested {
                    return false;
                }
            }
            Op::NDrop => {
                if !l.nested {
                    return false;
                }
                l.nested = false;
            }
            Op::Peek => {}
        }
    }
    true
}

impl Stage {
    fn children(&self, steps: &[Step], info: &Info) -> Vec<Step> {
        let mut out = Vec::new();
        let locals = steps.iter().filter(|s| matches!(s, Step::Local { .. })).count();
        let authored = steps.iter().filter(|s| matches!(s, Step::Author { .. })).count();
        if authored < self.max_author {
            for a in 0..self.authors {
                for ops in &self.author {
                    if ops_valid(ops, &info.lens[1 + a]) {
                        out.push(Step::Author { a, ops: ops.clone() });
                    }
                }
            }
        }
        if locals < self.max_local {
            for ops in &self.local {
                if ops_valid(ops, &info.lens[0]) {
                    out.push(Step::Local { ops: ops.clone() });
                }
            }
        }
        for a in 0..self.authors {
            for seq in 0..info.updates[a] {
                out.push(Step::Deliver { a, seq });
            }
        }
        for a in 0..self.authors {
            if self.pull {
                out.push(Step::Pull { a });
            }
            if self.relay {
                out.push(Step::Relay { a });
            }
        }
        if self.undo {
            if info.can_undo {
                out.push(Step::Undo);
            }
            if info.can_redo {
                out.push(Step::Redo);
            }
        }
        if self.gc_step {
            out.push(Step::Gc);
        }
        out
    }
}

fn t_end(n: u32) -> Vec<Op> {
    vec![Op::TIns { at: Pos::End, n }]
}
fn one(op: Op) -> Vec<Op> {
    vec![op]
}

fn stages(target: &str, universe: u32) -> Vec<Stage> {
    let u = universe.clamp(1, 10) as usize;
    let d = |less: usize| u.saturating_sub(less).max(1);
    let mut out = Vec::new();
    if target == "updlog_peek" {
        // diagnostic: `encode_update_v1()` called inside the open transaction, then more edits
        out.push(Stage {
            name: "peek",
            authors: 1,
            gc: true,
            v2: false,
            undo: false,
            local: vec![
                vec![Op::Peek, Op::TIns { at: Pos::End, n: 1 }],
                vec![Op::TIns { at: Pos::End, n: 1 }, Op::Peek],
                vec![Op::TIns { at: Pos::End, n: 1 }, Op::Peek, Op::MSet { key: 0 }],
                vec![Op::TIns { at: Pos::End, n: 1 }, Op::Peek, Op::TIns { at: Pos::End, n: 1 }],
                vec![Op::TIns { at: Pos::End, n: 1 }, Op::Peek, Op::TDel { what: Span::First }],
            ],
            author: vec![],
            pull: false,
            relay: false,
            gc_step: false,
            depth: 2,
            max_local: 2,
            max_author: 0,
        });
        return out;
    }
    // 1. delivery order: one author, independent and dependent blocks, every order, duplicates
    out.push(Stage {
        name: "order_gc_v1",
        authors: 1,
        gc: true,
        v2: false,
        undo: false,
        local: vec![t_end(1), one(Op::TDel { what: Span::First }), one(Op::MSet { key: 0 })],
        author: vec![
            t_end(1),
            one(Op::TIns { at: Pos::Start, n: 1 }),
            one(Op::AIns { at: Pos::End }),
            one(Op::MSet { key: 0 }),
            one(Op::TDel { what: Span::First }),
        ],
        pull: true,
        relay: false,
        gc_step: false,
        depth: u + 1,
        max_local: 2,
        max_author: 4,
    });
    // 2. the same without collection, author updates in v2, with relays of the author's whole state
    out.push(Stage {
        name: "order_nogc_v2",
        authors: 1,
        gc: false,
        v2: true,
        undo: false,
        local: vec![t_end(1), one(Op::ADel { what: Span::First })],
        author: vec![
            t_end(1),
            one(Op::TIns { at: Pos::Mid, n: 1 }),
            one(Op::AIns { at: Pos::End }),
            one(Op::AIns { at: Pos::Start }),
            one(Op::MSet { key: 0 }),
            one(Op::MDel { key: 0 }),
            vec![Op::TIns { at: Pos::End, n: 1 }, Op::AIns { at: Pos::End }],
        ],
        pull: true,
        relay: true,
        gc_step: false,
        depth: d(0),
        max_local: 1,
        max_author: 4,
    });
    // 3. two authors (one client id below, one above the emitter's)
    out.push(Stage {
        name: "two_authors",
        authors: 2,
        gc: true,
        v2: false,
        undo: false,
        local: vec![t_end(1)],
        author: vec![
            t_end(1),
            one(Op::TIns { at: Pos::Start, n: 1 }),
            one(Op::MSet { key: 0 }),
            one(Op::TDel { what: Span::First }),
            one(Op::AIns { at: Pos::End }),
        ],
        pull: true,
        relay: false,
        gc_step: false,
        depth: d(0),
        max_local: 1,
        max_author: 4,
    });
    // 4. formatting: concurrent formatting of one range makes marks redundant, the emitter's clean-up deletes them
    out.push(Stage {
        name: "formatting",
        authors: 1,
        gc: true,
        v2: false,
        undo: false,
        local: vec![
            t_end(2),
            one(Op::TFmt { span: Span::All, on: true }),
            one(Op::TFmt { span: Span::First, on: true }),
            one(Op::TFmt { span: Span::All, on: false }),
            one(Op::TDel { what: Span::First }),
        ],
        author: vec![
            t_end(2),
            one(Op::TFmt { span: Span::All, on: true }),
            one(Op::TFmt { span: Span::Last, on: true }),
            one(Op::TFmt { span: Span::All, on: false }),
            one(Op::TIns { at: Pos::Mid, n: 1 }),
            one(Op::TDel { what: Span::Last }),
        ],
        pull: true,
        relay: false,
        gc_step: false,
        depth: d(0),
        max_local: 3,
        max_author: 3,
    });
    out.push(Stage {
        name: "formatting_nogc_two_authors",
        authors: 2,
        gc: false,
        v2: true,
        undo: false,
        local: vec![t_end(2), one(Op::TFmt { span: Span::All, on: true }), one(Op::TDel { what: Span::All })],
        author: vec![
            t_end(2),
            one(Op::TFmt { span: Span::All, on: true }),
            one(Op::TFmt { span: Span::All, on: false }),
            one(Op::TFmt { span: Span::First, on: true }),
        ],
        pull: true,
        relay: false,
        gc_step: false,
        depth: d(0),
        max_local: 2,
        max_author: 3,
    });
    // 5. nested types: created, written into, removed while an insertion into them is in flight
    for (name, gc, host, map, less) in [
        ("nested_array_gc", true, Host::Arr, false, 0),
        ("nested_map_nogc", false, Host::Map, true, 0),
        ("nested_map_in_array_nogc", false, Host::Arr, true, 1),
        ("nested_array_in_map_gc", true, Host::Map, false, 1),
    ] {
        out.push(Stage {
            name,
            authors: 1,
            gc,
            v2: !gc,
            undo: false,
            local: vec![one(Op::NNew { host, map }), one(Op::NPut), one(Op::NDrop), one(Op::AIns { at: Pos::End })],
            author: vec![one(Op::NNew { host, map }), one(Op::NPut), one(Op::NDrop), one(Op::AIns { at: Pos::End })],
            pull: true,
            relay: false,
            gc_step: false,
            depth: d(less),
            max_local: 3,
            max_author: 3,
        });
    }
    out.push(Stage {
        name: "nested_two_authors",
        authors: 2,
        gc: true,
        v2: false,
        undo: false,
        local: vec![one(Op::NNew { host: Host::Arr, map: false }), one(Op::NDrop)],
        author: vec![one(Op::NPut), one(Op::NDrop)],
        pull: true,
        relay: false,
        gc_step: false,
        depth: d(0),
        max_local: 2,
        max_author: 3,
    });
    // 6. transactions that change nothing
    out.push(Stage {
        name: "nothing_changes",
        authors: 1,
        gc: true,
        v2: false,
        undo: false,
        local: vec![
            vec![],
            one(Op::TIns { at: Pos::End, n: 0 }),
            one(Op::TDel { what: Span::Nothing }),
            one(Op::TFmt { span: Span::Nothing, on: true }),
            one(Op::ADel { what: Span::Nothing }),
            one(Op::MDel { key: 0 }),
            one(Op::MDel { key: 1 }),
            t_end(1),
            one(Op::MSet { key: 0 }),
            one(Op::AIns { at: Pos::End }),
            vec![Op::TIns { at: Pos::End, n: 0 }, Op::MDel { key: 1 }],
        ],
        author: vec![one(Op::MSet { key: 0 }), one(Op::MDel { key: 0 })],
        pull: true,
        relay: true,
        gc_step: false,
        depth: d(1),
        max_local: 4,
        max_author: 2,
    });
    // 7. transactions of several operations: created and deleted in one transaction, overwritten in one transaction
    for (name, gc) in [("several_operations_gc", true), ("several_operations_nogc", false)] {
        let multi = vec![
            vec![Op::TIns { at: Pos::End, n: 1 }, Op::TDel { what: Span::First }],
            vec![Op::TIns { at: Pos::End, n: 2 }, Op::TFmt { span: Span::All, on: true }],
            vec![Op::MSet { key: 0 }, Op::MSet { key: 0 }],
            vec![Op::MSet { key: 0 }, Op::MDel { key: 0 }],
            vec![Op::AIns { at: Pos::End }, Op::AIns { at: Pos::Start }, Op::ADel { what: Span::Last }],
            vec![Op::NNew { host: Host::Arr, map: true }, Op::NPut],
            vec![Op::NPut, Op::NDrop],
            vec![Op::TDel { what: Span::First }, Op::TIns { at: Pos::End, n: 1 }, Op::MSet { key: 1 }],
        ];
        out.push(Stage {
            name,
            authors: 1,
            gc,
            v2: !gc,
            undo: false,
            local: multi.clone(),
            author: multi,
            pull: true,
            relay: !gc,
            gc_step: false,
            depth: d(1),
            max_local: 3,
            max_author: 3,
        });
    }
    // 8. undo / redo on the emitter, explicit collection
    for (name, gc) in [("undo_gc", true), ("undo_nogc", false)] {
        out.push(Stage {
            name,
            authors: 1,
            gc,
            v2: !gc,
            undo: true,
            local: vec![
                t_end(1),
                one(Op::TDel { what: Span::First }),
                one(Op::MSet { key: 0 }),
                one(Op::MDel { key: 0 }),
                one(Op::AIns { at: Pos::End }),
                one(Op::TFmt { span: Span::All, on: true }),
                vec![Op::NNew { host: Host::Arr, map: false }, Op::NPut],
                one(Op::NDrop),
            ],
            author: vec![
                one(Op::TIns { at: Pos::Start, n: 1 }),
                one(Op::TDel { what: Span::First }),
                one(Op::MSet { key: 0 }),
                one(Op::NPut),
            ],
            pull: true,
            relay: false,
            gc_step: !gc,
            depth: d(0),
            max_local: 3,
            max_author: 2,
        });
    }
    out
}

pub fn cmd_search(target: &str, universe: u32, jobs: usize, deadline: Option<Instant>) -> i32 {
    let mut h = Hunt {
        jobs: jobs.max(1),
        deadline,
        cases: 0,
    };
    let stages = stages(target, universe);
    let deepest = stages.iter().map(|s| s.depth).max().unwrap_or(0);
    let mut frontiers: Vec<Vec<(Vec<Step>, Info)>> = stages.iter().map(|_| Vec::new()).collect();
    let mut seen: Vec<HashSet<u128>> = stages.iter().map(|_| HashSet::new()).collect();
    let mut counts = vec![0u64; stages.len()];
    let mut states = vec![0u64; stages.len()];
    let mut res: Result<(), Stop> = Ok(());
    // iterative deepening on the number of steps, all stages in turn: a witness is as short as possible
    'deepening: for d in 0..=deepest {
        for (si, st) in stages.iter().enumerate() {
            if d > st.depth {
                continue;
            }
            let make = |steps: Vec<Step>| Case {
                target: target.to_string(),
                variant: st.name.to_string(),
                authors: st.authors,
                gc: st.gc,
                v2: st.v2,
                undo: st.undo,
                cleanup: true,
                tolerate: target != "updlog_strict",
                steps,
            };
            let last_level = d == st.depth;
            let before = h.cases;
            let run_one = |tally: &mut Tally, steps: Vec<Step>| -> Result<Option<(Vec<Step>, Info)>, Stop> {
                if tally.expired() {
                    return Err(Stop::Timeout);
                }
                // at the last level a history that ends with a step of an author checks nothing
                if last_level && !steps.last().map(|s| s.on_emitter()).unwrap_or(true) {
                    return Ok(None);
                }
                let case = make(steps);
                match execute(&case, false, !last_level) {
                    Ok(info) => {
                        tally.cases += 1;
                        Ok(if last_level { None } else { Some((case.steps, info)) })
                    }
                    Err((_, f)) if is_invalid(&f) => Ok(None),
                    Err((done, failure)) => Err(Stop::Found(Box::new(Found {
                        fields: case.fields(&case.steps[..done.min(case.steps.len())]),
                        failure,
                    }))),
                }
            };
            let produced: Result<Vec<Vec<(Vec<Step>, Info)>>, Stop> = if d == 0 {
                h.par(1, &|tally: &mut Tally, _| Ok(run_one(tally, Vec::new())?.into_iter().collect()))
            } else {
                let fr = &frontiers[si];
                h.par(fr.len(), &|tally: &mut Tally, i: usize| {
                    let (steps, info) = &fr[i];
                    let mut kept = Vec::new();
                    for child in st.children(steps, info) {
                        let mut s = steps.clone();
                        s.push(child);
                        if let Some(k) = run_one(tally, s)? {
                            kept.push(k);
                        }
                    }
                    Ok(kept)
                })
            };
            counts[si] += h.cases - before;
            match produced {
                Ok(lists) => {
                    // a state reached before (same documents, same captured updates, same undo stacks) has the same futures
                    let mut next = Vec::new();
                    for (steps, info) in lists.into_iter().flatten() {
                        if seen[si].insert(info.fingerprint) {
                            next.push((steps, info));
                        }
                    }
                    states[si] += next.len() as u64;
                    frontiers[si] = next;
                }
                Err(stop) => {
                    res = Err(stop);
                    break 'deepening;
                }
            }
        }
    }
    let per_stage: Vec<(&str, J)> = stages.iter().enumerate().map(|(si, st)| (st.name, J::Num(counts[si] as i64))).collect();
    let extra = vec![
        ("cases_per_stage", J::obj(per_stage)),
        ("distinct_states_extended", J::Num(states.iter().sum::<u64>() as i64)),
    ];
    finish(target, universe, res, &h, extra)
}

/// `replay` of a witness of this module; `Err`: usage error (exit 2).
pub fn cmd_replay(j: &J) -> Result<i32, String> {
    let case = Case::from_json(j)?;
    match execute(&case, true, true) {
        Ok(info) => Ok(finish_replay(Ok(J::obj(vec![
            ("all_checks_passed", J::Bool(true)),
            ("steps", J::Num(case.steps.len() as i64)),
            ("updates_per_author", J::Arr(info.updates.iter().map(|n| J::Num(*n as i64)).collect())),
        ])))),
        Err((_, f)) if is_invalid(&f) => Err(f.why),
        Err((_, f)) => Ok(finish_replay(Err(f))),
    }
}
