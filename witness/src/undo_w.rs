//! Target `undo` (C12): `yrs::undo::UndoManager` as a step-exact undo / redo of the tracked origin.
//!
//! One replica (client 1; GC on or off) with the tracked root Text `t`, root Array `a` (numbers and
//! nested arrays) and root Map `m` (key `k`), and the UNTRACKED root Text `u` and root Array `v`.
//! An `UndoManager` (scope t, a, m; tracked origin "me"; capture timeout 0: every captured
//! transaction is a step of its own) is attached after an optional prefix of `setup` transactions
//! (not captured). Steps: `tracked` (origin "me", 1-2 operations: text insert of 1-2 unique
//! lowercase letters at any index, delete of any range, array insert / remove / nested array with a
//! child / child insert, map set / remove, and pushes to the untracked `u` / `v` in the SAME
//! transaction), `other` (origin "other": unique UPPERCASE letter / number >= 1000 into a tracked
//! type at top level), `undo`, `redo`, `forced_gc` (`TransactionMut::gc(None)`, no origin).
//!
//! The oracle predicts no merge result; it keeps the content it READ at the step boundaries:
//!  (U1/U4) PURE ROUND TRIP, exactly one step per call: as long as no `other` transaction touched
//!       the tracked types, the model is two stacks of (content before, content after) of the captured
//!       steps that changed something visible; `undo` must show exactly the `before` of the top step
//!       (not two steps back, not none), `redo` exactly the `after`; with an empty stack nothing changes.
//!  (U2) `u` and `v` read the same before and after every undo / redo call.
//!  (U3) the elements `other` inserted (as long as no tracked deletion hit one of them) are all
//!       visible in `t` / at the top level of `a`, in the same relative order, after every undo / redo.
//!  (U5) at the end a second replica (client 2, one own letter in `t`) and the first one exchange
//!       full states: both show the same content in all five types.
//! REPORT (unchanged tree; `"partial_delete_after_undo":true`, off by default, keeps (U1) on): tracked
//! insert "ab"; tracked delete "ab"; undo; tracked delete of "a" only; undo; undo -> the text must be
//! "" (before the first step) and is "b": undoing the insertion follows the `redone` link of the
//! original block "ab" from its start only, the restored copy was split by the partial deletion and
//! its second half stays. By default a tracked deletion of PART of the content after an undo / redo
//! ends the (U1) checks of that history.
//! Not covered (time): the family with an injected clock / `reset()` (Options::timestamp allows it).
//! Uses the search harness of evt.rs.

use crate::evt::{at, finish, finish_replay, guarded, Found, Hunt, Stop, Tally};
use crate::json::J;
use crate::model::Failure;
use std::collections::HashSet;
use std::time::Instant;
use yrs::types::ToJson;
use yrs::undo::UndoManager;
use yrs::updates::decoder::Decode;
use yrs::{
    Any, Array, ArrayPrelim, ArrayRef, ClientID, Doc, GetString, Map, MapRef, Options, Origin, Out, ReadTxn, StateVector, Text, TextRef,
    Transact, Update,
};

pub const TARGETS: &str = "undo";

pub fn is_target(target: &str) -> bool {
    target == "undo"
}

pub fn owns(j: &J) -> bool {
    j.get("target").and_then(|t| t.as_str()).map(is_target).unwrap_or(false)
}

const LOWER: &[u8] = b"abcdefghijklmnopqrstuvwxyz";
const UPPER: &[u8] = b"ABCDEFGHIJKLMNOPQRSTUVWXY";

#[derive(Clone, Debug, PartialEq)]
pub enum Op {
    TIns { index: u32, n: u32 },
    TDel { index: u32, len: u32 },
    UPush,
    VPush,
    AIns { index: u32 },
    ADel { index: u32 },
    /// nested array with one child at `index`
    ANest { index: u32 },
    /// push into the first nested array of `a`
    AChild,
    MSet,
    MRem,
}

impl Op {
    fn json(&self) -> J {
        let o = |name: &str, f: Vec<(&str, J)>| {
            let mut v = vec![("op", J::str(name))];
            v.extend(f);
            J::obj(v)
        };
        match self {
            Op::TIns { index, n } => o("text_insert", vec![("index", J::num(*index)), ("letters", J::num(*n))]),
            Op::TDel { index, len } => o("text_delete", vec![("index", J::num(*index)), ("len", J::num(*len))]),
            Op::UPush => o("untracked_text_push", vec![]),
            Op::VPush => o("untracked_array_push", vec![]),
            Op::AIns { index } => o("array_insert", vec![("index", J::num(*index))]),
            Op::ADel { index } => o("array_remove", vec![("index", J::num(*index))]),
            Op::ANest { index } => o("array_insert_nested", vec![("index", J::num(*index))]),
            Op::AChild => o("nested_array_push", vec![]),
            Op::MSet => o("map_set", vec![]),
            Op::MRem => o("map_remove", vec![]),
        }
    }
    fn from_json(j: &J) -> Result<Op, String> {
        let num = |k: &str| -> Result<u32, String> {
            match j.get(k).and_then(|v| v.as_i64()) {
                Some(n) if (0..=1000).contains(&n) => Ok(n as u32),
                _ => Err(format!("op.{}: expected a number", k)),
            }
        };
        Ok(match j.get("op").and_then(|o| o.as_str()) {
            Some("text_insert") => Op::TIns { index: num("index")?, n: num("letters")?.clamp(1, 2) },
            Some("text_delete") => Op::TDel { index: num("index")?, len: num("len")? },
            Some("untracked_text_push") => Op::UPush,
            Some("untracked_array_push") => Op::VPush,
            Some("array_insert") => Op::AIns { index: num("index")? },
            Some("array_remove") => Op::ADel { index: num("index")? },
            Some("array_insert_nested") => Op::ANest { index: num("index")? },
            Some("nested_array_push") => Op::AChild,
            Some("map_set") => Op::MSet,
            Some("map_remove") => Op::MRem,
            _ => return Err("unknown op".into()),
        })
    }
}

#[derive(Clone, Debug, PartialEq)]
pub enum Step {
    Setup(Vec<Op>),
    Tracked(Vec<Op>),
    Other(Op),
    Undo,
    Redo,
    Gc,
}

impl Step {
    fn json(&self) -> J {
        let ops = |v: &[Op]| J::Arr(v.iter().map(|o| o.json()).collect());
        match self {
            Step::Setup(v) => J::obj(vec![("step", J::str("setup")), ("ops", ops(v))]),
            Step::Tracked(v) => J::obj(vec![("step", J::str("tracked")), ("ops", ops(v))]),
            Step::Other(o) => J::obj(vec![("step", J::str("other")), ("ops", ops(std::slice::from_ref(o)))]),
            Step::Undo => J::obj(vec![("step", J::str("undo"))]),
            Step::Redo => J::obj(vec![("step", J::str("redo"))]),
            Step::Gc => J::obj(vec![("step", J::str("forced_gc"))]),
        }
    }
}

#[derive(Clone, Debug)]
pub struct Case {
    pub variant: String,
    pub gc: bool,
    /// (U1) also behind a tracked deletion of PART of the content made after an undo / redo (off by
    /// default: the unchanged tree fails it, see the header)
    pub partial_delete_after_undo: bool,
    pub steps: Vec<Step>,
}

impl Case {
    fn fields(&self, done: usize) -> Vec<(&'static str, J)> {
        vec![
            ("target", J::str("undo")),
            ("variant", J::str(&self.variant)),
            (
                "op",
                J::obj(vec![
                    ("kind", J::str("undo")),
                    ("gc", J::Bool(self.gc)),
                    ("partial_delete_after_undo", J::Bool(self.partial_delete_after_undo)),
                    ("steps", J::Arr(self.steps[..done.min(self.steps.len())].iter().map(|s| s.json()).collect())),
                ]),
            ),
        ]
    }
    pub fn from_json(j: &J) -> Result<Case, String> {
        let op = j.get("op").ok_or("op missing")?;
        let gc = !matches!(op.get_non_null("gc"), Some(J::Bool(false)));
        let mut steps = Vec::new();
        for (i, st) in op.get("steps").and_then(|s| s.as_arr()).ok_or("op.steps: expected an array")?.iter().enumerate() {
            let ops = || -> Result<Vec<Op>, String> {
                let mut v = Vec::new();
                for o in st.get("ops").and_then(|o| o.as_arr()).ok_or_else(|| format!("op.steps[{}].ops missing", i))? {
                    v.push(Op::from_json(o)?);
                }
                if v.is_empty() {
                    return Err(format!("op.steps[{}].ops: empty", i));
                }
                Ok(v)
            };
            steps.push(match st.get("step").and_then(|s| s.as_str()) {
                Some("setup") => Step::Setup(ops()?),
                Some("tracked") => Step::Tracked(ops()?),
                Some("other") => Step::Other(ops()?.remove(0)),
                Some("undo") => Step::Undo,
                Some("redo") => Step::Redo,
                Some("forced_gc") => Step::Gc,
                _ => return Err(format!("op.steps[{}].step: expected setup | tracked | other | undo | redo | forced_gc", i)),
            });
        }
        Ok(Case {
            variant: j.get("variant").and_then(|v| v.as_str()).unwrap_or("replay").to_string(),
            gc,
            partial_delete_after_undo: matches!(op.get_non_null("partial_delete_after_undo"), Some(J::Bool(true))),
            steps,
        })
    }
}

// ---------------------------------------------------------------------------
// execution
// ---------------------------------------------------------------------------

struct Rep {
    mgr: Option<UndoManager<()>>,
    doc: Doc,
    t: TextRef,
    a: ArrayRef,
    m: MapRef,
    u: TextRef,
    v: ArrayRef,
}

fn any_s(a: &Any) -> String {
    match a {
        Any::Map(m) => {
            let mut v: Vec<String> = m.iter().map(|(k, v)| format!("{}:{}", k, any_s(v))).collect();
            v.sort();
            format!("{{{}}}", v.join(","))
        }
        Any::Array(items) => format!("[{}]", items.iter().map(any_s).collect::<Vec<_>>().join(",")),
        other => format!("{}", other),
    }
}

type Content = (String, String, String);

impl Rep {
    fn new(client: u64, gc: bool) -> Rep {
        at("Doc::with_options");
        let mut o = Options::with_client_id(ClientID::new(client));
        o.skip_gc = !gc;
        let doc = Doc::with_options(o);
        Rep {
            mgr: None,
            t: doc.get_or_insert_text("t"),
            a: doc.get_or_insert_array("a"),
            m: doc.get_or_insert_map("m"),
            u: doc.get_or_insert_text("u"),
            v: doc.get_or_insert_array("v"),
            doc,
        }
    }
    fn attach(&mut self) {
        at("UndoManager::with_options / expand_scope");
        let options = yrs::undo::Options {
            capture_timeout_millis: 0,
            tracked_origins: HashSet::from([Origin::from("me")]),
            ..Default::default()
        };
        let mut mgr: UndoManager<()> = UndoManager::with_options(options);
        mgr.expand_scope(&self.doc, &self.t);
        mgr.expand_scope(&self.doc, &self.a);
        mgr.expand_scope(&self.doc, &self.m);
        self.mgr = Some(mgr);
    }
    fn tracked(&self) -> Content {
        let txn = self.doc.transact();
        at("Text::get_string / ArrayRef::to_json / MapRef::to_json");
        (self.t.get_string(&txn), any_s(&self.a.to_json(&txn)), any_s(&self.m.to_json(&txn)))
    }
    fn untracked(&self) -> (String, String) {
        let txn = self.doc.transact();
        (self.u.get_string(&txn), any_s(&self.v.to_json(&txn)))
    }
    /// the elements `other` inserted that are visible: uppercase letters of `t`, numbers >= 1000 at the top level of `a`
    fn others(&self) -> (String, Vec<i64>) {
        let txn = self.doc.transact();
        let letters: String = self.t.get_string(&txn).chars().filter(|c| c.is_ascii_uppercase()).collect();
        let nums: Vec<i64> = self
            .a
            .iter(&txn)
            .filter_map(|o| match o {
                Out::Any(Any::Number(f)) if f >= 1000.0 => Some(f as i64),
                _ => None,
            })
            .collect();
        (letters, nums)
    }
}

fn content_j(c: &Content) -> J {
    J::obj(vec![("t", J::str(&c.0)), ("a", J::str(&c.1)), ("m", J::str(&c.2))])
}

fn invalid(why: String) -> Failure {
    Failure {
        why: format!("invalid case: {}", why),
        expected: J::Null,
        actual: J::Null,
        api: "(none)".to_string(),
    }
}

fn is_invalid(f: &Failure) -> bool {
    f.why.starts_with("invalid case: ")
}

fn fail(oracle: &str, why: String, api: &str, expected: J, actual: J) -> Failure {
    Failure {
        why: format!("({}) {}", oracle, why),
        expected,
        actual,
        api: api.to_string(),
    }
}

struct Counters {
    lower: usize,
    upper: usize,
    num: i64,
    big: i64,
}

/// Applies one operation; `Ok(true)`: a tracked deletion hit an element of `other`.
fn apply(rep: &Rep, txn: &mut yrs::TransactionMut, op: &Op, other: bool, c: &mut Counters) -> Result<bool, Failure> {
    let mut hit = false;
    match op {
        Op::TIns { index, n } => {
            if *index > rep.t.len(txn) {
                return Err(invalid("text_insert beyond the end".into()));
            }
            let mut s = String::new();
            for _ in 0..*n {
                if other {
                    s.push(UPPER[c.upper % UPPER.len()] as char);
                    c.upper += 1;
                } else {
                    s.push(LOWER[c.lower % LOWER.len()] as char);
                    c.lower += 1;
                }
            }
            at("Text::insert");
            rep.t.insert(txn, *index, &s);
        }
        Op::TDel { index, len } => {
            let have = rep.t.len(txn);
            if *len == 0 || index + len > have {
                return Err(invalid("text_delete out of range".into()));
            }
            let s = rep.t.get_string(txn);
            hit = s.chars().skip(*index as usize).take(*len as usize).any(|ch| ch.is_ascii_uppercase());
            at("Text::remove_range");
            rep.t.remove_range(txn, *index, *len);
        }
        Op::UPush => {
            c.lower += 1;
            at("Text::push (untracked)");
            rep.u.push(txn, "u");
        }
        Op::VPush => {
            c.num += 1;
            at("Array::push_back (untracked)");
            rep.v.push_back(txn, c.num as f64);
        }
        Op::AIns { index } => {
            if *index > rep.a.len(txn) {
                return Err(invalid("array_insert beyond the end".into()));
            }
            let val = if other {
                c.big += 1;
                c.big
            } else {
                c.num += 1;
                c.num
            };
            at("Array::insert");
            rep.a.insert(txn, *index, val as f64);
        }
        Op::ADel { index } => {
            if *index >= rep.a.len(txn) {
                return Err(invalid("array_remove out of range".into()));
            }
            hit = matches!(rep.a.get(txn, *index), Some(Out::Any(Any::Number(f))) if f >= 1000.0);
            at("Array::remove");
            rep.a.remove(txn, *index);
        }
        Op::ANest { index } => {
            if *index > rep.a.len(txn) {
                return Err(invalid("array_insert_nested beyond the end".into()));
            }
            c.num += 1;
            at("Array::insert (nested array)");
            rep.a.insert(txn, *index, ArrayPrelim::from([c.num as f64]));
        }
        Op::AChild => {
            let nested = rep.a.iter(txn).find_map(|o| if let Out::YArray(n) = o { Some(n) } else { None });
            match nested {
                Some(n) => {
                    c.num += 1;
                    at("Array::push_back (nested array)");
                    n.push_back(txn, c.num as f64);
                }
                None => return Err(invalid("nested_array_push without a nested array".into())),
            }
        }
        Op::MSet => {
            c.num += 1;
            at("Map::insert");
            rep.m.insert(txn, "k", c.num as f64);
        }
        Op::MRem => {
            if rep.m.get(txn, "k").is_none() {
                return Err(invalid("map_remove of an absent key".into()));
            }
            at("Map::remove");
            rep.m.remove(txn, "k");
        }
    }
    Ok(hit)
}

/// What a passing run tells about the final state (needed to extend the history).
#[derive(Clone, Debug, Default)]
pub struct Info {
    t_len: u32,
    a_len: u32,
    nested: bool,
    key: bool,
    undo: usize,
    redo: usize,
    attached: bool,
}

fn execute(case: &Case, check_all: bool) -> Result<Info, (usize, Failure)> {
    let mut done = 0usize;
    let r = guarded(|| {
        let mut rep = Rep::new(1, case.gc);
        let mut c = Counters { lower: 0, upper: 0, num: 0, big: 1000 };
        // the model: (before, after) of the captured steps that changed something visible
        let mut undo: Vec<(Content, Content)> = Vec::new();
        let mut redo: Vec<(Content, Content)> = Vec::new();
        let mut pure = true;
        // an undo / redo call has restored content
        let mut restored = false;
        let mut others_intact = true;
        let mut other_count = (0usize, 0usize);
        let count = case.steps.len();
        for (si, step) in case.steps.iter().enumerate() {
            done = si + 1;
            let check = check_all || si + 1 == count;
            if !matches!(step, Step::Setup(_)) && rep.mgr.is_none() {
                rep.attach();
            }
            match step {
                Step::Setup(ops) | Step::Tracked(ops) => {
                    let setup = matches!(step, Step::Setup(_));
                    if setup && rep.mgr.is_some() {
                        return Err(invalid("setup after the manager was attached".into()));
                    }
                    let before = rep.tracked();
                    if !setup && restored && !case.partial_delete_after_undo {
                        let whole = before.0.chars().count() as u32;
                        if ops.iter().any(|o| matches!(o, Op::TDel { len, .. } if *len < whole) || matches!(o, Op::ADel { .. })) {
                            pure = false;
                        }
                    }
                    {
                        at("Doc::transact_mut_with");
                        let mut txn = rep.doc.transact_mut_with("me");
                        for op in ops {
                            if apply(&rep, &mut txn, op, false, &mut c)? {
                                others_intact = false;
                            }
                        }
                        at("TransactionMut::commit");
                    }
                    let after = rep.tracked();
                    let touched = ops.iter().any(|o| !matches!(o, Op::UPush | Op::VPush));
                    if !setup && touched {
                        if before == after {
                            // captured, nothing visible: whether a call passes over it is not modelled
                            pure = false;
                        } else {
                            undo.push((before, after));
                            redo.clear();
                        }
                    }
                }
                Step::Other(op) => {
                    {
                        let mut txn = rep.doc.transact_mut_with("other");
                        apply(&rep, &mut txn, op, true, &mut c)?;
                    }
                    match op {
                        Op::TIns { n, .. } => other_count.0 += *n as usize,
                        Op::AIns { .. } => other_count.1 += 1,
                        _ => return Err(invalid("other: only text_insert / array_insert".into())),
                    }
                    pure = false;
                }
                Step::Gc => {
                    let before = (rep.tracked(), rep.untracked());
                    {
                        let mut txn = rep.doc.transact_mut();
                        at("TransactionMut::gc");
                        txn.gc(None);
                    }
                    if check && (rep.tracked(), rep.untracked()) != before {
                        return Err(fail("U1", "a forced garbage collection changed the content".into(), "TransactionMut::gc", content_j(&before.0), content_j(&rep.tracked())));
                    }
                }
                Step::Undo | Step::Redo => {
                    let is_undo = matches!(step, Step::Undo);
                    let name = if is_undo { "undo" } else { "redo" };
                    let api = if is_undo { "UndoManager::undo_blocking" } else { "UndoManager::redo_blocking" };
                    let before = rep.tracked();
                    let unt = rep.untracked();
                    let oth = rep.others();
                    at(api);
                    let mgr = rep.mgr.as_mut().unwrap();
                    let _ = if is_undo { mgr.undo_blocking() } else { mgr.redo_blocking() };
                    let after = rep.tracked();
                    restored = true;
                    // the model moves whether or not this step is checked
                    let expected = if pure {
                        let (from, to) = if is_undo { (&mut undo, &mut redo) } else { (&mut redo, &mut undo) };
                        Some(match from.pop() {
                            Some(s) => {
                                let want = if is_undo { s.0.clone() } else { s.1.clone() };
                                to.push(s);
                                want
                            }
                            None => before.clone(),
                        })
                    } else {
                        None
                    };
                    if check {
                        if let Some(want) = expected {
                            if after != want {
                                return Err(fail(
                                    "U1/U4",
                                    format!("no other origin edited the tracked types: {} must show exactly the content recorded {} the last step not yet {}", name, if is_undo { "before" } else { "after" }, if is_undo { "undone" } else { "redone" }),
                                    api,
                                    content_j(&want),
                                    J::obj(vec![("shows", content_j(&after)), ("before_the_call", content_j(&before))]),
                                ));
                            }
                        }
                        let unt2 = rep.untracked();
                        if unt2 != unt {
                            return Err(fail(
                                "U2",
                                format!("{} changed an untracked type", name),
                                api,
                                J::obj(vec![("u", J::str(&unt.0)), ("v", J::str(&unt.1))]),
                                J::obj(vec![("u", J::str(&unt2.0)), ("v", J::str(&unt2.1))]),
                            ));
                        }
                        if others_intact {
                            let oth2 = rep.others();
                            if oth2 != oth || oth2.0.chars().count() != other_count.0 || oth2.1.len() != other_count.1 {
                                return Err(fail(
                                    "U3",
                                    format!("{} removed or reordered elements another origin inserted", name),
                                    api,
                                    J::str(&format!("{:?} ({} letters, {} numbers inserted)", oth, other_count.0, other_count.1)),
                                    J::str(&format!("{:?}", oth2)),
                                ));
                            }
                        }
                    }
                }
            }
        }
        if rep.mgr.is_none() {
            rep.attach();
        }
        // (U5)
        if check_all || true {
            let other = Rep::new(2, case.gc);
            other.t.push(&mut other.doc.transact_mut(), "z");
            at("encode_state_as_update_v1 -> apply_update (exchange of full states)");
            let sa = rep.doc.transact().encode_state_as_update_v1(&StateVector::default());
            let sb = other.doc.transact().encode_state_as_update_v1(&StateVector::default());
            for (d, bytes) in [(&other.doc, &sa), (&rep.doc, &sb)] {
                let u = Update::decode_v1(bytes).map_err(|e| invalid(format!("a full state does not decode: {}", e)))?;
                d.transact_mut().apply_update(u).map_err(|e| invalid(format!("apply_update failed: {}", e)))?;
            }
            let (x, y) = ((rep.tracked(), rep.untracked()), (other.tracked(), other.untracked()));
            if x != y {
                return Err(fail(
                    "U5",
                    "after exchanging full states the two replicas show different content".into(),
                    "ReadTxn::encode_state_as_update_v1 / TransactionMut::apply_update",
                    J::obj(vec![("replica_1", content_j(&x.0)), ("u", J::str(&(x.1).0)), ("v", J::str(&(x.1).1))]),
                    J::obj(vec![("replica_2", content_j(&y.0)), ("u", J::str(&(y.1).0)), ("v", J::str(&(y.1).1))]),
                ));
            }
            // the exchange added "z" to replica 1: the info below is read from replica 2's copy minus nothing; lengths are upper bounds
        }
        let txn = rep.doc.transact();
        let mgr = rep.mgr.as_ref().unwrap();
        Ok(Info {
            t_len: rep.t.len(&txn).saturating_sub(1),
            a_len: rep.a.len(&txn),
            nested: rep.a.iter(&txn).any(|o| matches!(o, Out::YArray(_))),
            key: rep.m.get(&txn, "k").is_some(),
            undo: mgr.undo_stack().len(),
            redo: mgr.redo_stack().len(),
            attached: case.steps.iter().any(|s| !matches!(s, Step::Setup(_))),
        })
    });
    r.map_err(|f| (done, f))
}

// ---------------------------------------------------------------------------
// enumeration
// ---------------------------------------------------------------------------

#[derive(Clone, Copy, PartialEq)]
enum Family {
    Text,
    /// setup prefix, narrow text alphabet, forced GC, skip_gc
    SetupGc,
    Coll,
}

struct Stage {
    name: &'static str,
    family: Family,
    gc: bool,
    depth: usize,
}

impl Stage {
    fn children(&self, steps: &[Step], info: &Info) -> Vec<Step> {
        let mut out = Vec::new();
        let l = info.t_len;
        let text_singles = |max_len: u32, narrow: bool| -> Vec<Op> {
            let mut v = Vec::new();
            if l + 2 <= max_len {
                for index in 0..=l {
                    if narrow && index != l {
                        continue;
                    }
                    v.push(Op::TIns { index, n: 2 });
                    if !narrow {
                        v.push(Op::TIns { index, n: 1 });
                    }
                }
            }
            for index in 0..l {
                for len in 1..=(l - index) {
                    v.push(Op::TDel { index, len });
                }
            }
            v
        };
        match self.family {
            Family::Text => {
                for op in text_singles(5, false) {
                    out.push(Step::Tracked(vec![op]));
                }
                out.push(Step::Tracked(vec![Op::TIns { index: l, n: 1 }, Op::UPush]));
                out.push(Step::Tracked(vec![Op::VPush, Op::TIns { index: 0, n: 1 }]));
                if l > 0 {
                    out.push(Step::Tracked(vec![Op::TDel { index: 0, len: 1 }, Op::VPush]));
                }
                out.push(Step::Tracked(vec![Op::UPush]));
                out.push(Step::Other(Op::TIns { index: 0, n: 1 }));
                if l > 0 {
                    out.push(Step::Other(Op::TIns { index: l, n: 1 }));
                }
            }
            Family::SetupGc => {
                if !info.attached && steps.len() < 2 {
                    for op in text_singles(4, true) {
                        out.push(Step::Setup(vec![op]));
                    }
                }
                for op in text_singles(4, true) {
                    out.push(Step::Tracked(vec![op]));
                }
                if info.attached && !matches!(steps.last(), Some(Step::Gc)) {
                    out.push(Step::Gc);
                }
            }
            Family::Coll => {
                let a = info.a_len;
                if a < 3 {
                    for index in [0, a] {
                        out.push(Step::Tracked(vec![Op::AIns { index }]));
                        if index == 0 && a == 0 {
                            break;
                        }
                    }
                    if !info.nested {
                        out.push(Step::Tracked(vec![Op::ANest { index: a }]));
                    }
                    out.push(Step::Other(Op::AIns { index: 0 }));
                }
                for index in 0..a {
                    out.push(Step::Tracked(vec![Op::ADel { index }]));
                }
                if info.nested {
                    out.push(Step::Tracked(vec![Op::AChild]));
                    out.push(Step::Tracked(vec![Op::AChild, Op::VPush]));
                }
                out.push(Step::Tracked(vec![Op::MSet]));
                out.push(Step::Tracked(vec![Op::MSet, Op::AIns { index: a }]));
                if info.key {
                    out.push(Step::Tracked(vec![Op::MRem]));
                }
            }
        }
        if info.undo > 0 {
            out.push(Step::Undo);
        }
        if info.redo > 0 {
            out.push(Step::Redo);
        }
        out
    }
}

pub fn cmd_search(target: &str, universe: u32, jobs: usize, deadline: Option<Instant>) -> i32 {
    let mut h = Hunt {
        jobs: jobs.max(1),
        deadline,
        cases: 0,
    };
    let d = universe.clamp(3, 8) as usize;
    let mut stages = vec![
        Stage { name: "text_gc", family: Family::Text, gc: true, depth: d - 1 },
        Stage { name: "text_nogc", family: Family::Text, gc: false, depth: d - 1 },
        Stage { name: "setup_forced_gc_nogc", family: Family::SetupGc, gc: false, depth: d },
        Stage { name: "setup_forced_gc_gc", family: Family::SetupGc, gc: true, depth: d - 1 },
        Stage { name: "array_map_gc", family: Family::Coll, gc: true, depth: d - 1 },
        Stage { name: "array_map_nogc", family: Family::Coll, gc: false, depth: d - 2 },
    ];
    if let Ok(only) = std::env::var("VX_UNDO_ONLY") {
        stages.retain(|s| s.name.contains(&only));
    }
    let deepest = stages.iter().map(|s| s.depth).max().unwrap_or(0);
    let mut frontiers: Vec<Vec<(Vec<Step>, Info)>> = stages.iter().map(|_| Vec::new()).collect();
    let mut res: Result<(), Stop> = Ok(());
    let mut completed = 0usize;
    'deepening: for depth in 0..=deepest {
        for (si, st) in stages.iter().enumerate() {
            if depth > st.depth {
                continue;
            }
            let run_one = |tally: &mut Tally, steps: Vec<Step>| -> Result<Option<(Vec<Step>, Info)>, Stop> {
                if tally.expired() {
                    return Err(Stop::Timeout);
                }
                let case = Case {
                    variant: st.name.to_string(),
                    gc: st.gc,
                    partial_delete_after_undo: std::env::var_os("VX_UNDO_STRICT").is_some(),
                    steps,
                };
                match execute(&case, false) {
                    Ok(info) => {
                        tally.cases += 1;
                        Ok(Some((case.steps, info)))
                    }
                    Err((_, f)) if is_invalid(&f) => Ok(None),
                    Err((done, failure)) => Err(Stop::Found(Box::new(Found {
                        fields: case.fields(done),
                        failure,
                    }))),
                }
            };
            let produced: Result<Vec<Vec<(Vec<Step>, Info)>>, Stop> = if depth == 0 {
                h.par(1, &|tally: &mut Tally, _| Ok(run_one(tally, Vec::new())?.into_iter().collect()))
            } else {
                let fr = &frontiers[si];
                h.par(fr.len(), &|tally: &mut Tally, i: usize| {
                    let (steps, info) = &fr[i];
                    let mut kept = Vec::new();
                    for child in st.children(steps, info) {
                        let mut s = steps.clone();
                        s.push(child);
                        if let Some(k) = run_one(tally, s)? {
                            kept.push(k);
                        }
                    }
                    Ok(kept)
                })
            };
            match produced {
                Ok(lists) => frontiers[si] = lists.into_iter().flatten().collect(),
                Err(stop) => {
                    res = Err(stop);
                    break 'deepening;
                }
            }
        }
        completed = depth;
    }
    let extra = vec![("steps_per_history_completed", J::Num(completed as i64)), ("steps_per_history_deepest", J::Num(deepest as i64))];
    finish(target, universe, res, &h, extra)
}

pub fn cmd_replay(j: &J) -> Result<i32, String> {
    let case = Case::from_json(j)?;
    match execute(&case, true) {
        Ok(info) => Ok(finish_replay(Ok(J::obj(vec![
            ("all_oracles_hold_after_every_step", J::Bool(true)),
            ("undo_stack", J::Num(info.undo as i64)),
            ("redo_stack", J::Num(info.redo as i64)),
        ])))),
        Err((_, f)) if is_invalid(&f) => Err(f.why),
        Err((_, f)) => Ok(finish_replay(Err(f))),
    }
}
