//! Targets outside the interval-set code: the awareness register and the
//! y-sync message codec (`proto.rs`), snapshots and state-vector
//! synchronisation of documents (`docs.rs`). Same CLI contract as the
//! interval-set targets (one JSON witness line / exit 1, `replay`), but with
//! their own case descriptions; see README.md.

use crate::codecs::CodecCase;
use crate::scale::ScaleCase;
use crate::dec::DecCase;
use crate::docs::{SnapCase, SvCase};
use crate::json::J;
use crate::model::Failure;
use crate::proto::{AwCase, MsgCase};
use std::cell::RefCell;
use std::panic::{catch_unwind, AssertUnwindSafe};
use std::sync::atomic::{AtomicBool, AtomicUsize, Ordering};
use std::time::Instant;

pub const TARGETS: &str =
    "awareness | syncmsg | proto_all | snapshot | svsync | snap_all | decoders | codecs | codecs_scale | dec_all";

/// The individual targets behind a CLI target name.
pub fn targets_for(target: &str) -> Option<Vec<&'static str>> {
    match target {
        "awareness" => Some(vec!["awareness"]),
        "syncmsg" => Some(vec!["syncmsg"]),
        "proto_all" => Some(vec!["awareness", "syncmsg"]),
        "snapshot" => Some(vec!["snapshot"]),
        "svsync" => Some(vec!["svsync"]),
        "snap_all" => Some(vec!["snapshot", "svsync"]),
        "decoders" => Some(vec!["decoders"]),
        "codecs" => Some(vec!["codecs", "codecs_scale_small"]),
        "codecs_scale" => Some(vec!["codecs_scale"]),
        "dec_all" => Some(vec!["decoders", "codecs", "codecs_scale"]),
        _ => None,
    }
}

thread_local! {
    /// The public entry point of yrs that is being called right now: lets a
    /// caught panic name the call that raised it.
    static CURRENT_API: RefCell<String> = RefCell::new(String::new());
}

/// Announces the next call into the code under test.
pub fn at(api: &str) {
    CURRENT_API.with(|c| {
        let mut c = c.borrow_mut();
        c.clear();
        c.push_str(api);
    });
}

pub fn current_api() -> String {
    CURRENT_API.with(|c| c.borrow().clone())
}

pub fn fail(why: &str, api: &str, expected: J, actual: J) -> Failure {
    Failure {
        why: why.to_string(),
        expected,
        actual,
        api: api.to_string(),
    }
}

#[derive(Clone, Debug)]
pub enum XCase {
    Aw(AwCase),
    Msg(MsgCase),
    Snap(SnapCase),
    Sv(SvCase),
    Dec(DecCase),
    Codec(CodecCase),
    Scale(ScaleCase),
}

/// What running a case yields when nothing disagrees: `false` if the case
/// turned out to be a duplicate of a shorter one (a step without effect) and
/// was abandoned; such cases are not counted and not extended.
pub type Verdict = Result<bool, Failure>;

impl XCase {
    pub fn target(&self) -> &'static str {
        match self {
            XCase::Aw(_) => "awareness",
            XCase::Msg(_) => "syncmsg",
            XCase::Snap(_) => "snapshot",
            XCase::Sv(_) => "svsync",
            XCase::Dec(_) => "decoders",
            XCase::Codec(_) => "codecs",
            XCase::Scale(_) => crate::scale::TARGET,
        }
    }

    /// `variant` and `op` of the witness line.
    fn describe(&self) -> (String, J) {
        match self {
            XCase::Aw(c) => c.describe(),
            XCase::Msg(c) => c.describe(),
            XCase::Snap(c) => c.describe(),
            XCase::Sv(c) => c.describe(),
            XCase::Dec(c) => c.describe(),
            XCase::Codec(c) => c.describe(),
            XCase::Scale(c) => c.describe(),
        }
    }

    pub fn to_json_fields(&self) -> Vec<(&'static str, J)> {
        let (variant, op) = self.describe();
        vec![("target", J::str(self.target())), ("variant", J::Str(variant)), ("op", op)]
    }

    pub fn from_json(j: &J) -> Result<XCase, String> {
        let target = j.get("target").and_then(|t| t.as_str()).ok_or("target missing")?;
        let variant = j.get("variant").and_then(|t| t.as_str()).unwrap_or("");
        let op = j.get("op").ok_or("op missing")?;
        match target {
            "awareness" => Ok(XCase::Aw(AwCase::from_json(variant, op)?)),
            "syncmsg" => Ok(XCase::Msg(MsgCase::from_json(variant, op)?)),
            "snapshot" => Ok(XCase::Snap(SnapCase::from_json(op)?)),
            "svsync" => Ok(XCase::Sv(SvCase::from_json(op)?)),
            "decoders" => Ok(XCase::Dec(DecCase::from_json(variant, op)?)),
            "codecs" => Ok(XCase::Codec(CodecCase::from_json(variant, op)?)),
            "codecs_scale" => Ok(XCase::Scale(ScaleCase::from_json(op)?)),
            other => Err(format!("unknown target {:?}", other)),
        }
    }

    fn run(&self) -> Verdict {
        match self {
            XCase::Aw(c) => c.run().map(|_| true),
            XCase::Msg(c) => c.run().map(|_| true),
            XCase::Snap(c) => c.run().map(|_| true),
            XCase::Sv(c) => c.run(),
            XCase::Dec(c) => c.run().map(|_| true),
            XCase::Codec(c) => c.run().map(|_| true),
            XCase::Scale(c) => c.run().map(|_| true),
        }
    }

    /// What the real code returns for this case (shown by `replay` when
    /// every check passes).
    fn actual_json(&self) -> J {
        match self {
            XCase::Aw(c) => c.actual_json(),
            XCase::Msg(c) => c.actual_json(),
            XCase::Snap(c) => c.actual_json(),
            XCase::Sv(c) => c.actual_json(),
            XCase::Dec(c) => c.actual_json(),
            XCase::Codec(c) => c.actual_json(),
            XCase::Scale(c) => c.actual_json(),
        }
    }
}

/// Runs one case; a panic of the code under test is a disagreement like any other.
pub fn run_guarded(case: &XCase) -> Verdict {
    at("");
    match catch_unwind(AssertUnwindSafe(|| case.run())) {
        Ok(r) => r,
        Err(payload) => {
            let msg = if let Some(s) = payload.downcast_ref::<&str>() {
                s.to_string()
            } else if let Some(s) = payload.downcast_ref::<String>() {
                s.clone()
            } else {
                "non-string panic payload".to_string()
            };
            Err(Failure {
                why: format!("panic: {}", msg),
                expected: J::str("no panic"),
                actual: J::Null,
                api: current_api(),
            })
        }
    }
}

pub enum XStop {
    Found(Box<(XCase, Failure)>),
    Timeout,
}

/// Per-thread executor.
pub struct Ctx {
    deadline: Option<Instant>,
    pub cases: u64,
    ticks: u64,
}

impl Ctx {
    /// Runs `case`; `Ok(false)`: the case was abandoned as a duplicate.
    pub fn exec(&mut self, case: XCase) -> Result<bool, XStop> {
        if self.ticks % 16 == 0 {
            if let Some(d) = self.deadline {
                if Instant::now() >= d {
                    return Err(XStop::Timeout);
                }
            }
        }
        self.ticks += 1;
        match run_guarded(&case) {
            Ok(counted) => {
                if counted {
                    self.cases += 1;
                }
                Ok(counted)
            }
            Err(failure) => Err(XStop::Found(Box::new((case, failure)))),
        }
    }
}

pub struct Runner {
    pub jobs: usize,
    pub deadline: Option<Instant>,
    pub cases: u64,
}

impl Runner {
    /// Runs `f` for every index below `count`, spread over `jobs` threads. The
    /// reported disagreement is the one with the smallest index (the one a
    /// sequential run would meet first); otherwise the results, by index.
    pub fn par<T: Send>(
        &mut self,
        count: usize,
        f: &(dyn Fn(&mut Ctx, usize) -> Result<T, XStop> + Sync),
    ) -> Result<Vec<T>, XStop> {
        let jobs = self.jobs.max(1).min(count.max(1));
        let best = AtomicUsize::new(usize::MAX);
        let timed_out = AtomicBool::new(false);
        let deadline = self.deadline;
        type Found = Option<(usize, Box<(XCase, Failure)>)>;
        let mut results: Vec<(u64, Vec<(usize, T)>, Found)> = Vec::new();
        std::thread::scope(|scope| {
            let handles: Vec<_> = (0..jobs)
                .map(|t| {
                    let (best, timed_out) = (&best, &timed_out);
                    scope.spawn(move || {
                        let mut ctx = Ctx {
                            deadline,
                            cases: 0,
                            ticks: 0,
                        };
                        let mut out = Vec::new();
                        let mut found = None;
                        let mut i = t;
                        while i < count {
                            if i > best.load(Ordering::Relaxed) || timed_out.load(Ordering::Relaxed) {
                                break;
                            }
                            match f(&mut ctx, i) {
                                Ok(v) => out.push((i, v)),
                                Err(XStop::Found(fd)) => {
                                    best.fetch_min(i, Ordering::Relaxed);
                                    found = Some((i, fd));
                                    break;
                                }
                                Err(XStop::Timeout) => {
                                    timed_out.store(true, Ordering::Relaxed);
                                    break;
                                }
                            }
                            i += jobs;
                        }
                        (ctx.cases, out, found)
                    })
                })
                .collect();
            for h in handles {
                if let Ok(r) = h.join() {
                    results.push(r);
                }
            }
        });
        let mut first: Found = None;
        let mut all: Vec<(usize, T)> = Vec::new();
        for (cases, out, found) in results {
            self.cases += cases;
            all.extend(out);
            if let Some((i, fd)) = found {
                if first.as_ref().map(|(j, _)| i < *j).unwrap_or(true) {
                    first = Some((i, fd));
                }
            }
        }
        if let Some((_, fd)) = first {
            return Err(XStop::Found(fd));
        }
        if timed_out.load(Ordering::Relaxed) {
            return Err(XStop::Timeout);
        }
        all.sort_by_key(|(i, _)| *i);
        Ok(all.into_iter().map(|(_, v)| v).collect())
    }
}

pub fn found_json(case: &XCase, f: &Failure) -> J {
    let mut fields = case.to_json_fields();
    fields.push(("expected", f.expected.clone()));
    fields.push(("actual", f.actual.clone()));
    fields.push(("why", J::str(&f.why)));
    fields.push(("api", J::str(&f.api)));
    J::obj(fields)
}

/// `search <target>` for the targets of this module; returns the exit code.
pub fn cmd_search(target: &str, parts: &[&'static str], jobs: usize, deadline: Option<Instant>) -> i32 {
    let mut r = Runner {
        jobs: jobs.max(1),
        deadline,
        cases: 0,
    };
    let mut truncated = false;
    let mut per_target: Vec<(&str, J)> = Vec::new();
    for part in parts {
        let before = r.cases;
        let res = match *part {
            "awareness" => crate::proto::search_awareness(&mut r),
            "syncmsg" => crate::proto::search_syncmsg(&mut r),
            "snapshot" => crate::docs::search_snapshot(&mut r),
            "svsync" => crate::docs::search_svsync(&mut r),
            "decoders" => crate::dec::search_decoders(&mut r),
            "codecs" => crate::codecs::search_codecs(&mut r),
            "codecs_scale" => crate::scale::search_scale(&mut r),
            "codecs_scale_small" => crate::scale::search_scale_small(&mut r),
            _ => Ok(()),
        };
        per_target.push((*part, J::Num((r.cases - before) as i64)));
        match res {
            Ok(()) => {}
            Err(XStop::Found(fd)) => {
                println!("{}", found_json(&fd.0, &fd.1));
                return 1;
            }
            Err(XStop::Timeout) => {
                truncated = true;
                break;
            }
        }
    }
    let mut out = vec![
        ("target", J::str(target)),
        ("found", J::Bool(false)),
        ("cases", J::Num(r.cases as i64)),
    ];
    if parts.len() > 1 {
        out.push(("cases_per_target", J::obj(per_target)));
    }
    if truncated {
        // --max-seconds elapsed before the enumeration was complete
        out.push(("truncated", J::Bool(true)));
    }
    out.extend(crate::dec::summary_fields());
    println!("{}", J::obj(out));
    0
}

/// Is this witness line one of ours?
pub fn owns(j: &J) -> bool {
    matches!(
        j.get("target").and_then(|t| t.as_str()),
        Some("awareness") | Some("syncmsg") | Some("snapshot") | Some("svsync") | Some("decoders") | Some("codecs") | Some("codecs_scale")
    )
}

/// `replay` of a witness of this module; `Err`: usage error (exit 2).
pub fn cmd_replay(j: &J) -> Result<i32, String> {
    let case = XCase::from_json(j)?;
    match run_guarded(&case) {
        Ok(_) => {
            let actual = catch_unwind(AssertUnwindSafe(|| case.actual_json())).unwrap_or(J::Null);
            println!("{}", J::obj(vec![("reproduced", J::Bool(false)), ("actual", actual)]));
            Ok(0)
        }
        Err(f) => {
            println!(
                "{}",
                J::obj(vec![
                    ("reproduced", J::Bool(true)),
                    ("actual", f.actual),
                    ("expected", f.expected),
                    ("why", J::str(&f.why)),
                    ("api", J::str(&f.api)),
                ])
            );
            Ok(1)
        }
    }
}
