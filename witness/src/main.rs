use yrs::block::BlockRange;
use yrs::updates::decoder::Decode;
use yrs::updates::encoder::Encode;
use yrs::{ClientID, ContentAttribute, Diff, IdMap, IdSet, ID};

fn main() {
    let c = ClientID::new(1);
    let mut s = IdSet::new();
    s.insert(ID::new(c, 0), 3);
    s.insert(ID::new(c, 5), 3);
    s.remove_range(&BlockRange::new(ID::new(c, 2), 4));
    let r = s.get(&c).unwrap();
    println!("{:?} {:?} {:?} {:?}", r.find_start(2), r.clock_start(), r.clock_end(), r.contains_clock(1));
    let mut tmp = IdSet::new();
    let empty = tmp.range_mut(c).clone();
    println!("{}", empty.subset_of(r));
    let owned = r.clone();
    let mut t = IdSet::new();
    t.insert_range(c, owned);
    println!("{}", t == s);
    let enc = s.encode_v1();
    println!("{}", IdSet::decode_v1(&enc).unwrap() == s);

    let a = ContentAttribute::new("a", 1u8);
    let b = ContentAttribute::new("b", 2u8);
    let mut m: IdMap<u8> = IdMap::new();
    m.insert(BlockRange::new(ID::new(c, 0), 4), vec![a.clone()]);
    m.insert(BlockRange::new(ID::new(c, 2), 4), vec![b.clone()]);
    for (cl, ar) in m.iter() {
        let names: Vec<_> = ar.attrs.iter().map(|x| (x.name().to_string(), *x.value())).collect();
        println!("{} {:?} {:?}", cl, ar.range, names);
    }
    let enc = m.encode_v1();
    let d = IdMap::<u8>::decode_v1(&enc).unwrap();
    println!("{}", d == m);
    let mut m2 = m.clone();
    Diff::diff_with(&mut m2, &s);
    Diff::diff_with(&mut m2, &m);
    println!("{}", m2.is_empty());
    println!("{:?}", m.attributions(&BlockRange::new(ID::new(c, 1), 8)).len());
    println!("{:?}", m.as_id_set());
}
