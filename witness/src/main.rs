//! vx_witness: small-scope witness finder for the interval-set code of yrs
//! (`IdRanges<T>` driven through `yrs::IdSet` and `yrs::IdMap<u8>`).
//! Further targets (awareness register, y-sync messages, snapshots,
//! state-vector synchronisation) live in ext.rs / proto.rs / docs.rs.
//! See README.md.

mod alloc;
mod codecs;
mod converge;
mod dec;
mod docs;
mod evt; mod stk;
mod ext;
mod gaps;
mod hs;
mod json;
mod lww;
mod mapread;
mod model;
mod proto;
mod quote;
mod scale;
mod search;
mod seqread;
mod sut;
mod undo_w;
mod updlog;

use json::J;
use model::{Case, MAX_UNIVERSE};
use search::{Search, Stop};
use std::time::{Duration, Instant};

/// `System` plus the per-thread accounting the `decoders` target switches on (see alloc.rs).
#[global_allocator]
static ALLOCATOR: alloc::Tracking = alloc::Tracking;

/// First stage of every search (see `cmd_search`).
const SMALL_UNIVERSE: u32 = 3;

const USAGE: &str = "usage:
  vx_witness search <target> [--universe N] [--seed S] [--max-seconds T] [--jobs J]
                    [--ignore TEXT].. [--ignore-file PATH] [--collect] [--only FAMILY]..   (decoders, dec_all)
  vx_witness replay '<json>' | @path";

fn die(msg: &str) -> ! {
    eprintln!("vx_witness: {}", msg);
    std::process::exit(2);
}

fn main() {
    // panics of the code under test are caught and reported as JSON; keep stderr quiet
    // (VX_LOUD=1 keeps the default hook: shows message and location of a panic, for debugging)
    if std::env::var_os("VX_LOUD").is_none() {
        std::panic::set_hook(Box::new(|_| {}));
    }
    let args: Vec<String> = std::env::args().skip(1).collect();
    let code = match args.first().map(|s| s.as_str()) {
        Some("search") => cmd_search(&args[1..]),
        // hidden: a worker process of `search decoders|dec_all`, one case in a process of its
        // own, the sizes of the input families (see dec.rs)
        Some("dec-worker") => dec::cmd_worker(&args[1..]),
        Some("run-one") => dec::cmd_run_one(&args[1..]),
        Some("dec-inputs") => dec::cmd_inputs(),
        // hidden: which v2 run lengths / magnitudes the `codecs_scale` enumeration reaches (see scale.rs)
        Some("scale-cover") => scale::cmd_cover(&args[1..]),
        Some("replay") => cmd_replay(&args[1..]),
        _ => die(USAGE),
    };
    std::process::exit(code);
}

fn cmd_search(args: &[String]) -> i32 {
    let mut target: Option<String> = None;
    let mut universe: u32 = 8;
    let mut seed: u64 = 1;
    let mut max_seconds: Option<f64> = None;
    let mut jobs: usize = std::thread::available_parallelism()
        .map(|n| n.get())
        .unwrap_or(1)
        .min(8);
    let mut dec_opts = dec::Opts::default();
    let mut i = 0;
    while i < args.len() {
        let a = args[i].as_str();
        let mut value = |name: &str| -> String {
            i += 1;
            match args.get(i) {
                Some(v) => v.clone(),
                None => die(&format!("{} needs a value", name)),
            }
        };
        match a {
            "--universe" => {
                universe = value(a).parse().unwrap_or_else(|_| die("--universe: not a number"));
            }
            "--seed" => {
                seed = value(a).parse().unwrap_or_else(|_| die("--seed: not a number"));
            }
            "--max-seconds" => {
                max_seconds = Some(value(a).parse().unwrap_or_else(|_| die("--max-seconds: not a number")));
            }
            "--jobs" => {
                jobs = value(a).parse().unwrap_or_else(|_| die("--jobs: not a number"));
            }
            "--ignore" => dec_opts.ignore.push(value(a)),
            "--ignore-file" => {
                let path = value(a);
                let text = std::fs::read_to_string(&path).unwrap_or_else(|e| die(&format!("cannot read {}: {}", path, e)));
                dec_opts.ignore.extend(text.lines().map(|l| l.trim()).filter(|l| !l.is_empty() && !l.starts_with('#')).map(|l| l.to_string()));
            }
            "--collect" => dec_opts.collect = true,
            "--only" => dec_opts.only.push(value(a)),
            _ if a.starts_with("--") => die(&format!("unknown option {}\n{}", a, USAGE)),
            _ => {
                if target.is_some() {
                    die(USAGE);
                }
                target = Some(a.to_string());
            }
        }
        i += 1;
    }
    let target = target.unwrap_or_else(|| die(USAGE));
    // convergence / sequence order under every delivery schedule (converge.rs: converge | conv_seq | conv_map | conv_nested)
    if converge::is_target(&target) {
        let deadline = max_seconds.map(|t| Instant::now() + Duration::from_secs_f64(t.max(0.0)));
        return converge::cmd_search(&target, universe, jobs, deadline);
    }
    // update events as a replication log (updlog.rs: updlog | updlog_strict | updlog_peek)
    if updlog::is_target(&target) {
        let deadline = max_seconds.map(|t| Instant::now() + Duration::from_secs_f64(t.max(0.0)));
        return updlog::cmd_search(&target, universe, jobs, deadline);
    }
    // causal-gap buffer / state-vector sync between replicas with gaps (gaps.rs: gapsync | gap_sv | gap_pending | gap_strict)
    if gaps::is_target(&target) {
        let deadline = max_seconds.map(|t| Instant::now() + Duration::from_secs_f64(t.max(0.0)));
        return gaps::cmd_search(&target, universe, jobs, deadline);
    }
    // agreement of the read paths of maps / XML attributes (mapread.rs: mapread | map_paths | xml_attrs)
    if mapread::is_target(&target) {
        let deadline = max_seconds.map(|t| Instant::now() + Duration::from_secs_f64(t.max(0.0)));
        return mapread::cmd_search(&target, universe, jobs, deadline);
    }
    // agreement of the read paths of arrays / texts / XML trees (seqread.rs: seqread | seq_array | seq_text | seq_xml)
    if seqread::is_target(&target) {
        let deadline = max_seconds.map(|t| Instant::now() + Duration::from_secs_f64(t.max(0.0)));
        return seqread::cmd_search(&target, universe, jobs, deadline);
    }
    // quotations and map links (quote.rs: quote | quote_seq | quote_map | quote_obs)
    if quote::is_target(&target) {
        let deadline = max_seconds.map(|t| Instant::now() + Duration::from_secs_f64(t.max(0.0)));
        return quote::cmd_search(&target, universe, jobs, deadline);
    }
    // change events (evt.rs: events | evt_keys | evt_seq), sticky indexes (stk.rs: sticky | stk_offset | stk_codec)
    if evt::is_target(&target) || stk::is_target(&target) {
        let deadline = max_seconds.map(|t| Instant::now() + Duration::from_secs_f64(t.max(0.0)));
        let search = if evt::is_target(&target) { evt::cmd_search } else { stk::cmd_search };
        return search(&target, universe, jobs, deadline);
    }
    // undo manager as a step-exact undo / redo (undo_w.rs: undo)
    if undo_w::is_target(&target) {
        let deadline = max_seconds.map(|t| Instant::now() + Duration::from_secs_f64(t.max(0.0)));
        return undo_w::cmd_search(&target, universe, jobs, deadline);
    }
    // y-sync handshake, document half (hs.rs: handshake)
    if hs::is_target(&target) {
        let deadline = max_seconds.map(|t| Instant::now() + Duration::from_secs_f64(t.max(0.0)));
        return hs::cmd_search(&target, universe, jobs, deadline);
    }
    // last-writer-wins per map key / XML attribute (lww.rs: lww | lww_map | lww_attr | lww_nested)
    if lww::is_target(&target) {
        let deadline = max_seconds.map(|t| Instant::now() + Duration::from_secs_f64(t.max(0.0)));
        return lww::cmd_search(&target, universe, jobs, deadline);
    }
    // targets outside the interval-set code (see ext.rs)
    if let Some(parts) = ext::targets_for(&target) {
        let _ = dec::OPTS.set(dec_opts);
        let deadline = max_seconds.map(|t| Instant::now() + Duration::from_secs_f64(t.max(0.0)));
        return ext::cmd_search(&target, &parts, jobs, deadline);
    }
    if universe < 1 || universe > MAX_UNIVERSE {
        die(&format!("--universe must be in 1..={}", MAX_UNIVERSE));
    }
    let groups = search::groups_for(&target)
        .unwrap_or_else(|| die(&format!("unknown target {:?}; targets: {} | {} | {} | {} | {} | {} | {} | {} | {} | {} | {} | {}", target, undo_w::TARGETS, hs::TARGETS, seqread::TARGETS, lww::TARGETS,search::TARGETS, ext::TARGETS, evt::TARGETS, stk::TARGETS, mapread::TARGETS, quote::TARGETS, updlog::TARGETS, converge::TARGETS)));
    let mut s = Search {
        n: universe,
        seed,
        deadline: max_seconds.map(|t| Instant::now() + Duration::from_secs_f64(t.max(0.0))),
        jobs: jobs.max(1),
        cases: 0,
        single_client: true,
        two_clients: true,
        last_stage: true,
    };
    // Iterative deepening: a tiny universe first (everything exhaustive, a few
    // thousand cases, plus the two-client lists), so that a witness is as
    // small as possible; then the single-client lists of the requested universe.
    let stages: Vec<(u32, bool)> = if universe > SMALL_UNIVERSE {
        vec![(SMALL_UNIVERSE, true), (universe, false)]
    } else {
        vec![(universe, true)]
    };
    let mut truncated = false;
    let stage_count = stages.len();
    'stages: for (si, (n, two_clients)) in stages.into_iter().enumerate() {
        s.n = n;
        s.two_clients = two_clients;
        s.last_stage = si + 1 == stage_count;
        for (g, label) in &groups {
            match s.run_group(*g, label) {
                Ok(()) => {}
                Err(Stop::Found(found)) => {
                    println!("{}", search::found_json(&found.case, &found.failure));
                    return 1;
                }
                Err(Stop::Timeout) => {
                    truncated = true;
                    break 'stages;
                }
            }
        }
    }
    let mut out = vec![
        ("target", J::str(&target)),
        ("found", J::Bool(false)),
        ("cases", J::Num(s.cases as i64)),
        ("universe", J::num(universe)),
        ("seed", J::Num(seed as i64)),
    ];
    if truncated {
        // --max-seconds elapsed before the enumeration was complete
        out.push(("truncated", J::Bool(true)));
    }
    println!("{}", J::obj(out));
    0
}

fn cmd_replay(args: &[String]) -> i32 {
    if args.len() != 1 {
        die(USAGE);
    }
    let text = if let Some(path) = args[0].strip_prefix('@') {
        std::fs::read_to_string(path).unwrap_or_else(|e| die(&format!("cannot read {}: {}", path, e)))
    } else {
        args[0].clone()
    };
    let mut j = json::parse(text.trim()).unwrap_or_else(|e| die(&e));
    // a replay file may wrap the witness line: {"witness": {...}} or {"witness": "<json text>"}
    if let Some(w) = j.get("witness") {
        j = match w {
            J::Str(inner) => json::parse(inner.trim()).unwrap_or_else(|e| die(&format!("witness: {}", e))),
            other => other.clone(),
        };
    }
    if j.get("op").is_none() {
        die("replay: the JSON carries no case (no \"op\" field)");
    }
    if converge::owns(&j) {
        return converge::cmd_replay(&j).unwrap_or_else(|e| die(&format!("replay: {}", e)));
    }
    if updlog::owns(&j) {
        return updlog::cmd_replay(&j).unwrap_or_else(|e| die(&format!("replay: {}", e)));
    }
    if gaps::owns(&j) {
        return gaps::cmd_replay(&j).unwrap_or_else(|e| die(&format!("replay: {}", e)));
    }
    if quote::owns(&j) {
        return quote::cmd_replay(&j).unwrap_or_else(|e| die(&format!("replay: {}", e)));
    }
    if seqread::owns(&j) {
        return seqread::cmd_replay(&j).unwrap_or_else(|e| die(&format!("replay: {}", e)));
    }
    if mapread::owns(&j) {
        return mapread::cmd_replay(&j).unwrap_or_else(|e| die(&format!("replay: {}", e)));
    }
    if evt::owns(&j) || stk::owns(&j) {
        let replay =if evt::owns(&j) { evt::cmd_replay } else { stk::cmd_replay };
        return replay(&j).unwrap_or_else(|e| die(&format!("replay: {}", e)));
    }
    if undo_w::owns(&j) {
        return undo_w::cmd_replay(&j).unwrap_or_else(|e| die(&format!("replay: {}", e)));
    }
    if hs::owns(&j) {
        return hs::cmd_replay(&j).unwrap_or_else(|e| die(&format!("replay: {}", e)));
    }
    if lww::owns(&j) {
        return lww::cmd_replay(&j).unwrap_or_else(|e| die(&format!("replay: {}", e)));
    }
    if ext::owns(&j) {
        return ext::cmd_replay(&j).unwrap_or_else(|e| die(&format!("replay: {}", e)));
    }
    let case = Case::from_json(&j).unwrap_or_else(|e| die(&format!("replay: {}", e)));
    if let Err(e) = sut::validate(&case) {
        die(&format!("replay: {}", e));
    }
    match search::run_guarded(&case) {
        Ok(()) => {
            // every check passed: show what the real code returns now
            let actual = std::panic::catch_unwind(|| sut::actual_json(&case)).unwrap_or(J::Null);
            println!(
                "{}",
                J::obj(vec![("reproduced", J::Bool(false)), ("actual", actual)])
            );
            0
        }
        Err(f) => {
            println!(
                "{}",
                J::obj(vec![
                    ("reproduced", J::Bool(true)),
                    ("actual", f.actual),
                    ("expected", f.expected),
                    ("why", J::str(&f.why)),
                    ("api", J::str(&f.api)),
                ])
            );
            1
        }
    }
}
