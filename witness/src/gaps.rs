//! Targets `gapsync`, `gap_sv` (= `gap_unsent`), `gap_pending` (= `gap_stuck`) and the
//! diagnostic `gap_strict`, `gap_packaging`: the causal-gap buffer of a replica (updates that arrive before the updates they depend on)
//! and state-vector synchronisation between replicas that HAVE gaps.
//!
//! Two or three replicas (client ids 1..3, `skip_gc` both ways, lib0 v1 / v2) hold a root
//! Text `t`, a root Array `a` and a root Map `m`. A history is a sequence of steps
//!
//! * `transaction`: one local transaction of 1..2 operations (text insert at the start /
//!   middle / end, text removal, array insert, array removal, map set, map removal); the
//!   incremental update is captured through `Doc::observe_update_v1` / `_v2`;
//! * `deliver`: a captured update (named by sender and sequence number) is applied to
//!   another replica - in any order, as often as wanted, long after it was produced;
//! * `relay`: `from.encode_state_as_update(&sv)` is applied to `to`, `sv` being the empty
//!   vector (`full`) or the current state vector of `to` (`diff`) - whatever gaps `from` has.
//!
//! Everything written is unique (the character / number written by operation `client#clock`
//! names that operation), so positions and dependencies can be read back from the content.
//!
//! THE ORACLE contains no model of the CRDT and nothing of yrs' bookkeeping. It tracks, per
//! replica, the SET of operations (`client#clock`) it has been handed by any route (`recv`;
//! for a relay: the operations the bytes on the wire carry, read back through
//! `Update::insertions`, which must lie between what the property demands and what the sender
//! holds), the set of ids whose deletion it has been told (`delrecv`), and per operation two
//! dependency sets fixed when the operation was created:
//!   `def` DEFINITE dependencies: the operations left and right of the insertion point (read
//!         from the sender's content) when the sender holds no tombstones (with tombstones an
//!         insertion is anchored behind the removed elements that follow the position, which
//!         the content does not show), the visible map entry that is overwritten, the previous
//!         clock inside a multi-clock block;
//!   `ub`  an UPPER bound: `def` itself when it is complete (sender without tombstones, or a
//!         visible map entry), otherwise everything the sender had integrated at that moment
//!         (received and not in its stash) plus the earlier operations of the transaction.
//! `must = ` the largest subset of `recv` closed under `ub`  (every dependency is certainly there);
//! `may  = ` the largest subset of `recv` closed under `def` (no dependency is certainly absent).
//! Observed through the public API: the state vector, the operations the replica exports
//! WITHOUT its stash (`encode_diff(&empty)`: "integrated"), the stash
//! (`store().pending_update()`), the full export (`encode_state_as_update(&empty)`),
//! `has_missing_updates()`, `store().pending_ds()`, the delete set, the content.
//!
//! Checked after the last step of every history (histories are enumerated breadth first, so
//! every prefix is a case of its own):
//!  (O1) `sv(c)` == length of the clock prefix of client c among the integrated operations, and
//!       prefix(must) <= sv(c) <= prefix(may); the vector never decreases;
//!  (O2) `must` is integrated (nothing is stuck once its dependencies are there; under the K6
//!       tolerance below: `must` without the operations that follow, or depend on, a same-client
//!       operation outside `must`), nothing outside `may` is integrated; a deletion whose target
//!       is in `must` is applied, one whose target was never received is pending;
//!       `has_missing_updates()` is FALSE when `must == recv` and every deleted id was received,
//!       TRUE when something outside `may` was received or a deleted id was never received; in
//!       between (a dependency that is possible but not certain: only histories with tombstones)
//!       only `has_missing == stash or pending delete set present` is asserted;
//!  (O4) integrated + stashed == recv and full export == recv: nothing is lost, nothing is
//!       invented; a relay carries what it must; a FRESH replica that applies the full export
//!       of a replica with gaps obeys all of the above with the same `recv`;
//!  (O5) an update whose content is already known changes nothing;
//!  (C06) after a relay the receiver's vector dominates the sender's; the sender is unchanged;
//!  (O3) closing phase 1: every update is delivered to every replica that lacks it (descending
//!       creation order on replicas 1 and 3, ascending on replica 2): all replicas hold the
//!       join of the senders' vectors, nothing pending, equal content and delete sets, and
//!       delivering everything once more changes nothing; closing phase 2: the fresh copies of
//!       the gapped states exchange diffs pairwise until no vector changes (at most 4 rounds):
//!       same result.
//!
//! ENUMERATION (`stages`): breadth first over the number of steps (iterative deepening, all
//! configurations in turn, so a witness is as short as possible), one execution per history;
//! a history whose final state (replicas as observed above, raw encodings of store and stash,
//! the stash's retry clocks, the oracle's sets) was reached before is not extended again.
//! `--universe N` = at most N steps for 2 replicas / GC on / v1 with the basic alphabet (text
//! insert at the end and at the start, array push, map set, text removal; at most 4
//! transactions), N-1 steps for 3 replicas and for 2 replicas / GC off / v2, N-2 steps for
//! 3 replicas / GC off / v2 and for the wide alphabet (adds middle insertion, 2-character
//! insertion, removal of the last character, array insert at the start, array removal, a
//! second key, map removal, and three 2-operation transactions = one update with two blocks;
//! at most 3 transactions) with 2 (GC on) and 3 (GC off) replicas.
//!
//! TOLERATED, not reported by `gapsync`:
//! * own clock prefix (see `Case::strict`): a block whose OWN earlier clocks are missing but whose
//!   origins are all present is integrated at once behind a Skip placeholder;
//!   `has_missing_updates()` stays false although the state vector shows the gap. The search
//!   treats the own clock prefix as no dependency; `search gap_strict` treats it as one and
//!   reports the smallest such history.
//! * open known finding K6 (see `World::check`, `World::relay_between`): whether a block that
//!   lacks nothing is integrated depends on the packaging of the update that carries it;
//!   `search gap_packaging` reports it.
//!
//! HISTORY. On the tree of 2026-09-26 09:00 these checks found (all repaired in /repo since, each
//! is found again when its repair is reverted): G1 a stash whose missing dependency lies INSIDE a
//! gap was never retried (retry clock = end of the block list); G2 the diff a replica with a gap
//! encodes against a peer's vector omitted the blocks it holds BEHIND the gap (local side = the
//! lowered vector); G3 a retried stash forgot the external dependency it was waiting for (4
//! single-insert updates of 2 clients); and two regressions of intermediate repairs (local
//! update events re-emitting remote blocks; a dependency arriving behind a gap triggering no
//! retry).

use crate::evt::{at, fail, finish, finish_replay, guarded, Found, Hunt, Stop, Tally};
use crate::json::J;
use crate::model::Failure;
use std::collections::HashSet;
use std::hash::{Hash, Hasher};
use std::panic::{catch_unwind, AssertUnwindSafe};
use std::sync::{Arc, Mutex};
use std::time::Instant;
use yrs::updates::decoder::Decode;
use yrs::updates::encoder::Encode;
use yrs::{
    Any, Array, ArrayRef, ClientID, Doc, GetString, IdSet, Map, MapRef, Options, Out, ReadTxn, StateVector, Subscription, Text,
    TextRef, Transact, Update,
};

#[allow(dead_code)]
pub const TARGETS: &str = "gapsync | gap_sv | gap_unsent | gap_pending | gap_stuck | gap_strict | gap_packaging";

/// `gap_unsent` = `gap_sv`, `gap_stuck` = `gap_pending` (names of the two defects these groups of
/// checks found on the tree of 2026-09-26 09:00, repaired since); `gap_strict` and `gap_packaging`
/// switch a documented tolerance off and are EXPECTED to report (not part of `gapsync`);
/// `gap_cross` = `gapsync` while TOLERATE_CROSS_STASH is off.
pub fn is_target(target: &str) -> bool {
    matches!(target, "gapsync" | "gap_sv" | "gap_pending" | "gap_strict" | "gap_stuck" | "gap_unsent" | "gap_packaging" | "gap_cross")
}

/// Tolerate the known stuck shape described at `World::shape` (switch off once /repo is repaired).
const TOLERATE_CROSS_STASH: bool = false;


/// Is this witness line one of ours?
pub fn owns(j: &J) -> bool {
    j.get("target").and_then(|t| t.as_str()).map(is_target).unwrap_or(false)
}

// ---------------------------------------------------------------------------
// operation sets
// ---------------------------------------------------------------------------

/// Clocks per client are kept below this (letters name them).
const MAX_CLOCK: u32 = 26;
/// Index = client id (1..=3; 0 unused), bit k = clock k.
type OpSet = [u32; 4];
const NONE: OpSet = [0; 4];

fn subset(a: &OpSet, b: &OpSet) -> bool {
    (0..4).all(|i| a[i] & !b[i] == 0)
}
fn union(a: &OpSet, b: &OpSet) -> OpSet {
    [a[0] | b[0], a[1] | b[1], a[2] | b[2], a[3] | b[3]]
}
fn minus(a: &OpSet, b: &OpSet) -> OpSet {
    [a[0] & !b[0], a[1] & !b[1], a[2] & !b[2], a[3] & !b[3]]
}
fn inter(a: &OpSet, b: &OpSet) -> OpSet {
    [a[0] & b[0], a[1] & b[1], a[2] & b[2], a[3] & b[3]]
}
fn empty(a: &OpSet) -> bool {
    a.iter().all(|x| *x == 0)
}
/// Length of the clock prefix [0, n) contained in the bit set.
fn prefix(bits: u32) -> u32 {
    (!bits).trailing_zeros()
}

/// `["1#0-2","2#1"]`
fn set_json(s: &OpSet) -> J {
    let mut out = Vec::new();
    for c in 1..4 {
        let mut k = 0;
        while k < 32 {
            if s[c] & (1 << k) != 0 {
                let start = k;
                while k + 1 < 32 && s[c] & (1 << (k + 1)) != 0 {
                    k += 1;
                }
                out.push(J::Str(if k == start { format!("{}#{}", c, start) } else { format!("{}#{}-{}", c, start, k) }));
            }
            k += 1;
        }
    }
    J::Arr(out)
}

fn sv_json(sv: &[u32; 4]) -> J {
    J::Arr((1..4).filter(|c| sv[*c] > 0).map(|c| J::Arr(vec![J::Num(c as i64), J::num(sv[c])])).collect())
}

/// The ids of an `IdSet`; an id outside clients 1..3 / clocks below 32 is no operation of the history.
fn opset_of(ids: &IdSet, what: &str, api: &str) -> Result<OpSet, Failure> {
    let mut out = NONE;
    for (client, ranges) in ids.iter() {
        let c = client.get();
        for r in ranges.iter() {
            if r.start >= r.end {
                continue;
            }
            if !(1..=3).contains(&c) || r.end > 32 {
                return Err(fail(
                    &format!("{} names an id that no replica of the history ever produced", what),
                    api,
                    J::str("ids of clients 1..3 with the clocks the history produced"),
                    J::Str(format!("client {} clocks {}..{}", c, r.start, r.end)),
                ));
            }
            for k in r.start..r.end {
                out[c as usize] |= 1 << k;
            }
        }
    }
    Ok(out)
}

// ---------------------------------------------------------------------------
// cases
// ---------------------------------------------------------------------------

#[derive(Clone, Copy, Debug, PartialEq, Eq, Hash)]
pub enum Pos {
    Start,
    Mid,
    End,
}

const KEYS: [&str; 2] = ["k", "j"];

#[derive(Clone, Debug, PartialEq, Eq, Hash)]
pub enum Op {
    /// `Text::insert` of `n` fresh characters at the start, at `len / 2` (needs 2 characters) or at the end.
    TIns { at: Pos, n: u32 },
    /// `Text::remove_range` of the first / the last character.
    TDel { last: bool },
    /// `Array::insert` of one fresh number at the start (needs 1 element) or the end.
    AIns { at: Pos },
    /// `Array::remove` of the first / last element.
    ADel { last: bool },
    /// `Map::insert(KEYS[key], fresh number)`.
    MSet { key: usize },
    /// `Map::remove(KEYS[key])` of a present key.
    MDel { key: usize },
}

impl Op {
    fn clocks(&self) -> u32 {
        match self {
            Op::TIns { n, .. } => *n,
            Op::AIns { .. } | Op::MSet { .. } => 1,
            _ => 0,
        }
    }

    fn json(&self) -> J {
        let pos = |p: &Pos| {
            J::str(match p {
                Pos::Start => "start",
                Pos::Mid => "mid",
                Pos::End => "end",
            })
        };
        let which = |last: &bool| J::str(if *last { "last" } else { "first" });
        match self {
            Op::TIns { at, n } => J::obj(vec![("op", J::str("text_insert")), ("at", pos(at)), ("chars", J::num(*n))]),
            Op::TDel { last } => J::obj(vec![("op", J::str("text_remove")), ("at", which(last))]),
            Op::AIns { at } => J::obj(vec![("op", J::str("array_insert")), ("at", pos(at))]),
            Op::ADel { last } => J::obj(vec![("op", J::str("array_remove")), ("at", which(last))]),
            Op::MSet { key } => J::obj(vec![("op", J::str("map_set")), ("key", J::str(KEYS[*key]))]),
            Op::MDel { key } => J::obj(vec![("op", J::str("map_remove")), ("key", J::str(KEYS[*key]))]),
        }
    }

    fn from_json(j: &J, what: &str) -> Result<Op, String> {
        let pos = || -> Result<Pos, String> {
            match j.get("at").and_then(|a| a.as_str()) {
                Some("start") => Ok(Pos::Start),
                Some("mid") => Ok(Pos::Mid),
                Some("end") => Ok(Pos::End),
                _ => Err(format!("{}.at: start | mid | end", what)),
            }
        };
        let last = || -> Result<bool, String> {
            match j.get("at").and_then(|a| a.as_str()) {
                Some("first") => Ok(false),
                Some("last") => Ok(true),
                _ => Err(format!("{}.at: first | last", what)),
            }
        };
        let key = || -> Result<usize, String> {
            let k = j.get("key").and_then(|k| k.as_str()).unwrap_or("");
            KEYS.iter().position(|n| *n == k).ok_or_else(|| format!("{}.key: k | j", what))
        };
        match j.get("op").and_then(|o| o.as_str()) {
            Some("text_insert") => {
                let n = j.get_non_null("chars").and_then(|n| n.as_i64()).unwrap_or(1);
                if !(1..=4).contains(&n) {
                    return Err(format!("{}.chars: 1..=4", what));
                }
                Ok(Op::TIns { at: pos()?, n: n as u32 })
            }
            Some("text_remove") => Ok(Op::TDel { last: last()? }),
            Some("array_insert") => {
                let at = pos()?;
                if at == Pos::Mid {
                    return Err(format!("{}.at: start | end", what));
                }
                Ok(Op::AIns { at })
            }
            Some("array_remove") => Ok(Op::ADel { last: last()? }),
            Some("map_set") => Ok(Op::MSet { key: key()? }),
            Some("map_remove") => Ok(Op::MDel { key: key()? }),
            _ => Err(format!(
                "{}.op: text_insert | text_remove | array_insert | array_remove | map_set | map_remove",
                what
            )),
        }
    }
}

/// Replicas are numbered from 0 here, from 1 (= client id) in the JSON.
#[derive(Clone, Debug, PartialEq, Eq, Hash)]
pub enum Step {
    Txn { r: usize, ops: Vec<Op> },
    /// The `seq`-th captured update of replica `of`, applied to replica `to`.
    Deliver { of: usize, seq: usize, to: usize },
    Relay { from: usize, to: usize, full: bool },
}

impl Step {
    fn json(&self) -> J {
        match self {
            Step::Txn { r, ops } => J::obj(vec![
                ("step", J::str("transaction")),
                ("replica", J::Num(*r as i64 + 1)),
                ("ops", J::Arr(ops.iter().map(|o| o.json()).collect())),
            ]),
            Step::Deliver { of, seq, to } => J::obj(vec![
                ("step", J::str("deliver")),
                ("update", J::Arr(vec![J::Num(*of as i64 + 1), J::Num(*seq as i64)])),
                ("to", J::Num(*to as i64 + 1)),
            ]),
            Step::Relay { from, to, full } => J::obj(vec![
                ("step", J::str("relay")),
                ("from", J::Num(*from as i64 + 1)),
                ("to", J::Num(*to as i64 + 1)),
                ("state", J::str(if *full { "full" } else { "diff" })),
            ]),
        }
    }
}

/// Which groups of checks report.
#[derive(Clone, Copy, Debug, PartialEq)]
struct Arm {
    sv: bool,
    pending: bool,
}

#[derive(Clone, Debug)]
pub struct Case {
    pub target: String,
    pub replicas: usize,
    /// Garbage collection on (`skip_gc = false`).
    pub gc: bool,
    /// Updates are captured, relayed and decoded in lib0 v2 (otherwise v1).
    pub v2: bool,
    /// Treat the own earlier clocks of an operation as a definite dependency (see the module text).
    pub strict: bool,
    /// Waive the liveness checks on a replica that is in the KNOWN stuck shape of the current
    /// tree (see `World::shape`); `false` for the target `gap_cross`, which reports it.
    pub tolerate: bool,
    /// Tolerate the open known finding K6 (see `World::check`); `false` for the target
    /// `gap_packaging`, which reports it.
    pub tolerate_packaging: bool,
    pub steps: Vec<Step>,
}

impl Case {
    fn arm(&self) -> Arm {
        Arm {
            sv: !matches!(self.target.as_str(), "gap_pending" | "gap_stuck"),
            pending: !matches!(self.target.as_str(), "gap_sv" | "gap_unsent"),
        }
    }

    fn fields(&self, steps: &[Step]) -> Vec<(&'static str, J)> {
        let mut op = vec![
            ("kind", J::str("gapsync")),
            ("replicas", J::Num(self.replicas as i64)),
            ("gc", J::Bool(self.gc)),
            ("enc", J::str(if self.v2 { "v2" } else { "v1" })),
        ];
        if self.strict {
            op.push(("own_clock_prefix_is_a_dependency", J::Bool(true)));
        }
        if !self.tolerate_packaging {
            op.push(("tolerate_packaging_k6", J::Bool(false)));
        }
        if self.tolerate != TOLERATE_CROSS_STASH {
            op.push(("tolerate_cross_dependent_stash", J::Bool(self.tolerate)));
        }
        op.push(("steps", J::Arr(steps.iter().map(|s| s.json()).collect())));
        vec![
            ("target", J::str(&self.target)),
            ("variant", J::Str(format!("{}_replicas", self.replicas))),
            ("op", J::obj(op)),
        ]
    }

    pub fn from_json(j: &J) -> Result<Case, String> {
        let target = j.get("target").and_then(|t| t.as_str()).unwrap_or("gapsync").to_string();
        let op = j.get("op").ok_or("op missing")?;
        let replicas = match op.get_non_null("replicas").map(|r| r.as_i64()) {
            None | Some(Some(2)) => 2usize,
            Some(Some(3)) => 3,
            _ => return Err("op.replicas: 2 | 3".into()),
        };
        let flag = |key: &str, default: bool| -> Result<bool, String> {
            match op.get_non_null(key) {
                None => Ok(default),
                Some(J::Bool(b)) => Ok(*b),
                _ => Err(format!("op.{}: true | false", key)),
            }
        };
        let v2 = match op.get_non_null("enc").map(|e| e.as_str()) {
            None | Some(Some("v1")) => false,
            Some(Some("v2")) => true,
            _ => return Err("op.enc: v1 | v2".into()),
        };
        let replica = |j: Option<&J>, what: &str| -> Result<usize, String> {
            match j.and_then(|v| v.as_i64()) {
                Some(n) if n >= 1 && n <= replicas as i64 => Ok(n as usize - 1),
                _ => Err(format!("{}: expected a replica in 1..={}", what, replicas)),
            }
        };
        let arr = op.get("steps").and_then(|s| s.as_arr()).ok_or("op.steps: expected an array")?;
        let mut steps = Vec::new();
        for (i, st) in arr.iter().enumerate() {
            let what = format!("op.steps[{}]", i);
            match st.get("step").and_then(|s| s.as_str()) {
                Some("transaction") => {
                    let r = replica(st.get("replica"), &format!("{}.replica", what))?;
                    let ops_j = st.get("ops").and_then(|o| o.as_arr()).ok_or_else(|| format!("{}.ops missing", what))?;
                    let mut ops = Vec::new();
                    for (k, o) in ops_j.iter().enumerate() {
                        ops.push(Op::from_json(o, &format!("{}.ops[{}]", what, k))?);
                    }
                    if ops.is_empty() {
                        return Err(format!("{}.ops: empty", what));
                    }
                    steps.push(Step::Txn { r, ops });
                }
                Some("deliver") => {
                    let u = st.get("update").and_then(|u| u.as_arr()).ok_or_else(|| format!("{}.update: [replica, number]", what))?;
                    if u.len() != 2 {
                        return Err(format!("{}.update: [replica, number]", what));
                    }
                    let of = replica(Some(&u[0]), &format!("{}.update[0]", what))?;
                    let seq = match u[1].as_i64() {
                        Some(n) if (0..64).contains(&n) => n as usize,
                        _ => return Err(format!("{}.update[1]: a sequence number", what)),
                    };
                    let to = replica(st.get("to"), &format!("{}.to", what))?;
                    if to == of {
                        return Err(format!("{}: an update is not delivered to its own sender", what));
                    }
                    steps.push(Step::Deliver { of, seq, to });
                }
                Some("relay") => {
                    let from = replica(st.get("from"), &format!("{}.from", what))?;
                    let to = replica(st.get("to"), &format!("{}.to", what))?;
                    if from == to {
                        return Err(format!("{}: from and to must differ", what));
                    }
                    let full = match st.get("state").and_then(|s| s.as_str()) {
                        Some("full") => true,
                        Some("diff") | None => false,
                        _ => return Err(format!("{}.state: full | diff", what)),
                    };
                    steps.push(Step::Relay { from, to, full });
                }
                _ => return Err(format!("{}.step: transaction | deliver | relay", what)),
            }
        }
        Ok(Case {
            target,
            replicas,
            gc: flag("gc", true)?,
            v2,
            strict: flag("own_clock_prefix_is_a_dependency", false)?,
            // (witness lines written before the repairs of 2026-09-26 carry `tolerate_stuck_behind_gap` /
            // `tolerate_unsent_behind_gap`: those two shapes are ordinary disagreements now, the keys are ignored)
            tolerate: flag("tolerate_cross_dependent_stash", TOLERATE_CROSS_STASH)?,
            tolerate_packaging: flag("tolerate_packaging_k6", true)?,
            steps,
        })
    }
}

// ---------------------------------------------------------------------------
// replicas
// ---------------------------------------------------------------------------

const TEXT: &str = "t";
const SEQ: &str = "a";
const MAP: &str = "m";

/// The character operation `client#clock` writes into the text.
fn letter(client: usize, clock: u32) -> char {
    let base = match client {
        1 => b'a',
        2 => b'A',
        _ => b'!',
    };
    (base + clock as u8) as char
}

fn id_of_letter(ch: char) -> Option<(usize, u32)> {
    let b = ch as u32;
    if (b'a' as u32..b'a' as u32 + MAX_CLOCK).contains(&b) {
        Some((1, b - b'a' as u32))
    } else if (b'A' as u32..b'A' as u32 + MAX_CLOCK).contains(&b) {
        Some((2, b - b'A' as u32))
    } else if (b'!' as u32..b'!' as u32 + MAX_CLOCK).contains(&b) {
        Some((3, b - b'!' as u32))
    } else {
        None
    }
}

/// The number operation `client#clock` writes into the array / the map.
fn number(client: usize, clock: u32) -> i64 {
    client as i64 * 100 + clock as i64
}

fn id_of_number(n: i64) -> Option<(usize, u32)> {
    if (100..400).contains(&n) && (n % 100) < MAX_CLOCK as i64 {
        Some(((n / 100) as usize, (n % 100) as u32))
    } else {
        None
    }
}

fn out_number(o: &Out) -> i64 {
    match o {
        Out::Any(Any::BigInt(n)) => *n,
        Out::Any(Any::Number(f)) if f.fract() == 0.0 && f.abs() < 1e15 => *f as i64,
        _ => -1,
    }
}

#[derive(Clone, Debug, PartialEq, Default, Hash)]
struct Content {
    text: String,
    arr: Vec<i64>,
    map: [Option<i64>; 2],
}

impl Content {
    fn json(&self) -> J {
        J::obj(vec![
            ("t", J::str(&self.text)),
            ("a", J::Arr(self.arr.iter().map(|v| J::Num(*v)).collect())),
            (
                "m",
                J::Obj(
                    (0..2)
                        .filter_map(|k| self.map[k].map(|v| (KEYS[k].to_string(), J::Num(v))))
                        .collect(),
                ),
            ),
        ])
    }
}

struct Rep {
    client: usize,
    doc: Doc,
    text: TextRef,
    seq: ArrayRef,
    map: MapRef,
    log: Arc<Mutex<Vec<Vec<u8>>>>,
    _sub: Option<Subscription>,
}

fn lock<T>(m: &Mutex<T>) -> std::sync::MutexGuard<'_, T> {
    m.lock().unwrap_or_else(|e| e.into_inner())
}

fn new_rep(client: usize, gc: bool, v2: bool, capture: bool) -> Result<Rep, Failure> {
    at("Doc::with_options");
    let mut options = Options::with_client_id(ClientID::new(client as u64));
    options.skip_gc = !gc;
    let doc = Doc::with_options(options);
    at("Doc::get_or_insert_text / get_or_insert_array / get_or_insert_map");
    let text = doc.get_or_insert_text(TEXT);
    let seq = doc.get_or_insert_array(SEQ);
    let map = doc.get_or_insert_map(MAP);
    let log = Arc::new(Mutex::new(Vec::new()));
    let sub = if capture {
        let sink = log.clone();
        let api = if v2 { "Doc::observe_update_v2" } else { "Doc::observe_update_v1" };
        at(api);
        let res = if v2 {
            doc.observe_update_v2(move |_, e| lock(&sink).push(e.update.clone()))
        } else {
            doc.observe_update_v1(move |_, e| lock(&sink).push(e.update.clone()))
        };
        match res {
            Ok(s) => Some(s),
            Err(_) => return Err(fail("the update observer cannot be attached", api, J::str("Ok"), J::str("Err"))),
        }
    } else {
        None
    };
    Ok(Rep {
        client,
        doc,
        text,
        seq,
        map,
        log,
        _sub: sub,
    })
}

impl Rep {
    fn content<T: ReadTxn>(&self, txn: &T) -> Content {
        at("Text::get_string / Array::iter / Map::get");
        Content {
            text: self.text.get_string(txn),
            arr: self.seq.iter(txn).map(|v| out_number(&v)).collect(),
            map: [
                self.map.get(txn, KEYS[0]).map(|v| out_number(&v)),
                self.map.get(txn, KEYS[1]).map(|v| out_number(&v)),
            ],
        }
    }

    fn sv(&self) -> Result<[u32; 4], Failure> {
        at("ReadTxn::state_vector");
        let sv = self.doc.transact().state_vector();
        sv_array(&sv, self.client)
    }
}

fn sv_array(sv: &StateVector, replica: usize) -> Result<[u32; 4], Failure> {
    let mut out = [0u32; 4];
    for (c, k) in sv.iter() {
        let c = c.get();
        if *k == 0 {
            continue;
        }
        if !(1..=3).contains(&c) || *k > 32 {
            return Err(fail(
                "the state vector names a client / clock that no replica of the history ever produced",
                "ReadTxn::state_vector",
                J::str("clients 1..3"),
                J::obj(vec![("replica", J::Num(replica as i64)), ("client", J::Num(c as i64)), ("clock", J::num(*k))]),
            ));
        }
        out[c as usize] = *k;
    }
    Ok(out)
}

fn decode(bytes: &[u8], v2: bool) -> Result<Update, String> {
    if v2 {
        Update::decode_v2(bytes).map_err(|e| e.to_string())
    } else {
        Update::decode_v1(bytes).map_err(|e| e.to_string())
    }
}

fn bytes_json(b: &[u8]) -> J {
    J::Arr(b.iter().map(|x| J::num(*x)).collect())
}

/// Everything observable about a replica.
#[derive(Clone, Debug, PartialEq)]
struct Obs {
    sv: [u32; 4],
    /// Operations the replica exports without its stash (`encode_diff(&empty)`).
    integrated: OpSet,
    /// Operations of `store().pending_update()`.
    stashed: OpSet,
    /// Operations of `encode_state_as_update(&empty)`.
    exported: OpSet,
    /// Deleted ids (delete set of `encode_diff(&empty)`).
    ds: OpSet,
    /// Delete set of the full export.
    exported_ds: OpSet,
    /// `store().pending_ds()`.
    pend_ds: OpSet,
    has_missing: bool,
    stash_present: bool,
    pend_ds_present: bool,
    content: Content,
}

impl Obs {
    fn json(&self) -> J {
        J::obj(vec![
            ("state_vector", sv_json(&self.sv)),
            ("integrated", set_json(&self.integrated)),
            ("stashed", set_json(&self.stashed)),
            ("full_export", set_json(&self.exported)),
            ("has_missing_updates", J::Bool(self.has_missing)),
            ("deleted", set_json(&self.ds)),
            ("pending_deletes", set_json(&self.pend_ds)),
            ("content", self.content.json()),
        ])
    }
}

/// `fingerprint`: also feed the raw encodings (block boundaries, origins, the retry clocks of the stash).
fn observe(rep: &Rep, v2: bool, mut fingerprint: Option<&mut Fp>) -> Result<Obs, Failure> {
    let sv = rep.sv()?;
    let txn = rep.doc.transact();
    let empty_sv = StateVector::default();
    let api_diff = if v2 { "ReadTxn::encode_diff_v2(&empty)" } else { "ReadTxn::encode_diff_v1(&empty)" };
    at(api_diff);
    let diff = if v2 { txn.encode_diff_v2(&empty_sv) } else { txn.encode_diff_v1(&empty_sv) };
    let diff_u = decode(&diff, v2).map_err(|e| {
        fail(
            "an update just encoded does not decode",
            api_diff,
            J::str("Ok"),
            J::obj(vec![("replica", J::Num(rep.client as i64)), ("error", J::str(&e)), ("bytes", bytes_json(&diff))]),
        )
    })?;
    let integrated = opset_of(&diff_u.insertions(true), "the export of a replica", api_diff)?;
    let ds = opset_of(diff_u.delete_set(), "the delete set of a replica", api_diff)?;
    let api_full = if v2 { "ReadTxn::encode_state_as_update_v2(&empty)" } else { "ReadTxn::encode_state_as_update_v1(&empty)" };
    at(api_full);
    let full = if v2 { txn.encode_state_as_update_v2(&empty_sv) } else { txn.encode_state_as_update_v1(&empty_sv) };
    let full_u = decode(&full, v2).map_err(|e| {
        fail(
            "an update just encoded does not decode",
            api_full,
            J::str("Ok"),
            J::obj(vec![("replica", J::Num(rep.client as i64)), ("error", J::str(&e)), ("bytes", bytes_json(&full))]),
        )
    })?;
    let exported = opset_of(&full_u.insertions(true), "the full export of a replica", api_full)?;
    let exported_ds = opset_of(full_u.delete_set(), "the delete set of the full export", api_full)?;
    at("Store::pending_update / Store::pending_ds");
    let store = txn.store();
    let mut stashed = NONE;
    let stash_present = store.pending_update().is_some();
    if let Some(p) = store.pending_update() {
        stashed = opset_of(&p.update.insertions(true), "the stash", "Store::pending_update")?;
        if let Some(fp) = fingerprint.as_deref_mut() {
            p.update.encode_v1().hash(fp);
            let mut missing: Vec<(u64, u32)> = p.missing.iter().map(|(c, k)| (c.get(), *k)).collect();
            missing.sort();
            missing.hash(fp);
        }
    }
    let pend_ds_present = store.pending_ds().is_some();
    let pend_ds = match store.pending_ds() {
        Some(d) => opset_of(d, "the pending delete set", "Store::pending_ds")?,
        None => NONE,
    };
    at("ReadTxn::has_missing_updates");
    let has_missing = txn.has_missing_updates();
    let content = rep.content(&txn);
    if let Some(fp) = fingerprint {
        sv.hash(fp);
        diff.hash(fp);
        pend_ds.hash(fp);
        stash_present.hash(fp);
        pend_ds_present.hash(fp);
        content.hash(fp);
    }
    Ok(Obs {
        sv,
        integrated,
        stashed,
        exported,
        ds,
        exported_ds,
        pend_ds,
        has_missing,
        stash_present,
        pend_ds_present,
        content,
    })
}

/// 128 bits from two differently salted SipHash states.
struct Fp(std::collections::hash_map::DefaultHasher, std::collections::hash_map::DefaultHasher);

impl Fp {
    fn new() -> Fp {
        let a = std::collections::hash_map::DefaultHasher::new();
        let mut b = std::collections::hash_map::DefaultHasher::new();
        b.write_u64(0x9e37_79b9_7f4a_7c15);
        Fp(a, b)
    }
    fn value(&self) -> u128 {
        ((self.0.finish() as u128) << 64) | self.1.finish() as u128
    }
}

impl Hasher for Fp {
    fn finish(&self) -> u64 {
        self.0.finish()
    }
    fn write(&mut self, bytes: &[u8]) {
        self.0.write(bytes);
        self.1.write(bytes);
    }
}

// ---------------------------------------------------------------------------
// the oracle's bookkeeping
// ---------------------------------------------------------------------------

#[derive(Clone, Debug)]
struct Upd {
    bytes: Vec<u8>,
    /// Operations the update carries.
    ops: OpSet,
    /// Ids the update deletes (read back from its delete set).
    dels: OpSet,
    /// Position in creation order.
    born: usize,
}

#[derive(Clone, Debug, Default)]
struct Model {
    /// Next clock per client.
    next: [u32; 4],
    /// Per replica: operations handed to it by any route (its own included).
    recv: Vec<OpSet>,
    /// Per replica: ids whose deletion it was told (or performed).
    delrecv: Vec<OpSet>,
    /// Per client and clock: upper bound / definite part of the dependencies.
    ub: [Vec<OpSet>; 4],
    def: [Vec<OpSet>; 4],
    /// Per replica: its captured updates.
    updates: Vec<Vec<Upd>>,
    born: usize,
}

impl Model {
    fn all_ops(&self) -> OpSet {
        let mut s = NONE;
        for c in 1..4 {
            s[c] = if self.next[c] == 0 { 0 } else { (1u32 << self.next[c]) - 1 };
        }
        s
    }

    /// The largest subset of `recv` that contains the dependencies (`ub` or `def`) of each member.
    fn closure(&self, recv: &OpSet, definite: bool) -> OpSet {
        let deps = if definite { &self.def } else { &self.ub };
        let mut s = *recv;
        loop {
            let mut changed = false;
            for c in 1..4 {
                let mut bits = s[c];
                while bits != 0 {
                    let k = bits.trailing_zeros();
                    bits &= bits - 1;
                    let d = deps[c].get(k as usize).copied().unwrap_or(NONE);
                    if !subset(&d, &s) {
                        s[c] &= !(1 << k);
                        changed = true;
                    }
                }
            }
            if !changed {
                return s;
            }
        }
    }

    fn hash_into(&self, fp: &mut Fp) {
        self.next.hash(fp);
        self.recv.hash(fp);
        self.delrecv.hash(fp);
        self.ub.hash(fp);
        self.def.hash(fp);
        for us in &self.updates {
            us.len().hash(fp);
            for u in us {
                u.bytes.hash(fp);
            }
        }
    }
}

/// What a passing run tells about the final state (needed to extend the history).
#[derive(Clone, Debug, Default)]
pub struct Info {
    /// Per replica: characters, elements, present keys.
    lens: Vec<(usize, usize, [bool; 2])>,
    next: [u32; 4],
    updates: Vec<usize>,
    txns: usize,
    /// Per replica: it holds something to relay.
    holds: Vec<bool>,
    fingerprint: u128,
}

/// A script that cannot be executed (replay of a hand-written case) or whose last step has no effect.
fn invalid(why: String) -> Failure {
    Failure {
        why: format!("invalid case: {}", why),
        expected: J::Null,
        actual: J::Null,
        api: "(none)".to_string(),
    }
}

fn is_invalid(f: &Failure) -> bool {
    f.why.starts_with("invalid case: ")
}

struct World<'a> {
    case: &'a Case,
    arm: Arm,
    reps: Vec<Rep>,
    m: Model,
    /// Per replica: it is in the known stuck shape (see `retaint`).
    taint: Vec<bool>,
}

/// The operations of `store().pending_update()` (a cheap read: nothing is encoded).
fn stash_of(rep: &Rep) -> Result<OpSet, Failure> {
    at("Store::pending_update");
    let txn = rep.doc.transact();
    match txn.store().pending_update() {
        Some(p) => opset_of(&p.update.insertions(true), "the stash", "Store::pending_update"),
        None => Ok(NONE),
    }
}

/// Fresh replicas that applied the full export of each replica, with the oracle's sets.
struct Copies {
    reps: Vec<Rep>,
    recvs: Vec<OpSet>,
    dels: Vec<OpSet>,
    taint: Vec<bool>,
}

/// Runs `f` on an open read-write transaction; a panic inside leaves the transaction
/// un-dropped (its destructor commits, and a second panic while unwinding would abort).
fn with_txn<T>(doc: &Doc, f: impl FnOnce(&mut yrs::TransactionMut) -> T) -> T {
    let mut txn = doc.transact_mut();
    match catch_unwind(AssertUnwindSafe(|| f(&mut txn))) {
        Ok(v) => {
            drop(txn); // commit; a panic here is a first panic and is caught by `guarded`
            v
        }
        Err(payload) => {
            std::mem::forget(txn);
            std::panic::resume_unwind(payload)
        }
    }
}

impl<'a> World<'a> {
    fn new(case: &'a Case) -> Result<World<'a>, Failure> {
        let mut reps = Vec::new();
        for r in 0..case.replicas {
            reps.push(new_rep(r + 1, case.gc, case.v2, true)?);
        }
        let m = Model {
            recv: vec![NONE; case.replicas],
            delrecv: vec![NONE; case.replicas],
            updates: vec![Vec::new(); case.replicas],
            ..Model::default()
        };
        Ok(World {
            case,
            arm: case.arm(),
            reps,
            m,
            taint: vec![false; case.replicas],
        })
    }

    /// SWITCHED OFF (TOLERATE_CROSS_STASH = false): the defect (G3) is repaired in /repo; the
    /// recognition is kept so that the tolerance can be switched on for an older tree.
    /// The defect (inherited from Yjs): a stash that holds operations of two clients where one may depend on the
    /// other can forget what it is waiting for. When such a stash is retried and fails again,
    /// the retry records only the dependency at which it gave up - an operation INSIDE the stash
    /// - and drops the external dependency recorded earlier; the arrival of that external
    /// dependency then triggers no retry and the stash stays although everything was delivered
    /// (until the other client produces a newer clock). Smallest history: client 1 writes "a"
    /// (1#0); client 2, knowing it, pushes onto the array (2#0) and appends "B" (2#1, behind
    /// 1#0); client 1, knowing 2#1, appends "b" (1#1, behind 2#1); a third replica receives
    /// the updates 1#1, 2#1, 2#0, 1#0 in this order and ends with 1#1 and 2#1 stashed,
    /// has_missing_updates() == true.
    /// Recognised from the oracle's sets and the stash alone: the stash holds x and y of
    /// DIFFERENT clients with y among the possible dependencies of x. From then on, and until its
    /// stash is empty again, the LIVENESS checks (stuck / state vector lower bound /
    /// has_missing == false / deletions due / convergence / idempotence) are waived for that
    /// replica; the safety checks (nothing lost, nothing invented, state vector == first
    /// missing clock, upper bounds, relays) stay.
    fn shape(&self, tainted: bool, rep: &Rep, _recv: &OpSet) -> Result<bool, Failure> {
        if !self.case.tolerate {
            return Ok(false);
        }
        let stashed = stash_of(rep)?;
        if empty(&stashed) {
            return Ok(false);
        }
        if tainted {
            return Ok(true);
        }
        for xc in 1..4 {
            let mut bits = stashed[xc];
            while bits != 0 {
                let xk = bits.trailing_zeros() as usize;
                bits &= bits - 1;
                let mut inside = inter(&self.m.ub[xc].get(xk).copied().unwrap_or(NONE), &stashed);
                inside[xc] = 0;
                if !empty(&inside) {
                    return Ok(true);
                }
            }
        }
        Ok(false)
    }

    fn retaint(&mut self, r: usize) -> Result<(), Failure> {
        self.taint[r] = self.shape(self.taint[r], &self.reps[r], &self.m.recv[r])?;
        Ok(())
    }

    fn enc(&self) -> &'static str {
        if self.case.v2 {
            "v2"
        } else {
            "v1"
        }
    }

    fn apply(&self, rep: &Rep, bytes: &[u8], api: &str, pos: &J) -> Result<(), Failure> {
        at(api);
        let update = decode(bytes, self.case.v2).map_err(|e| {
            fail(
                "an update produced by a replica does not decode",
                api,
                J::obj(vec![("at", pos.clone()), ("decodes", J::Bool(true))]),
                J::obj(vec![("error", J::str(&e)), ("bytes", bytes_json(bytes))]),
            )
        })?;
        with_txn(&rep.doc, |txn| txn.apply_update(update)).map_err(|e| {
            fail(
                "apply_update failed",
                api,
                J::obj(vec![("at", pos.clone()), ("result", J::str("Ok"))]),
                J::obj(vec![("error", J::str(&e.to_string())), ("bytes", bytes_json(bytes))]),
            )
        })
    }

    // -- local transaction ---------------------------------------------------

    fn txn(&mut self, r: usize, ops: &[Op], check: bool, pos: &J) -> Result<(), Failure> {
        let c = r + 1;
        let api = "Doc::transact_mut -> Text/Array/Map operations -> commit -> Doc::observe_update callback";
        let v2 = self.case.v2;
        let rep = &self.reps[r];
        let before = {
            let t = rep.doc.transact();
            rep.content(&t)
        };
        // tombstones anywhere on the sender make the right neighbour of an insertion unknowable
        let mut tombstone_free = {
            at("ReadTxn::snapshot");
            rep.doc.transact().snapshot().delete_set.is_empty()
        };
        // everything the sender has integrated (received and not in its stash): no dependency lies outside
        let base = minus(&self.m.recv[r], &stash_of(rep)?);
        let mut want = before.clone();
        let mut clock = self.m.next[c];
        let mut new_ops = NONE;
        let mut new_dels = NONE;
        // (clock, definite dependencies, the definite dependencies are ALL dependencies)
        let mut created: Vec<(u32, OpSet, bool)> = Vec::new();
        // what to do, resolved against the content
        enum Act {
            TIns(u32, String),
            TDel(u32),
            AIns(u32, i64),
            ADel(u32),
            MSet(usize, i64),
            MDel(usize),
        }
        let mut acts = Vec::new();
        let own_prefix = |k: u32| -> OpSet {
            let mut s = NONE;
            if self.case.strict && k > 0 {
                s[c] |= 1 << (k - 1);
            }
            s
        };
        for op in ops {
            if clock + op.clocks() > MAX_CLOCK {
                return Err(invalid(format!("client {} would pass clock {}", c, MAX_CLOCK)));
            }
            match op {
                Op::TIns { at: p, n } => {
                    let chars: Vec<char> = want.text.chars().collect();
                    let i = match p {
                        Pos::End => chars.len(),
                        Pos::Start if !chars.is_empty() => 0,
                        Pos::Mid if chars.len() >= 2 => chars.len() / 2,
                        _ => return Err(invalid("text_insert at start / mid needs 1 / 2 characters".into())),
                    };
                    let mut def = own_prefix(clock);
                    // (with tombstones around, an insertion is anchored behind the removed
                    // characters that follow the position: its neighbours cannot be read from the content)
                    if tombstone_free && i > 0 {
                        if let Some((dc, dk)) = id_of_letter(chars[i - 1]) {
                            def[dc] |= 1 << dk;
                        }
                    }
                    if tombstone_free && i < chars.len() {
                        if let Some((dc, dk)) = id_of_letter(chars[i]) {
                            def[dc] |= 1 << dk;
                        }
                    }
                    let chunk: String = (0..*n).map(|j| letter(c, clock + j)).collect();
                    for j in 0..*n {
                        let mut d = def;
                        if j > 0 {
                            d[c] |= 1 << (clock + j - 1);
                        }
                        created.push((clock + j, d, tombstone_free));
                        new_ops[c] |= 1 << (clock + j);
                    }
                    let mut s: Vec<char> = chars;
                    for (j, ch) in chunk.chars().enumerate() {
                        s.insert(i + j, ch);
                    }
                    want.text = s.into_iter().collect();
                    acts.push(Act::TIns(i as u32, chunk));
                    clock += *n;
                }
                Op::TDel { last } => {
                    let chars: Vec<char> = want.text.chars().collect();
                    if chars.is_empty() || (*last && chars.len() < 2) {
                        return Err(invalid("text_remove first / last needs 1 / 2 characters".into()));
                    }
                    let i = if *last { chars.len() - 1 } else { 0 };
                    if let Some((dc, dk)) = id_of_letter(chars[i]) {
                        new_dels[dc] |= 1 << dk;
                    }
                    let mut s = chars;
                    s.remove(i);
                    want.text = s.into_iter().collect();
                    acts.push(Act::TDel(i as u32));
                    tombstone_free = false;
                }
                Op::AIns { at: p } => {
                    let len = want.arr.len();
                    let i = match p {
                        Pos::End => len,
                        Pos::Start if len >= 1 => 0,
                        _ => return Err(invalid("array_insert at start needs 1 element".into())),
                    };
                    let mut def = own_prefix(clock);
                    if tombstone_free && i > 0 {
                        if let Some((dc, dk)) = id_of_number(want.arr[i - 1]) {
                            def[dc] |= 1 << dk;
                        }
                    }
                    if tombstone_free && i < len {
                        if let Some((dc, dk)) = id_of_number(want.arr[i]) {
                            def[dc] |= 1 << dk;
                        }
                    }
                    created.push((clock, def, tombstone_free));
                    new_ops[c] |= 1 << clock;
                    let v = number(c, clock);
                    want.arr.insert(i, v);
                    acts.push(Act::AIns(i as u32, v));
                    clock += 1;
                }
                Op::ADel { last } => {
                    let len = want.arr.len();
                    if len == 0 || (*last && len < 2) {
                        return Err(invalid("array_remove first / last needs 1 / 2 elements".into()));
                    }
                    let i = if *last { len - 1 } else { 0 };
                    if let Some((dc, dk)) = id_of_number(want.arr[i]) {
                        new_dels[dc] |= 1 << dk;
                    }
                    want.arr.remove(i);
                    acts.push(Act::ADel(i as u32));
                    tombstone_free = false;
                }
                Op::MSet { key } => {
                    let mut def = own_prefix(clock);
                    // a visible entry is the one that gets overwritten; without tombstones an absent key was never written
                    let mut exact = tombstone_free;
                    if let Some(old) = want.map[*key] {
                        if let Some((dc, dk)) = id_of_number(old) {
                            def[dc] |= 1 << dk;
                            new_dels[dc] |= 1 << dk;
                            exact = true;
                        }
                        tombstone_free = false;
                    }
                    created.push((clock, def, exact));
                    new_ops[c] |= 1 << clock;
                    let v = number(c, clock);
                    want.map[*key] = Some(v);
                    acts.push(Act::MSet(*key, v));
                    clock += 1;
                }
                Op::MDel { key } => {
                    match want.map[*key] {
                        Some(old) => {
                            if let Some((dc, dk)) = id_of_number(old) {
                                new_dels[dc] |= 1 << dk;
                            }
                        }
                        None => return Err(invalid("map_remove needs a present key".into())),
                    }
                    want.map[*key] = None;
                    acts.push(Act::MDel(*key));
                    tombstone_free = false;
                }
            }
        }
        let sv_before = if check { Some(rep.sv()?) } else { None };
        lock(&rep.log).clear();
        at(api);
        with_txn(&rep.doc, |txn| {
            for act in &acts {
                match act {
                    Act::TIns(i, chunk) => {
                        at("Text::insert");
                        rep.text.insert(txn, *i, chunk);
                    }
                    Act::TDel(i) => {
                        at("Text::remove_range");
                        rep.text.remove_range(txn, *i, 1);
                    }
                    Act::AIns(i, v) => {
                        at("Array::insert");
                        rep.seq.insert(txn, *i, *v);
                    }
                    Act::ADel(i) => {
                        at("Array::remove");
                        rep.seq.remove(txn, *i);
                    }
                    Act::MSet(k, v) => {
                        at("Map::insert");
                        rep.map.insert(txn, KEYS[*k], *v);
                    }
                    Act::MDel(k) => {
                        at("Map::remove");
                        rep.map.remove(txn, KEYS[*k]);
                    }
                }
            }
            at("TransactionMut::commit (local transaction)");
        });
        let captured: Vec<Vec<u8>> = std::mem::take(&mut *lock(&rep.log));
        let shown = |what: &str| J::obj(vec![("at", pos.clone()), ("property", J::str(what)), ("content_before", before.json())]);
        if captured.len() != 1 {
            return Err(fail(
                "a local transaction that changed the document did not announce exactly one update",
                api,
                shown("exactly one update event"),
                J::obj(vec![("update_events", J::Num(captured.len() as i64))]),
            ));
        }
        let bytes = captured.into_iter().next().unwrap();
        let update = decode(&bytes, v2).map_err(|e| {
            fail(
                "the update announced for a local transaction does not decode",
                api,
                shown("the update decodes"),
                J::obj(vec![("error", J::str(&e)), ("bytes", bytes_json(&bytes))]),
            )
        })?;
        let carried = opset_of(&update.insertions(true), "the update of a local transaction", api)?;
        let dels = opset_of(update.delete_set(), "the delete set of the update of a local transaction", api)?;
        // the clock model is checked on every transaction: a wrong model cannot pass silently
        if carried != new_ops || !subset(&new_dels, &dels) {
            return Err(fail(
                "the update announced for a local transaction does not carry exactly the operations of the transaction",
                api,
                J::obj(vec![
                    ("at", pos.clone()),
                    ("operations", set_json(&new_ops)),
                    ("deletes_at_least", set_json(&new_dels)),
                ]),
                J::obj(vec![("operations", set_json(&carried)), ("deletes", set_json(&dels)), ("bytes", bytes_json(&bytes))]),
            ));
        }
        if let Some(sv_before) = sv_before {
            let after = {
                let t = rep.doc.transact();
                rep.content(&t)
            };
            let sv_after = rep.sv()?;
            let mut sv_want = sv_before;
            // the sender's own clocks are never behind a gap
            sv_want[c] = clock;
            if after != want || sv_after != sv_want || sv_before[c] != self.m.next[c] {
                return Err(fail(
                    "a local transaction does not have its sequential effect",
                    api,
                    J::obj(vec![
                        ("at", pos.clone()),
                        ("content_before", before.json()),
                        ("content", want.json()),
                        ("state_vector", sv_json(&sv_want)),
                    ]),
                    J::obj(vec![
                        ("content", after.json()),
                        ("state_vector", sv_json(&sv_after)),
                        ("state_vector_before", sv_json(&sv_before)),
                    ]),
                ));
            }
        }
        // bookkeeping
        let mut ub = base;
        for (k, def, exact) in created {
            debug_assert_eq!(self.m.ub[c].len(), k as usize);
            // a sender without tombstones shows all neighbours of an insertion: nothing else is a dependency
            self.m.ub[c].push(if exact { def } else { ub });
            self.m.def[c].push(def);
            ub[c] |= 1 << k;
        }
        self.m.next[c] = clock;
        self.m.recv[r] = union(&self.m.recv[r], &new_ops);
        self.m.delrecv[r] = union(&self.m.delrecv[r], &dels);
        let born = self.m.born;
        self.m.born += 1;
        self.m.updates[r].push(Upd {
            bytes,
            ops: new_ops,
            dels,
            born,
        });
        Ok(())
    }

    // -- the checks on one replica ---------------------------------------------

    #[allow(clippy::too_many_arguments)]
    fn check(
        &self,
        who: &str,
        tainted: bool,
        recv: &OpSet,
        delrecv: &OpSet,
        o: &Obs,
        sv_before: Option<&[u32; 4]>,
        pos: &J,
        api: &str,
    ) -> Result<(), Failure> {
        // liveness is asserted unless the replica is in the known stuck shape (see `shape`)
        let live = !tainted;
        let must = self.m.closure(recv, false);
        let may = self.m.closure(recv, true);
        // OPEN KNOWN FINDING K6, tolerated (reported by `search gap_packaging`): whether a block that
        // lacks nothing gets integrated depends on the packaging of the update that brings it: when
        // it travels in ONE update behind a block of the same client that cannot be applied, it is
        // stashed with it (and so is whatever waits for it); delivered alone it is integrated behind
        // a Skip. Nothing is lost and integration completes once the missing dependency arrives. So
        // liveness is asserted only for `due`: the operations of `must` that have no received
        // operation of the same client with a lower clock outside `must` (and do not depend on
        // one that has).
        let due_ops = if self.case.tolerate_packaging {
            let lacking = minus(recv, &must);
            let mut excused = NONE;
            for c in 1..4 {
                if lacking[c] != 0 {
                    excused[c] = recv[c] & !((2u32 << lacking[c].trailing_zeros()) - 1);
                }
            }
            self.m.closure(&minus(&must, &excused), false)
        } else {
            must
        };
        let shown = |property: &str| {
            J::obj(vec![
                ("property", J::str(property)),
                ("at", pos.clone()),
                ("replica", J::str(who)),
                ("received", set_json(recv)),
                ("told_deleted", set_json(delrecv)),
                ("all_dependencies_received", set_json(&must)),
                ("integration_due", set_json(&due_ops)),
                ("no_dependency_certainly_absent", set_json(&may)),
            ])
        };
        let bad = |why: &str, property: &str| Err(fail(why, api, shown(property), o.json()));
        if self.arm.sv {
            if let Some(b) = sv_before {
                if (1..4).any(|c| o.sv[c] < b[c]) {
                    return Err(fail(
                        "the state vector of a replica decreased",
                        api,
                        J::obj(vec![("at", pos.clone()), ("replica", J::str(who)), ("state_vector_at_least", sv_json(b))]),
                        o.json(),
                    ));
                }
            }
            for c in 1..4 {
                if o.sv[c] != prefix(o.integrated[c]) {
                    return bad(
                        "the state vector is not the first clock the replica lacks (compared with what it exports without its stash)",
                        "state_vector(c) == length of the clock prefix [0,n) of client c among the integrated operations",
                    );
                }
                if live && o.sv[c] < prefix(due_ops[c]) {
                    return bad(
                        "the state vector is below a clock prefix whose dependencies have all been delivered",
                        "state_vector(c) >= length of the clock prefix of c among the operations whose dependencies were all received",
                    );
                }
                if o.sv[c] > prefix(may[c]) {
                    return bad(
                        "the state vector claims clocks the replica cannot have integrated",
                        "state_vector(c) <= length of the clock prefix of c among the received operations that lack no dependency for certain",
                    );
                }
            }
        }
        if self.arm.pending {
            if o.exported != *recv {
                return bad(
                    if subset(recv, &o.exported) {
                        "the full-state export of a replica carries operations the replica never received"
                    } else {
                        "the full-state export of a replica does not carry everything it received (stashed content is lost for relays)"
                    },
                    "operations of encode_state_as_update(&empty) == received operations",
                );
            }
            if union(&o.integrated, &o.stashed) != *recv {
                return bad(
                    if subset(recv, &union(&o.integrated, &o.stashed)) {
                        "a replica holds operations it never received"
                    } else {
                        "a received operation is neither integrated nor stashed: it was dropped"
                    },
                    "integrated + stashed == received",
                );
            }
            if live && !subset(&due_ops, &o.integrated) {
                return bad(
                    "stuck: every dependency of an operation has been delivered, yet it is not integrated",
                    "operations whose dependencies were all received are integrated",
                );
            }
            if !subset(&o.integrated, &may) {
                return bad(
                    if self.case.strict {
                        "an operation is integrated although an earlier clock of its own client was never delivered (own-clock-prefix reading of 'dependency')"
                    } else {
                        "an operation is integrated although one of its dependencies was never delivered"
                    },
                    "no operation is integrated before its dependencies",
                );
            }
            if o.has_missing != (o.stash_present || o.pend_ds_present) {
                return bad(
                    "has_missing_updates() disagrees with the presence of a stash / pending delete set",
                    "has_missing_updates() == pending_update().is_some() || pending_ds().is_some()",
                );
            }
            if !subset(&o.ds, &o.integrated) || !subset(&o.pend_ds, delrecv) {
                return bad(
                    "a replica reports deletions of ids it does not hold / pending deletions it was never told",
                    "deleted ids are integrated, pending deletions were received",
                );
            }
            if !subset(delrecv, &union(&o.ds, &o.pend_ds)) || !subset(delrecv, &o.exported_ds) {
                return bad(
                    "a deletion the replica was told is neither applied nor pending (or missing from its full export): it was dropped",
                    "told_deleted is a subset of deleted + pending_deletes, and of the delete set of the full export",
                );
            }
            let due = inter(delrecv, &due_ops);
            if live && (!subset(&due, &o.ds) || !empty(&inter(&due, &o.pend_ds))) {
                return bad(
                    "stuck: a deletion whose target has all its dependencies delivered is still pending",
                    "deletions of integrated ids are applied",
                );
            }
            let nothing_open = due_ops == *recv && subset(delrecv, recv);
            if live && nothing_open && o.has_missing {
                return bad(
                    "has_missing_updates() is true although every dependency of everything received has been delivered",
                    "has_missing_updates() == false",
                );
            }
            let certainly_open = !subset(recv, &may) || !subset(delrecv, recv);
            if certainly_open && !o.has_missing {
                return bad(
                    "has_missing_updates() is false although a received operation / deletion lacks a dependency that was never delivered",
                    "has_missing_updates() == true",
                );
            }
        }
        Ok(())
    }

    fn check_replica(&self, r: usize, o: &Obs, sv_before: Option<&[u32; 4]>, pos: &J, api: &str) -> Result<(), Failure> {
        self.check(&format!("{}", r + 1), self.taint[r], &self.m.recv[r], &self.m.delrecv[r], o, sv_before, pos, api)
    }

    // -- deliver / relay ---------------------------------------------------------

    fn deliver(&mut self, of: usize, seq: usize, to: usize, check: bool, pos: &J) -> Result<(), Failure> {
        let upd = match self.m.updates[of].get(seq) {
            Some(u) => u.clone(),
            None => return Err(invalid(format!("replica {} has no update number {}", of + 1, seq))),
        };
        let api = format!(
            "Update::decode_{}(update {} of replica {}) -> TransactionMut::apply_update on replica {}",
            self.enc(),
            seq,
            of + 1,
            to + 1
        );
        let known = subset(&upd.ops, &self.m.recv[to]) && subset(&upd.dels, &self.m.delrecv[to]);
        let before = if check { Some(observe(&self.reps[to], self.case.v2, None)?) } else { None };
        self.apply(&self.reps[to], &upd.bytes, &api, pos)?;
        self.m.recv[to] = union(&self.m.recv[to], &upd.ops);
        self.m.delrecv[to] = union(&self.m.delrecv[to], &upd.dels);
        let was_tainted = self.taint[to];
        self.retaint(to)?;
        if let Some(before) = before {
            let after = observe(&self.reps[to], self.case.v2, None)?;
            // (a replica in the known stuck shape integrates a re-delivered operation and keeps its copy in the stash)
            if known && !was_tainted && after != before {
                return Err(fail(
                    "applying an update whose content the replica already has changed the replica",
                    &api,
                    J::obj(vec![("at", pos.clone()), ("property", J::str("nothing changes")), ("replica_before", before.json())]),
                    after.json(),
                ));
            }
            self.check_replica(to, &after, Some(&before.sv), pos, &api)?;
        }
        Ok(())
    }

    /// `to.apply_update(from.encode_state_as_update(&sv))`; `light`: only the checks on the wire and on the vectors.
    #[allow(clippy::too_many_arguments)]
    fn relay_between(
        &self,
        from: &Rep,
        from_sets: (&OpSet, &OpSet),
        to: &Rep,
        to_sets: (&mut OpSet, &mut OpSet),
        full: bool,
        check: bool,
        pos: &J,
    ) -> Result<String, Failure> {
        let v2 = self.case.v2;
        let api = format!(
            "ReadTxn::encode_state_as_update_{}(&{}) on replica {} -> Update::decode -> TransactionMut::apply_update on replica {}",
            self.enc(),
            if full { "empty state vector".to_string() } else { format!("state vector of replica {}", to.client) },
            from.client,
            to.client
        );
        let sv_from = from.sv()?;
        let sv_to = to.sv()?;
        let from_missing_before = from.doc.transact().has_missing_updates();
        at(&api);
        let bytes = {
            let sv = if full {
                StateVector::default()
            } else {
                to.doc.transact().state_vector()
            };
            let t = from.doc.transact();
            if v2 {
                t.encode_state_as_update_v2(&sv)
            } else {
                t.encode_state_as_update_v1(&sv)
            }
        };
        let shown = |property: &str| {
            J::obj(vec![
                ("property", J::str(property)),
                ("at", pos.clone()),
                ("sender_received", set_json(from_sets.0)),
                ("sender_told_deleted", set_json(from_sets.1)),
                ("sender_state_vector", sv_json(&sv_from)),
                ("receiver_state_vector_before", sv_json(&sv_to)),
            ])
        };
        let wire = decode(&bytes, v2).map_err(|e| {
            fail(
                "an update just encoded does not decode",
                &api,
                shown("the encoded state decodes"),
                J::obj(vec![("error", J::str(&e)), ("bytes", bytes_json(&bytes))]),
            )
        })?;
        let carried = opset_of(&wire.insertions(true), "the relayed state", &api)?;
        let carried_ds = opset_of(wire.delete_set(), "the delete set of the relayed state", &api)?;
        let wire_json = || J::obj(vec![("carries", set_json(&carried)), ("deletes", set_json(&carried_ds)), ("bytes", bytes_json(&bytes))]);
        if !subset(&carried, from_sets.0) {
            return Err(fail(
                "a relayed state carries operations the sender never received",
                &api,
                shown("carried operations are a subset of the sender's"),
                wire_json(),
            ));
        }
        if self.arm.pending {
            if full && carried != *from_sets.0 {
                return Err(fail(
                    "the full state of a replica with gaps does not carry everything the replica received: relaying through it loses data",
                    &api,
                    shown("carried operations == everything the sender received (integrated or stashed)"),
                    wire_json(),
                ));
            }
            if !subset(from_sets.1, &carried_ds) {
                return Err(fail(
                    "a relayed state does not carry every deletion the sender was told",
                    &api,
                    shown("carried deletions include everything the sender was told"),
                    wire_json(),
                ));
            }
        }
        self.apply(to, &bytes, &api, pos)?;
        *to_sets.0 = union(to_sets.0, &carried);
        *to_sets.1 = union(to_sets.1, &carried_ds);
        if check && self.arm.sv {
            let after = to.sv()?;
            // OPEN KNOWN FINDING K6, tolerated (reported by `search gap_packaging`): a sender that has
            // integrated c#k' BEHIND a gap while an earlier clock c#k of the same client sits in its
            // stash exports both in ONE update; the receiver gives up on c#k and stashes the rest of
            // client c's blocks (c#k' included) and whatever waits for them, although it would have
            // integrated c#k' had it arrived alone. Smallest history: client 1 writes "a" (1#0),
            // appends "b" (1#1), pushes onto the array (1#2); replica 2 receives 1#2, pushes onto
            // the array (2#0, left neighbour 1#2), receives 1#1 (stashed); a fresh replica that
            // applies replica 2's full export integrates nothing: its vector {} does not dominate
            // {2:1}. For such a sender dominance is asserted only for its gap-free core (clocks below
            // its state vector whose possible dependencies all lie below it too).
            let mut floor = sv_from;
            if self.case.tolerate_packaging {
                let stash_from = stash_of(from)?;
                let integrated_from = minus(from_sets.0, &stash_from);
                let packaged = (1..4).any(|c| stash_from[c] != 0 && integrated_from[c] >> stash_from[c].trailing_zeros() > 1);
                if packaged {
                    let mut below = NONE;
                    for c in 1..4 {
                        below[c] = (1u32 << sv_from[c]) - 1;
                    }
                    let core = self.m.closure(&below, false);
                    for c in 1..4 {
                        floor[c] = prefix(core[c]);
                    }
                }
            }
            if (1..4).any(|c| after[c] < floor[c]) {
                return Err(fail(
                    "after applying the state a peer encoded against its state vector, the receiver's state vector does not dominate the sender's",
                    &api,
                    shown("receiver state vector >= sender state vector, pointwise"),
                    J::obj(vec![("receiver_state_vector", sv_json(&after)), ("wire", wire_json())]),
                ));
            }
            if (1..4).any(|c| after[c] < sv_to[c]) {
                return Err(fail(
                    "the state vector of a replica decreased",
                    &api,
                    shown("receiver state vector never decreases"),
                    J::obj(vec![("receiver_state_vector", sv_json(&after)), ("wire", wire_json())]),
                ));
            }
            if from.sv()? != sv_from || from.doc.transact().has_missing_updates() != from_missing_before {
                return Err(fail(
                    "encoding its state changed the sender",
                    &api,
                    shown("the sender is unchanged"),
                    J::obj(vec![("sender_state_vector", sv_json(&from.sv()?))]),
                ));
            }
        }
        Ok(api)
    }

    fn relay(&mut self, from: usize, to: usize, full: bool, check: bool, pos: &J) -> Result<(), Failure> {
        let before = if check { Some(observe(&self.reps[to], self.case.v2, None)?) } else { None };
        let (from_recv, from_del) = (self.m.recv[from], self.m.delrecv[from]);
        let (mut to_recv, mut to_del) = (self.m.recv[to], self.m.delrecv[to]);
        let known = subset(&from_recv, &to_recv) && subset(&from_del, &to_del);
        let api = self.relay_between(
            &self.reps[from],
            (&from_recv, &from_del),
            &self.reps[to],
            (&mut to_recv, &mut to_del),
            full,
            check,
            pos,
        )?;
        let told_more = to_del != self.m.delrecv[to];
        self.m.recv[to] = to_recv;
        self.m.delrecv[to] = to_del;
        let was_tainted = self.taint[to];
        self.retaint(to)?;
        if let Some(before) = before {
            let after = observe(&self.reps[to], self.case.v2, None)?;
            // (a relayed delete set also names what the sender deleted on its own account, e.g. the loser of two map writes)
            if known && !told_more && !was_tainted && after != before {
                return Err(fail(
                    "applying a relayed state whose content the replica already has changed the replica",
                    &api,
                    J::obj(vec![("at", pos.clone()), ("property", J::str("nothing changes")), ("replica_before", before.json())]),
                    after.json(),
                ));
            }
            self.check_replica(to, &after, Some(&before.sv), pos, &api)?;
        }
        Ok(())
    }

    fn step(&mut self, step: &Step, check: bool, pos: &J) -> Result<(), Failure> {
        match step {
            Step::Txn { r, ops } => {
                self.txn(*r, ops, check, pos)?;
                if check {
                    let o = observe(&self.reps[*r], self.case.v2, None)?;
                    self.check_replica(*r, &o, None, pos, "local transaction")?;
                }
                Ok(())
            }
            Step::Deliver { of, seq, to } => self.deliver(*of, *seq, *to, check, pos),
            Step::Relay { from, to, full } => self.relay(*from, *to, *full, check, pos),
        }
    }

    // -- closing phases -----------------------------------------------------------

    /// Fresh replicas (clients 11..13) that apply the full export of each replica.
    fn copies(&self, pos: &J) -> Result<Copies, Failure> {
        let mut reps = Vec::new();
        let mut recvs = Vec::new();
        let mut dels = Vec::new();
        let mut taint = Vec::new();
        for (r, src) in self.reps.iter().enumerate() {
            let copy = new_rep(11 + r, self.case.gc, self.case.v2, false)?;
            let (mut recv, mut del) = (NONE, NONE);
            let api = self.relay_between(src, (&self.m.recv[r], &self.m.delrecv[r]), &copy, (&mut recv, &mut del), true, true, pos)?;
            let tainted = self.shape(false, &copy, &recv)?;
            let o = observe(&copy, self.case.v2, None)?;
            self.check(&format!("fresh copy of {}", r + 1), tainted, &recv, &del, &o, None, pos, &api)?;
            reps.push(copy);
            recvs.push(recv);
            dels.push(del);
            taint.push(tainted);
        }
        Ok(Copies { reps, recvs, dels, taint })
    }

    fn converged(&self, who: &str, tainted: bool, recv: &OpSet, delrecv: &OpSet, o: &Obs, pos: &J, api: &str) -> Result<(), Failure> {
        let all = self.m.all_ops();
        let mut want = [0u32; 4];
        for c in 1..4 {
            want[c] = self.m.next[c];
        }
        if *recv != all {
            // cannot happen: the closing phases hand everything to everyone
            return Err(invalid("internal: the closing phase did not deliver everything".into()));
        }
        self.check(who, tainted, recv, delrecv, o, None, pos, api)?;
        if tainted {
            return Ok(());
        }
        let sv_ok = !self.arm.sv || o.sv == want;
        let pending_ok = !self.arm.pending || (!o.has_missing && empty(&o.stashed) && empty(&o.pend_ds) && o.integrated == all);
        if !sv_ok || !pending_ok {
            return Err(fail(
                "every update has been delivered, yet the replica does not hold the join of the senders' state vectors with nothing pending",
                api,
                J::obj(vec![
                    ("at", pos.clone()),
                    ("replica", J::str(who)),
                    ("state_vector", sv_json(&want)),
                    ("integrated", set_json(&all)),
                    ("has_missing_updates", J::Bool(false)),
                ]),
                o.json(),
            ));
        }
        Ok(())
    }

    fn same_everywhere(&self, obs: &[(String, Obs)], pos: &J, api: &str) -> Result<(), Failure> {
        // (replicas in the known stuck shape are not in the list)
        for w in obs.windows(2) {
            if w[0].1.content != w[1].1.content || w[0].1.ds != w[1].1.ds || w[0].1.sv != w[1].1.sv {
                return Err(fail(
                    "every update has been delivered to every replica, yet two replicas differ",
                    api,
                    J::obj(vec![("at", pos.clone()), ("property", J::str("equal content, delete set and state vector"))]),
                    J::Obj(obs.iter().map(|(n, o)| (format!("replica {}", n), o.json())).collect()),
                ));
            }
        }
        Ok(())
    }

    /// Phase 1: direct delivery of everything a replica lacks; `thorough`: all checks after every delivery.
    fn close_direct(&mut self, thorough: bool) -> Result<Vec<(String, Obs)>, Failure> {
        let n = self.reps.len();
        let mut order: Vec<(usize, usize, usize)> = Vec::new(); // (born, of, seq)
        for (of, us) in self.m.updates.iter().enumerate() {
            for (seq, u) in us.iter().enumerate() {
                order.push((u.born, of, seq));
            }
        }
        order.sort();
        for to in 0..n {
            let descending = to % 2 == 0;
            let list: Vec<(usize, usize, usize)> = if descending { order.iter().rev().copied().collect() } else { order.clone() };
            for (_, of, seq) in list {
                if of == to {
                    continue;
                }
                let u = &self.m.updates[of][seq];
                if subset(&u.ops, &self.m.recv[to]) && subset(&u.dels, &self.m.delrecv[to]) {
                    continue;
                }
                let pos = J::Str(format!(
                    "closing phase: update {} of replica {} delivered to replica {} ({} creation order)",
                    seq,
                    of + 1,
                    to + 1,
                    if descending { "descending" } else { "ascending" }
                ));
                self.deliver(of, seq, to, thorough, &pos)?;
            }
        }
        let pos = J::str("closing phase: every update has been delivered to every replica");
        let api = format!("Update::decode_{} -> TransactionMut::apply_update (closing deliveries)", self.enc());
        let mut obs = Vec::new();
        for r in 0..n {
            let o = observe(&self.reps[r], self.case.v2, None)?;
            self.converged(&format!("{}", r + 1), self.taint[r], &self.m.recv[r], &self.m.delrecv[r], &o, &pos, &api)?;
            obs.push((format!("{}", r + 1), o));
        }
        let sound: Vec<(String, Obs)> = (0..n).filter(|r| !self.taint[*r]).map(|r| obs[r].clone()).collect();
        self.same_everywhere(&sound, &pos, &api)?;
        // once more: everything is known everywhere, nothing may change
        let pos = J::str("closing phase: every update delivered once more");
        for to in 0..n {
            if self.taint[to] {
                continue;
            }
            for (_, of, seq) in order.iter() {
                if *of != to {
                    let bytes = self.m.updates[*of][*seq].bytes.clone();
                    self.apply(&self.reps[to], &bytes, &api, &pos)?;
                }
            }
            let o = observe(&self.reps[to], self.case.v2, None)?;
            if o != obs[to].1 {
                return Err(fail(
                    "re-applying updates the replica already has changed the replica",
                    &api,
                    J::obj(vec![("at", pos.clone()), ("replica_before", obs[to].1.json())]),
                    o.json(),
                ));
            }
        }
        Ok(sound)
    }

    /// Phase 2: the fresh copies exchange diffs until no state vector changes.
    fn close_exchange(&self, copies: Copies, reference: &[(String, Obs)]) -> Result<(), Failure> {
        let Copies {
            reps,
            mut recvs,
            mut dels,
            mut taint,
        } = copies;
        let n = reps.len();
        let mut rounds = 0;
        loop {
            let mut changed = false;
            for a in 0..n {
                for b in 0..n {
                    if a == b {
                        continue;
                    }
                    let pos = J::Str(format!(
                        "closing phase: fresh copies of the replicas exchange diffs, round {}, copy of {} -> copy of {}",
                        rounds + 1,
                        a + 1,
                        b + 1
                    ));
                    let before = reps[b].sv()?;
                    let (ra, da) = (recvs[a], dels[a]);
                    let (mut rb, mut db) = (recvs[b], dels[b]);
                    self.relay_between(&reps[a], (&ra, &da), &reps[b], (&mut rb, &mut db), false, true, &pos)?;
                    recvs[b] = rb;
                    dels[b] = db;
                    taint[b] = self.shape(taint[b], &reps[b], &recvs[b])?;
                    if reps[b].sv()? != before {
                        changed = true;
                    }
                }
            }
            rounds += 1;
            if !changed || rounds >= 4 {
                break;
            }
        }
        let pos = J::Str(format!(
            "closing phase: fresh copies of the replicas (full export of each) have exchanged diffs pairwise for {} rounds",
            rounds
        ));
        let api = format!("ReadTxn::encode_state_as_update_{}(&peer state vector) -> TransactionMut::apply_update, repeated", self.enc());
        let all = self.m.all_ops();
        let mut obs = Vec::new();
        for r in 0..n {
            let o = observe(&reps[r], self.case.v2, None)?;
            let who = format!("fresh copy of {}", r + 1);
            if self.arm.sv && (1..4).any(|c| o.sv[c] != self.m.next[c]) {
                return Err(fail(
                    "repeating the state-vector exchange between replicas with gaps does not make them hold the join of the senders' state vectors",
                    &api,
                    J::obj(vec![("at", pos.clone()), ("replica", J::str(&who)), ("state_vector", sv_json(&{
                        let mut w = [0u32; 4];
                        for c in 1..4 {
                            w[c] = self.m.next[c];
                        }
                        w
                    }))]),
                    o.json(),
                ));
            }
            if recvs[r] == all {
                self.converged(&who, taint[r], &recvs[r], &dels[r], &o, &pos, &api)?;
            } else {
                self.check(&who, taint[r], &recvs[r], &dels[r], &o, None, &pos, &api)?;
            }
            if !taint[r] {
                obs.push((who, o));
            }
        }
        if let Some(first) = reference.first() {
            obs.insert(0, first.clone());
        }
        self.same_everywhere(&obs, &pos, &api)
    }
}

/// Runs the case. `thorough` (replay): all checks after every step and every closing
/// delivery; otherwise (search) after the last step only - every prefix is a case of its own.
/// `need_info`: compute what is needed to extend the history.
fn execute(case: &Case, thorough: bool, need_info: bool) -> Result<Info, (usize, Failure)> {
    let mut done = 0usize;
    let r = guarded(|| {
        let mut w = World::new(case)?;
        let last = case.steps.len();
        for (i, step) in case.steps.iter().enumerate() {
            done = i + 1;
            let pos = J::obj(vec![("step", J::Num(i as i64 + 1))]);
            w.step(step, thorough || i + 1 == last, &pos)?;
        }
        let mut info = Info::default();
        if need_info {
            let mut fp = Fp::new();
            for rep in &w.reps {
                let o = observe(rep, case.v2, Some(&mut fp))?;
                info.lens.push((o.content.text.chars().count(), o.content.arr.len(), [o.content.map[0].is_some(), o.content.map[1].is_some()]));
            }
            w.m.hash_into(&mut fp);
            info.fingerprint = fp.value();
            info.next = w.m.next;
            info.updates = w.m.updates.iter().map(|u| u.len()).collect();
            info.txns = w.m.born;
            info.holds = (0..case.replicas).map(|r| !empty(&w.m.recv[r]) || !empty(&w.m.delrecv[r])).collect();
        }
        done = last;
        // fresh copies of the gapped states: only when the last step brought something in from outside
        let copies = match case.steps.last() {
            Some(Step::Txn { .. }) | None if !thorough => None,
            None => None,
            _ => Some(w.copies(&J::str("after the last step: a fresh replica applies the full export of each replica"))?),
        };
        let reference = w.close_direct(thorough)?;
        if let Some(copies) = copies {
            w.close_exchange(copies, &reference)?;
        }
        Ok(info)
    });
    r.map_err(|f| (done, f))
}

// ---------------------------------------------------------------------------
// enumeration
// ---------------------------------------------------------------------------

struct Stage {
    name: &'static str,
    replicas: usize,
    gc: bool,
    v2: bool,
    alphabet: Vec<Vec<Op>>,
    depth: usize,
    max_txns: usize,
}

fn basic_alphabet() -> Vec<Vec<Op>> {
    vec![
        vec![Op::TIns { at: Pos::End, n: 1 }],
        vec![Op::TIns { at: Pos::Start, n: 1 }],
        vec![Op::AIns { at: Pos::End }],
        vec![Op::MSet { key: 0 }],
        vec![Op::TDel { last: false }],
    ]
}

fn wide_alphabet() -> Vec<Vec<Op>> {
    let mut a = basic_alphabet();
    a.extend(vec![
        vec![Op::TIns { at: Pos::Mid, n: 1 }],
        vec![Op::TIns { at: Pos::End, n: 2 }],
        vec![Op::TDel { last: true }],
        vec![Op::AIns { at: Pos::Start }],
        vec![Op::ADel { last: false }],
        vec![Op::MSet { key: 1 }],
        vec![Op::MDel { key: 0 }],
        // one update, two blocks: one that may have to wait and one that need not
        vec![Op::TIns { at: Pos::End, n: 1 }, Op::AIns { at: Pos::End }],
        vec![Op::AIns { at: Pos::End }, Op::TIns { at: Pos::End, n: 1 }],
        vec![Op::MSet { key: 0 }, Op::TIns { at: Pos::Start, n: 1 }],
    ]);
    a
}

fn ops_valid(ops: &[Op], lens: &(usize, usize, [bool; 2])) -> bool {
    let (mut t, mut a, mut m) = *lens;
    for op in ops {
        match op {
            Op::TIns { at, n } => {
                match at {
                    Pos::Start if t < 1 => return false,
                    Pos::Mid if t < 2 => return false,
                    _ => {}
                }
                t += *n as usize;
            }
            Op::TDel { last } => {
                if t < 1 || (*last && t < 2) {
                    return false;
                }
                t -= 1;
            }
            Op::AIns { at } => {
                if *at == Pos::Start && a < 1 {
                    return false;
                }
                a += 1;
            }
            Op::ADel { last } => {
                if a < 1 || (*last && a < 2) {
                    return false;
                }
                a -= 1;
            }
            Op::MSet { key } => m[*key] = true,
            Op::MDel { key } => {
                if !m[*key] {
                    return false;
                }
                m[*key] = false;
            }
        }
    }
    true
}

impl Stage {
    fn children(&self, info: &Info) -> Vec<Step> {
        let n = self.replicas;
        let mut out = Vec::new();
        if info.txns < self.max_txns {
            for r in 0..n {
                for ops in &self.alphabet {
                    let clocks: u32 = ops.iter().map(|o| o.clocks()).sum();
                    if ops_valid(ops, &info.lens[r]) && info.next[r + 1] + clocks <= MAX_CLOCK {
                        out.push(Step::Txn { r, ops: ops.clone() });
                    }
                }
            }
        }
        for of in 0..n {
            for seq in 0..info.updates[of] {
                for to in 0..n {
                    if to != of {
                        out.push(Step::Deliver { of, seq, to });
                    }
                }
            }
        }
        for from in 0..n {
            if !info.holds[from] {
                continue;
            }
            for to in 0..n {
                if to != from {
                    out.push(Step::Relay { from, to, full: true });
                    out.push(Step::Relay { from, to, full: false });
                }
            }
        }
        out
    }
}

fn stages(universe: u32) -> Vec<Stage> {
    let u = universe.clamp(1, 10) as usize;
    let mut out = Vec::new();
    out.push(Stage {
        name: "2_replicas_gc_v1",
        replicas: 2,
        gc: true,
        v2: false,
        alphabet: basic_alphabet(),
        depth: u,
        max_txns: 4,
    });
    out.push(Stage {
        name: "3_replicas_gc_v1",
        replicas: 3,
        gc: true,
        v2: false,
        alphabet: basic_alphabet(),
        depth: u.saturating_sub(1).max(1),
        max_txns: 4,
    });
    out.push(Stage {
        name: "2_replicas_nogc_v2",
        replicas: 2,
        gc: false,
        v2: true,
        alphabet: basic_alphabet(),
        depth: u.saturating_sub(1).max(1),
        max_txns: 4,
    });
    out.push(Stage {
        name: "3_replicas_nogc_v2",
        replicas: 3,
        gc: false,
        v2: true,
        alphabet: basic_alphabet(),
        depth: u.saturating_sub(2).max(1),
        max_txns: 4,
    });
    out.push(Stage {
        name: "2_replicas_wide",
        replicas: 2,
        gc: true,
        v2: false,
        alphabet: wide_alphabet(),
        depth: u.saturating_sub(2).max(1),
        max_txns: 3,
    });
    out.push(Stage {
        name: "3_replicas_wide",
        replicas: 3,
        gc: false,
        v2: false,
        alphabet: wide_alphabet(),
        depth: u.saturating_sub(2).max(1),
        max_txns: 3,
    });
    out
}

pub fn cmd_search(target: &str, universe: u32, jobs: usize, deadline: Option<Instant>) -> i32 {
    let mut h = Hunt {
        jobs: jobs.max(1),
        deadline,
        cases: 0,
    };
    let stages = stages(universe);
    let strict = target == "gap_strict";
    let deepest = stages.iter().map(|s| s.depth).max().unwrap_or(0);
    let mut frontiers: Vec<Vec<(Vec<Step>, Info)>> = stages.iter().map(|_| Vec::new()).collect();
    let mut seen: Vec<HashSet<u128>> = stages.iter().map(|_| HashSet::new()).collect();
    let mut counts = vec![0u64; stages.len()];
    let mut states = vec![0u64; stages.len()];
    let mut res: Result<(), Stop> = Ok(());
    // iterative deepening on the number of steps, all configurations in turn: a witness is as short as possible
    'deepening: for d in 0..=deepest {
        for (si, st) in stages.iter().enumerate() {
            if d > st.depth {
                continue;
            }
            let make = |steps: Vec<Step>| Case {
                target: target.to_string(),
                replicas: st.replicas,
                gc: st.gc,
                v2: st.v2,
                strict,
                tolerate: TOLERATE_CROSS_STASH && target != "gap_cross",
                tolerate_packaging: target != "gap_packaging",
                steps,
            };
            let last_level = d == st.depth;
            let before = h.cases;
            let run_one = |tally: &mut Tally, steps: Vec<Step>| -> Result<Option<(Vec<Step>, Info)>, Stop> {
                if tally.expired() {
                    return Err(Stop::Timeout);
                }
                let case = make(steps);
                match execute(&case, false, !last_level) {
                    Ok(info) => {
                        tally.cases += 1;
                        Ok(if last_level { None } else { Some((case.steps, info)) })
                    }
                    Err((_, f)) if is_invalid(&f) => Ok(None),
                    Err((done, failure)) => Err(Stop::Found(Box::new(Found {
                        fields: case.fields(&case.steps[..done.min(case.steps.len())]),
                        failure,
                    }))),
                }
            };
            let produced: Result<Vec<Vec<(Vec<Step>, Info)>>, Stop> = if d == 0 {
                h.par(1, &|tally: &mut Tally, _| Ok(run_one(tally, Vec::new())?.into_iter().collect()))
            } else {
                let fr = &frontiers[si];
                h.par(fr.len(), &|tally: &mut Tally, i: usize| {
                    let (steps, info) = &fr[i];
                    let mut kept = Vec::new();
                    for child in st.children(info) {
                        let mut s = steps.clone();
                        s.push(child);
                        if let Some(k) = run_one(tally, s)? {
                            kept.push(k);
                        }
                    }
                    Ok(kept)
                })
            };
            counts[si] += h.cases - before;
            match produced {
                Ok(lists) => {
                    // a state reached before (same replicas, same bookkeeping) has the same futures
                    let mut next = Vec::new();
                    for (steps, info) in lists.into_iter().flatten() {
                        if seen[si].insert(info.fingerprint) {
                            next.push((steps, info));
                        }
                    }
                    states[si] += next.len() as u64;
                    frontiers[si] = next;
                }
                Err(stop) => {
                    res = Err(stop);
                    break 'deepening;
                }
            }
        }
    }
    let per_stage: Vec<(&str, J)> = stages.iter().enumerate().map(|(si, st)| (st.name, J::Num(counts[si] as i64))).collect();
    let extra = vec![
        ("cases_per_stage", J::obj(per_stage)),
        ("distinct_states_extended", J::Num(states.iter().sum::<u64>() as i64)),
    ];
    finish(target, universe, res, &h, extra)
}

/// `replay` of a witness of this module; `Err`: usage error (exit 2).
pub fn cmd_replay(j: &J) -> Result<i32, String> {
    let case = Case::from_json(j)?;
    match execute(&case, true, true) {
        Ok(info) => Ok(finish_replay(Ok(J::obj(vec![
            ("all_checks_passed", J::Bool(true)),
            ("steps", J::Num(case.steps.len() as i64)),
            ("updates_per_replica", J::Arr(info.updates.iter().map(|n| J::Num(*n as i64)).collect())),
        ])))),
        Err((_, f)) if is_invalid(&f) => Err(f.why),
        Err((_, f)) => Ok(finish_replay(Err(f))),
    }
}
