//! Targets `quote_seq`, `quote_map`, umbrella `quote` (diagnostic: `quote_obs`, `quote_strict`):
//! quotations (`Quotable::quote` on an Array / a Text) and map links
//! (`Map::link`) always show the current content of their source (property C20).
//!
//! Two replicas (fixed client ids, `OffsetKind::Utf16`, ASCII / unique values)
//! edit one source sequence `src` (an Array of unique numbers or a Text of
//! unique characters). A history is: some build edits (insertions of 1..3 new
//! elements at any index, removals, deliveries between the replicas - so that
//! block layouts vary: one block, prepends, inserts in the middle, elements of
//! both replicas interleaved, tombstones), ONE `quote` step (one range, or the
//! whole family of range shapes over the current length, each `quote()` call made
//! first and every returned `WeakPrelim` then stored in a host Map / Array of the
//! same document), and further edits / deliveries / the deletion of quotations.
//!
//! ORACLE (elements are unique, identity is the value; nothing of yrs'
//! bookkeeping is used). The quotation has two boundary ELEMENTS fixed at quote
//! time: the elements that were visible on the quoting replica at the start and
//! end index (inclusive / exclusive as given; unbounded = start / end of the
//! collection). At any later time, on every replica that holds the quotation,
//! dereferencing (`WeakRef<ArrayRef>::unquote`; `WeakRef<TextRef>::get_string`
//! and `WeakRef<XmlTextRef>::get_string`) must yield exactly the visible elements
//! that lie between the two boundary elements in the current document order, a
//! boundary element included iff it was included and is still visible. The
//! position of a DELETED boundary element is read from a third "probe" replica
//! that receives every transaction except the removals from the source (so every
//! element stays visible there); the probe is only trusted while it holds exactly
//! the elements inserted so far and agrees with the visible content of both
//! replicas, otherwise the cases that need it are left open (`probe_gaps`).
//! `quote` itself: never panics; a range whose indexes all exist and whose end is
//! not in front of its start is accepted (Ok/Err is left open for a range that is
//! empty by construction - both bounds on the same element, not both included -
//! which, when accepted, must stay empty for ever); an inverted range (end index <
//! start index) is refused; an index >= length has no boundary element: Ok/Err is
//! not asserted (a quotation that is nevertheless returned is stored and only has
//! to dereference without a panic). `XmlFragment` / `XmlElement` child lists are
//! not `Quotable` in this tree (only ArrayRef, TextRef, XmlTextRef are).
//! Independently: the source always holds exactly the elements the replica was
//! told (inserted minus removed), local edits have their sequential effect,
//! storing / deleting a quotation leaves the source untouched on both replicas.
//!
//! Map links: `sm.link(key)` stored in the host; on every replica that holds it
//! `try_deref_value` equals the replica's current `sm.get(key)` (`None` once the
//! entry is removed), and `get` equals the value written last locally.
//!
//! Observers (diagnostic target `quote_obs`, or `"observers":true` in a case; NOT part of `quote`):
//! an observer registered on the stored quotation / link fires at least once in a transaction
//! that inserts or removes a visible element strictly inside the range (that changes the entry's
//! value); further calls are tolerated. The unchanged tree of 2026-09-26 does not meet this clause
//! (see KNOWN-OBSERVERS below), so `quote_obs` reports a disagreement there by design.
//!
//! `quote_strict`: `quote` without the two skips listed under KNOWN (text renderings).
//!
//! KNOWN-OBSERVERS (unchanged tree, each is the shortest history `quote_obs` style):
//! (1) an insertion at the open side of an unbounded range has no linked neighbour on that side
//! (`Item::integrate` joins a new item to a quoted range only when BOTH neighbours exist):
//! `quote(..)` of an empty array stored, `insert(0, x)`: 0 observer calls, although `unquote`
//! shows x; the same for appends behind `a..` and prepends in front of `..b`;
//! (2) splitting a linked block leaves its right half unlinked: text "ab", `quote(0..=1)` stored,
//! `insert(1, "c")`: 0 calls; "abc", `quote(0..2)` stored, `remove_range(1, 2)`: 0 calls;
//! (3) nothing is linked at all for an excluded start whose anchor ends a block (K-a below).

use crate::evt::{at, bfs, fail, finish, finish_replay, guarded, Found, Hunt, Space};
use crate::json::J;
use crate::model::Failure;
use std::collections::{BTreeMap, BTreeSet, Bound};
use std::sync::atomic::{AtomicU32, AtomicU64, Ordering};
use std::sync::{Arc, Mutex};
use std::time::Instant;
use yrs::branch::BranchPtr;
use yrs::updates::decoder::Decode;
use yrs::{
    Any, Array, ArrayRef, ClientID, Doc, GetString, Map, MapRef, Observable, OffsetKind, Options, Out, Quotable, ReadTxn,
    Subscription, Text, TextRef, Transact, TransactionMut, Update, WeakPrelim, WeakRef, XmlTextRef,
};

pub const TARGETS: &str = "quote | quote_seq | quote_map | quote_obs | quote_strict";

pub fn is_target(target: &str) -> bool {
    matches!(target, "quote" | "quote_seq" | "quote_map" | "quote_obs" | "quote_strict")
}

/// Is this witness line one of ours?
pub fn owns(j: &J) -> bool {
    j.get("target").and_then(|t| t.as_str()).map(is_target).unwrap_or(false)
}

const SRC: &str = "src";
const SRC_MAP: &str = "sm";
const HOST_MAP: &str = "hm";
const HOST_ARR: &str = "ha";
const KEYS: [&str; 2] = ["a", "b"];
/// Client id of the probe replica (it never writes).
const PROBE: u64 = (1 << 50) + 7;
/// The source never grows beyond this in the enumeration.
const MAX_LEN: u32 = 5;
/// Elements one replica can create (26 letters).
const MAX_ELEMS: u32 = 26;

#[derive(Clone, Copy, Debug, PartialEq, Eq)]
pub enum Kind {
    Array,
    Text,
    Map,
}

#[derive(Clone, Copy, Debug, PartialEq, Eq)]
pub enum Host {
    Map,
    Array,
}

/// One bound of a quoted range.
#[derive(Clone, Copy, Debug, PartialEq, Eq)]
pub enum Bd {
    Un,
    In(u32),
    Ex(u32),
}

impl Bd {
    fn bound(self) -> Bound<u32> {
        match self {
            Bd::Un => Bound::Unbounded,
            Bd::In(i) => Bound::Included(i),
            Bd::Ex(i) => Bound::Excluded(i),
        }
    }
    fn idx(self) -> Option<u32> {
        match self {
            Bd::Un => None,
            Bd::In(i) | Bd::Ex(i) => Some(i),
        }
    }
    fn json(self) -> J {
        match self {
            Bd::Un => J::str("unbounded"),
            Bd::In(i) => J::obj(vec![("included", J::num(i))]),
            Bd::Ex(i) => J::obj(vec![("excluded", J::num(i))]),
        }
    }
    fn from_json(j: Option<&J>, what: &str) -> Result<Bd, String> {
        let j = j.ok_or_else(|| format!("{} missing", what))?;
        if j.as_str() == Some("unbounded") {
            return Ok(Bd::Un);
        }
        let num = |v: &J| -> Result<u32, String> {
            match v.as_i64() {
                Some(n) if (0..=1000).contains(&n) => Ok(n as u32),
                _ => Err(format!("{}: expected an index in 0..=1000", what)),
            }
        };
        if let Some(v) = j.get("included") {
            return Ok(Bd::In(num(v)?));
        }
        if let Some(v) = j.get("excluded") {
            return Ok(Bd::Ex(num(v)?));
        }
        Err(format!("{}: expected \"unbounded\" | {{\"included\":i}} | {{\"excluded\":i}}", what))
    }
}

type Range = (Bd, Bd);

/// The range the way it is written in Rust.
fn range_rust(r: &Range) -> String {
    let b = |x: Bd| match x {
        Bd::Un => "Unbounded".to_string(),
        Bd::In(i) => format!("Included({})", i),
        Bd::Ex(i) => format!("Excluded({})", i),
    };
    match *r {
        (Bd::In(a), Bd::Ex(e)) => format!("{}..{}", a, e),
        (Bd::In(a), Bd::In(e)) => format!("{}..={}", a, e),
        (Bd::In(a), Bd::Un) => format!("{}..", a),
        (Bd::Un, Bd::Ex(e)) => format!("..{}", e),
        (Bd::Un, Bd::In(e)) => format!("..={}", e),
        (Bd::Un, Bd::Un) => "..".to_string(),
        (s, e) => format!("({}, {})", b(s), b(e)),
    }
}

fn range_json(r: &Range) -> J {
    J::obj(vec![("start", r.0.json()), ("end", r.1.json()), ("rust", J::Str(range_rust(r)))])
}

fn range_from_json(j: &J, what: &str) -> Result<Range, String> {
    Ok((
        Bd::from_json(j.get("start"), &format!("{}.start", what))?,
        Bd::from_json(j.get("end"), &format!("{}.end", what))?,
    ))
}

/// Every range shape over a collection of `len` elements; indexes run up to
/// `len` (the first one that does not exist). Valid and small ones first.
fn all_shapes(len: u32) -> Vec<Range> {
    let mut out = vec![(Bd::Un, Bd::Un)];
    for a in 0..=len {
        out.push((Bd::In(a), Bd::Un));
        out.push((Bd::Ex(a), Bd::Un));
        out.push((Bd::Un, Bd::In(a)));
        out.push((Bd::Un, Bd::Ex(a)));
    }
    // by distance end - start: 0, 1, .., then the inverted ones
    let mut pairs: Vec<(u32, u32)> = Vec::new();
    for d in 0..=len {
        for a in 0..=len - d {
            pairs.push((a, a + d));
        }
    }
    for d in 1..=len {
        for b in 0..=len - d {
            pairs.push((b + d, b));
        }
    }
    for (a, b) in pairs {
        out.push((Bd::In(a), Bd::In(b)));
        out.push((Bd::In(a), Bd::Ex(b)));
        out.push((Bd::Ex(a), Bd::In(b)));
        out.push((Bd::Ex(a), Bd::Ex(b)));
    }
    out
}

#[derive(Clone, Debug, PartialEq)]
pub enum Ranges {
    /// `all_shapes(current length)`
    All,
    List(Vec<Range>),
}

#[derive(Clone, Debug, PartialEq)]
pub enum Which {
    All,
    /// The quotations with an even number.
    Even,
    List(Vec<usize>),
}

#[derive(Clone, Debug, PartialEq)]
pub enum QStep {
    /// Insert `n` new elements into the source at `index`.
    Ins { replica: usize, index: u32, n: u32 },
    Del { replica: usize, index: u32, len: u32 },
    /// Replica `to` applies everything replica `from` has and `to` lacks.
    Sync { to: usize, from: usize },
    Quote { replica: usize, ranges: Ranges },
    /// Delete stored quotations / links from the host.
    Unlink { replica: usize, which: Which },
    /// Map links: `sm.insert(key, fresh value)`, `sm.remove(key)`, `sm.link(key)` stored in the host.
    Set { replica: usize, key: String },
    Unset { replica: usize, key: String },
    Link { replica: usize, key: String },
}

impl QStep {
    fn actor(&self) -> Option<usize> {
        match self {
            QStep::Sync { .. } => None,
            QStep::Ins { replica, .. }
            | QStep::Del { replica, .. }
            | QStep::Quote { replica, .. }
            | QStep::Unlink { replica, .. }
            | QStep::Set { replica, .. }
            | QStep::Unset { replica, .. }
            | QStep::Link { replica, .. } => Some(*replica),
        }
    }

    fn json(&self) -> J {
        let rep = |r: &usize| ("replica", J::Num(*r as i64 + 1));
        match self {
            QStep::Ins { replica, index, n } => {
                J::obj(vec![("step", J::str("insert")), rep(replica), ("index", J::num(*index)), ("count", J::num(*n))])
            }
            QStep::Del { replica, index, len } => J::obj(vec![
                ("step", J::str("remove_range")),
                rep(replica),
                ("index", J::num(*index)),
                ("len", J::num(*len)),
            ]),
            QStep::Sync { to, from } => J::obj(vec![
                ("step", J::str("deliver")),
                ("to_replica", J::Num(*to as i64 + 1)),
                ("from_replica", J::Num(*from as i64 + 1)),
            ]),
            QStep::Quote { replica, ranges } => J::obj(vec![
                ("step", J::str("quote")),
                rep(replica),
                (
                    "ranges",
                    match ranges {
                        Ranges::All => J::str("all"),
                        Ranges::List(l) => J::Arr(l.iter().map(range_json).collect()),
                    },
                ),
            ]),
            QStep::Unlink { replica, which } => J::obj(vec![
                ("step", J::str("delete_quotation")),
                rep(replica),
                (
                    "which",
                    match which {
                        Which::All => J::str("all"),
                        Which::Even => J::str("even"),
                        Which::List(l) => J::Arr(l.iter().map(|k| J::Num(*k as i64)).collect()),
                    },
                ),
            ]),
            QStep::Set { replica, key } => J::obj(vec![("step", J::str("set")), rep(replica), ("key", J::str(key))]),
            QStep::Unset { replica, key } => J::obj(vec![("step", J::str("remove")), rep(replica), ("key", J::str(key))]),
            QStep::Link { replica, key } => J::obj(vec![("step", J::str("link")), rep(replica), ("key", J::str(key))]),
        }
    }

    fn from_json(st: &J, what: &str) -> Result<QStep, String> {
        let num = |key: &str| -> Result<u32, String> {
            match st.get(key).and_then(|v| v.as_i64()) {
                Some(n) if (0..=1000).contains(&n) => Ok(n as u32),
                _ => Err(format!("{}.{}: expected a number in 0..=1000", what, key)),
            }
        };
        let replica = |key: &str| -> Result<usize, String> {
            match st.get(key).and_then(|v| v.as_i64()) {
                Some(1) => Ok(0),
                Some(2) => Ok(1),
                _ => Err(format!("{}.{}: expected replica 1 or 2", what, key)),
            }
        };
        let key = || -> Result<String, String> {
            Ok(st
                .get("key")
                .and_then(|k| k.as_str())
                .ok_or_else(|| format!("{}.key missing", what))?
                .to_string())
        };
        match st.get("step").and_then(|s| s.as_str()) {
            Some("insert") => {
                let n = match st.get("count") {
                    Some(_) => num("count")?,
                    None => st.get("elements").and_then(|e| e.as_arr()).map(|a| a.len() as u32).unwrap_or(0),
                };
                if n == 0 || n > MAX_ELEMS {
                    return Err(format!("{}.count: expected 1..={}", what, MAX_ELEMS));
                }
                Ok(QStep::Ins {
                    replica: replica("replica")?,
                    index: num("index")?,
                    n,
                })
            }
            Some("remove_range") => Ok(QStep::Del {
                replica: replica("replica")?,
                index: num("index")?,
                len: num("len")?,
            }),
            Some("deliver") => {
                let (to, from) = (replica("to_replica")?, replica("from_replica")?);
                if to == from {
                    return Err(format!("{}: to_replica and from_replica must differ", what));
                }
                Ok(QStep::Sync { to, from })
            }
            Some("quote") => {
                let ranges = match st.get("ranges") {
                    Some(J::Str(s)) if s == "all" => Ranges::All,
                    Some(J::Arr(items)) => {
                        let mut l = Vec::new();
                        for (i, it) in items.iter().enumerate() {
                            l.push(range_from_json(it, &format!("{}.ranges[{}]", what, i))?);
                        }
                        Ranges::List(l)
                    }
                    _ => return Err(format!("{}.ranges: expected \"all\" or a list of ranges", what)),
                };
                Ok(QStep::Quote {
                    replica: replica("replica")?,
                    ranges,
                })
            }
            Some("delete_quotation") => {
                let which = match st.get("which") {
                    Some(J::Str(s)) if s == "all" => Which::All,
                    Some(J::Str(s)) if s == "even" => Which::Even,
                    Some(J::Arr(items)) => {
                        let mut l = Vec::new();
                        for it in items {
                            match it.as_i64() {
                                Some(n) if (0..=100_000).contains(&n) => l.push(n as usize),
                                _ => return Err(format!("{}.which: expected quotation numbers", what)),
                            }
                        }
                        Which::List(l)
                    }
                    _ => return Err(format!("{}.which: expected \"all\" | \"even\" | [numbers]", what)),
                };
                Ok(QStep::Unlink {
                    replica: replica("replica")?,
                    which,
                })
            }
            Some("set") => Ok(QStep::Set {
                replica: replica("replica")?,
                key: key()?,
            }),
            Some("remove") => Ok(QStep::Unset {
                replica: replica("replica")?,
                key: key()?,
            }),
            Some("link") => Ok(QStep::Link {
                replica: replica("replica")?,
                key: key()?,
            }),
            _ => Err(format!(
                "{}.step: expected insert | remove_range | deliver | quote | delete_quotation | set | remove | link",
                what
            )),
        }
    }
}

#[derive(Clone, Debug)]
pub struct QCase {
    pub target: String,
    pub kind: Kind,
    pub host: Host,
    pub clients: [u64; 2],
    pub gc: bool,
    /// Check the observer clause too.
    pub observe: bool,
    /// Report the disagreements the unchanged tree is known to show (see KNOWN below) as well.
    pub strict: bool,
    pub steps: Vec<QStep>,
}

impl QCase {
    fn fields(&self) -> Vec<(&'static str, J)> {
        let source = match self.kind {
            Kind::Array => "array",
            Kind::Text => "text",
            Kind::Map => "map",
        };
        let host = match self.host {
            Host::Map => "map",
            Host::Array => "array",
        };
        vec![
            ("target", J::str(&self.target)),
            ("variant", J::Str(format!("{}_in_{}", source, host))),
            (
                "op",
                J::obj(vec![
                    ("kind", J::str("quote")),
                    ("source", J::str(source)),
                    ("host", J::str(host)),
                    ("offset_kind", J::str("utf16")),
                    ("gc", J::Bool(self.gc)),
                    ("observers", J::Bool(self.observe)),
                    ("tolerate_known", J::Bool(!self.strict)),
                    ("clients", J::Arr(self.clients.iter().map(|c| J::Num(*c as i64)).collect())),
                    ("steps", J::Arr(self.steps.iter().map(|s| s.json()).collect())),
                ]),
            ),
        ]
    }

    pub fn from_json(j: &J) -> Result<QCase, String> {
        let target = j.get("target").and_then(|t| t.as_str()).unwrap_or("quote").to_string();
        let op = j.get("op").ok_or("op missing")?;
        let text = |key: &str, default: &str| -> Result<String, String> {
            match op.get_non_null(key) {
                Some(v) => Ok(v.as_str().ok_or_else(|| format!("op.{}: expected a string", key))?.to_string()),
                None => Ok(default.to_string()),
            }
        };
        let kind = match text("source", "array")?.as_str() {
            "array" => Kind::Array,
            "text" => Kind::Text,
            "map" => Kind::Map,
            other => return Err(format!("op.source: unknown {:?}", other)),
        };
        let host = match text("host", "map")?.as_str() {
            "map" => Host::Map,
            "array" => Host::Array,
            other => return Err(format!("op.host: unknown {:?}", other)),
        };
        if text("offset_kind", "utf16")? != "utf16" {
            return Err("op.offset_kind: only utf16 documents are in scope of this target".into());
        }
        let flag = |key: &str, default: bool| -> Result<bool, String> {
            match op.get_non_null(key) {
                Some(J::Bool(b)) => Ok(*b),
                None => Ok(default),
                _ => Err(format!("op.{}: expected a boolean", key)),
            }
        };
        let mut clients = [1u64, 2u64];
        if let Some(cs) = op.get_non_null("clients") {
            let cs = cs.as_arr().ok_or("op.clients: expected an array")?;
            if cs.len() != 2 {
                return Err("op.clients: expected two client ids".into());
            }
            for (i, c) in cs.iter().enumerate() {
                match c.as_i64() {
                    Some(n) if n >= 0 && (n as u64) < (1u64 << 53) && n as u64 != PROBE => clients[i] = n as u64,
                    _ => return Err("op.clients: expected 53-bit client ids".into()),
                }
            }
            if clients[0] == clients[1] {
                return Err("op.clients: the client ids must differ".into());
            }
        }
        let arr = op.get("steps").and_then(|s| s.as_arr()).ok_or("op.steps: expected an array")?;
        let mut steps = Vec::new();
        for (i, st) in arr.iter().enumerate() {
            let step = QStep::from_json(st, &format!("op.steps[{}]", i))?;
            let seq_step = matches!(step, QStep::Ins { .. } | QStep::Del { .. } | QStep::Quote { .. });
            let map_step = matches!(step, QStep::Set { .. } | QStep::Unset { .. } | QStep::Link { .. });
            if (kind == Kind::Map && seq_step) || (kind != Kind::Map && map_step) {
                return Err(format!("op.steps[{}]: the step does not fit the source {:?}", i, kind));
            }
            steps.push(step);
        }
        Ok(QCase {
            target,
            kind,
            host,
            clients,
            gc: flag("gc", true)?,
            observe: flag("observers", false)?,
            strict: !flag("tolerate_known", true)?,
            steps,
        })
    }
}

fn invalid(why: String) -> Failure {
    Failure {
        why: format!("invalid case: {}", why),
        expected: J::Null,
        actual: J::Null,
        api: "(none)".to_string(),
    }
}

fn is_invalid(f: &Failure) -> bool {
    f.why.starts_with("invalid case: ")
}

// ---------------------------------------------------------------------------
// elements
// ---------------------------------------------------------------------------

/// The k-th element (k from 1) replica `r` creates.
fn elem_id(r: usize, k: u32) -> u32 {
    r as u32 * 100 + k
}

fn elem_char(id: u32) -> char {
    match id {
        1..=26 => (b'a' + (id - 1) as u8) as char,
        101..=126 => (b'A' + (id - 101) as u8) as char,
        _ => '?',
    }
}

fn char_elem(c: char) -> u32 {
    match c {
        'a'..='z' => c as u32 - 'a' as u32 + 1,
        'A'..='Z' => c as u32 - 'A' as u32 + 101,
        _ => 0,
    }
}

fn out_elem(o: &Out) -> u32 {
    match o {
        Out::Any(Any::BigInt(n)) if (1..1000).contains(n) => *n as u32,
        Out::Any(Any::Number(f)) if f.fract() == 0.0 && (1.0..1000.0).contains(f) => *f as u32,
        _ => 0,
    }
}

/// Elements the way the source shows them: a list of numbers / a string.
fn elems_json(kind: Kind, ids: &[u32]) -> J {
    match kind {
        Kind::Text => J::Str(ids.iter().map(|i| elem_char(*i)).collect()),
        _ => J::Arr(ids.iter().map(|i| J::num(*i)).collect()),
    }
}

fn elem_json(kind: Kind, id: u32) -> J {
    match kind {
        Kind::Text => J::Str(elem_char(id).to_string()),
        _ => J::num(id),
    }
}

// ---------------------------------------------------------------------------
// documents
// ---------------------------------------------------------------------------

fn new_doc(client: u64, gc: bool) -> Doc {
    at("Doc::with_options");
    let mut options = Options::with_client_id(ClientID::new(client));
    options.offset_kind = OffsetKind::Utf16;
    options.skip_gc = !gc;
    Doc::with_options(options)
}

const API_SYNC: &str = "ReadTxn::encode_state_as_update_v1 -> Update::decode_v1 -> TransactionMut::apply_update";

fn transfer(from: &Doc, to: &Doc) -> Result<(), Failure> {
    let api = API_SYNC;
    at(api);
    let sv = to.transact().state_vector();
    let bytes = from.transact().encode_state_as_update_v1(&sv);
    let update = Update::decode_v1(&bytes)
        .map_err(|e| fail("an update just encoded does not decode", api, J::str("Ok"), J::str(&e.to_string())))?;
    let mut txn = to.transact_mut();
    txn.apply_update(update)
        .map_err(|e| fail("apply_update of a peer's state failed", api, J::str("Ok"), J::str(&e.to_string())))?;
    drop(txn); // commit: observers run here
    Ok(())
}

type Outbox = Arc<Mutex<Vec<Vec<u8>>>>;

fn watch_updates(doc: &Doc) -> Result<(Outbox, Subscription), Failure> {
    at("Doc::observe_update_v1");
    let outbox: Outbox = Arc::new(Mutex::new(Vec::new()));
    let ob = outbox.clone();
    let sub = doc
        .observe_update_v1(move |_, e| {
            ob.lock().unwrap_or_else(|e| e.into_inner()).push(e.update.clone());
        })
        .map_err(|_| fail("observe_update_v1 failed", "Doc::observe_update_v1", J::str("Ok"), J::str("Err")))?;
    Ok((outbox, sub))
}

fn drain(outbox: &Outbox) -> Vec<Vec<u8>> {
    std::mem::take(&mut *outbox.lock().unwrap_or_else(|e| e.into_inner()))
}

#[derive(Clone)]
enum Seq {
    Text(TextRef),
    Array(ArrayRef),
}

enum Prelim {
    Text(WeakPrelim<TextRef>),
    Array(WeakPrelim<ArrayRef>),
}

enum Link {
    Text(WeakRef<TextRef>),
    Array(WeakRef<ArrayRef>),
}

fn quote_on<Q: Quotable, T: ReadTxn>(q: &Q, txn: &T, r: &Range) -> Result<WeakPrelim<Q>, String> {
    let res = match *r {
        (Bd::In(a), Bd::Ex(b)) => q.quote(txn, a..b),
        (Bd::In(a), Bd::In(b)) => q.quote(txn, a..=b),
        (Bd::In(a), Bd::Un) => q.quote(txn, a..),
        (Bd::Un, Bd::Ex(b)) => q.quote(txn, ..b),
        (Bd::Un, Bd::In(b)) => q.quote(txn, ..=b),
        (Bd::Un, Bd::Un) => q.quote(txn, ..),
        (s, e) => q.quote(txn, (s.bound(), e.bound())),
    };
    res.map_err(|e| e.to_string())
}

impl Seq {
    fn read<T: ReadTxn>(&self, txn: &T) -> Vec<u32> {
        match self {
            Seq::Text(t) => {
                at("Text::get_string");
                t.get_string(txn).chars().map(char_elem).collect()
            }
            Seq::Array(a) => {
                at("Array::iter");
                a.iter(txn).map(|v| out_elem(&v)).collect()
            }
        }
    }

    fn insert(&self, txn: &mut TransactionMut, index: u32, ids: &[u32]) {
        match self {
            Seq::Text(t) => {
                at("Text::insert");
                let s: String = ids.iter().map(|i| elem_char(*i)).collect();
                t.insert(txn, index, &s);
            }
            Seq::Array(a) => {
                at("Array::insert_range");
                a.insert_range(txn, index, ids.iter().map(|i| Any::BigInt(*i as i64)));
            }
        }
    }

    fn remove(&self, txn: &mut TransactionMut, index: u32, len: u32) {
        match self {
            Seq::Text(t) => {
                at("Text::remove_range");
                t.remove_range(txn, index, len);
            }
            Seq::Array(a) => {
                at("Array::remove_range");
                a.remove_range(txn, index, len);
            }
        }
    }

    fn quote<T: ReadTxn>(&self, txn: &T, r: &Range) -> Result<Prelim, String> {
        at(&format!("Quotable::quote({})", range_rust(r)));
        match self {
            Seq::Text(t) => quote_on(t, txn, r).map(Prelim::Text),
            Seq::Array(a) => quote_on(a, txn, r).map(Prelim::Array),
        }
    }
}

fn quote_key(k: usize) -> String {
    format!("q{}", k)
}

/// Stores a quotation in the host (map: under `q<k>`; array: appended).
fn store(hm: &MapRef, ha: &ArrayRef, host: Host, txn: &mut TransactionMut, k: usize, p: Prelim) {
    match (host, p) {
        (Host::Map, Prelim::Text(p)) => {
            at("Map::insert(key, WeakPrelim<TextRef>)");
            hm.insert(txn, quote_key(k), p);
        }
        (Host::Map, Prelim::Array(p)) => {
            at("Map::insert(key, WeakPrelim<ArrayRef>)");
            hm.insert(txn, quote_key(k), p);
        }
        (Host::Array, Prelim::Text(p)) => {
            at("Array::push_back(WeakPrelim<TextRef>)");
            ha.push_back(txn, p);
        }
        (Host::Array, Prelim::Array(p)) => {
            at("Array::push_back(WeakPrelim<ArrayRef>)");
            ha.push_back(txn, p);
        }
    }
}

impl Link {
    fn from_out(kind: Kind, o: Option<Out>) -> Option<Link> {
        match o {
            Some(Out::YWeakLink(w)) => {
                let w: WeakRef<BranchPtr> = w;
                Some(match kind {
                    Kind::Text => Link::Text(WeakRef::<TextRef>::from(w)),
                    _ => Link::Array(WeakRef::<ArrayRef>::from(w)),
                })
            }
            _ => None,
        }
    }

    /// Every way of dereferencing: (API, elements).
    fn deref<T: ReadTxn>(&self, txn: &T) -> Vec<(&'static str, Vec<u32>)> {
        match self {
            Link::Array(w) => {
                at("WeakRef<ArrayRef>::unquote");
                vec![("WeakRef<ArrayRef>::unquote", w.unquote(txn).map(|o| out_elem(&o)).collect())]
            }
            Link::Text(w) => {
                at("WeakRef<TextRef>::get_string");
                let plain: Vec<u32> = w.get_string(txn).chars().map(char_elem).collect();
                at("WeakRef<XmlTextRef>::get_string");
                let x: WeakRef<XmlTextRef> = WeakRef::from(w.clone().into_inner());
                let xml: Vec<u32> = x.get_string(txn).chars().map(char_elem).collect();
                vec![("WeakRef<TextRef>::get_string", plain), ("WeakRef<XmlTextRef>::get_string", xml)]
            }
        }
    }

    fn observe(&self, counter: Arc<AtomicU32>) -> Subscription {
        at("Observable::observe (WeakRef)");
        match self {
            Link::Array(w) => w.observe(move |_, _| {
                counter.fetch_add(1, Ordering::Relaxed);
            }),
            Link::Text(w) => w.observe(move |_, _| {
                counter.fetch_add(1, Ordering::Relaxed);
            }),
        }
    }
}

struct Rep {
    doc: Doc,
    src: Seq,
    hm: MapRef,
    ha: ArrayRef,
    outbox: Outbox,
    _sub: Option<Subscription>,
    /// Elements whose insertion / removal this replica has been told.
    ins: BTreeSet<u32>,
    del: BTreeSet<u32>,
    /// This replica has received the transaction of the `quote` step.
    links_known: bool,
    /// Quotations whose deletion this replica has been told.
    unlinked: BTreeSet<usize>,
    /// Observer call counters per quotation.
    counters: Vec<Option<(Arc<AtomicU32>, Subscription)>>,
    /// The counters as they were after the previous step (`None`: no observer yet).
    seen: Vec<Option<u32>>,
    /// Elements this replica has created.
    created: u32,
}

/// A boundary of a quotation as the oracle sees it.
#[derive(Clone, Copy, Debug, PartialEq)]
enum Edge {
    /// Start / end of the collection.
    Open,
    Elem { id: u32, incl: bool },
}

struct Tracked {
    range: Range,
    /// `quote` returned Ok and the quotation was stored.
    ok: bool,
    /// `None`: the index does not exist, there is no boundary element.
    start: Option<Edge>,
    end: Option<Edge>,
    /// Visible content of the quoting replica when the range was quoted.
    quoted_on: Vec<u32>,
}

impl Tracked {
    fn wild(&self) -> bool {
        self.start.is_none() || self.end.is_none()
    }
}

/// The elements of `visible` inside the range; `None`: the oracle cannot tell
/// (a boundary element is not visible and there is no trusted document order).
fn inside(tr: &Tracked, visible: &[u32], order: Option<&[u32]>, strictly: bool) -> Option<Vec<u32>> {
    let (start, end) = (tr.start?, tr.end?);
    let rank = |x: u32| -> Option<usize> {
        match order {
            Some(o) => o.iter().position(|y| *y == x),
            None => visible.iter().position(|y| *y == x),
        }
    };
    let s_rank = match start {
        Edge::Open => None,
        Edge::Elem { id, .. } => Some(rank(id)?),
    };
    let e_rank = match end {
        Edge::Open => None,
        Edge::Elem { id, .. } => Some(rank(id)?),
    };
    let mut out = Vec::new();
    for v in visible {
        let r = rank(*v)?;
        let lo = match (start, s_rank) {
            (Edge::Elem { id, incl }, Some(s)) => r > s || (incl && !strictly && *v == id),
            _ => true,
        };
        let hi = match (end, e_rank) {
            (Edge::Elem { id, incl }, Some(e)) => r < e || (incl && !strictly && *v == id),
            _ => true,
        };
        if lo && hi {
            out.push(*v);
        }
    }
    Some(out)
}

/// KNOWN: what the unchanged tree (2026-09-26) shows for quotations of a TEXT read through the two
/// string renderings (`WeakRef<TextRef>::get_string` = `LinkSource::to_string`,
/// `WeakRef<XmlTextRef>::get_string` = `XmlTextRef::get_string_fragment`). `unquote` on arrays shows
/// none of this. `search quote_strict` reports these; the other targets do not dereference a text
/// quotation of exactly these two classes through the string renderings (counted in
/// `known_disagreements_skipped`), everything else about them is still checked.
///
/// K-a, EXCLUDED start. When the stored quotation is integrated and the start anchor is the last
/// element of its block (always on a replica that RECEIVES the quotation: the sender has split the
/// block there; locally when the anchor ends a block, e.g. "ab" typed, "c" put in front, then
/// `(Excluded(0), ..)`), `LinkSource::materialize` starts its block iterator BEHIND the anchor
/// (`quote_start.get_item` returns `item.right` for `Assoc::After`), `RangeIter::begin` never meets
/// the start id, nothing is split or marked as linked, the sender's split is squashed again at the
/// end of the transaction; `to_string` relies on the split and shows the excluded element and, when
/// the end lies inside a block, everything up to the end of the text. Minimal: replica 1 types "ab",
/// stores `quote((Excluded(0), Unbounded))`, delivery to replica 2: `get_string` there is "ab", not
/// "b"; "abcd", `(Excluded(0), Included(1))`: "abcd" on replica 2, not "b". The XML rendering
/// PANICS locally: "ab" typed, "c" inserted at 0 ("cab"), `quote((Excluded(0), Included(1)))` stored:
/// `WeakRef<XmlTextRef>::get_string` -> "end byte index 3 is out of bounds of `ab`".
///
/// K-b, a range that holds NO element when it is stored (`a..a`, `(Excluded(a), Included(a))`,
/// `(Excluded(a), Excluded(a))`, and the open interval between neighbours `(Excluded(a),
/// Excluded(a+1))`, which is a proper range: later insertions between the two belong to it): no
/// block is split, `to_string` never meets its end condition and returns everything from the block
/// of the anchor to the end of the text, the XML rendering everything behind the anchor. Minimal:
/// "ab", `quote((Excluded(0), Excluded(1)))` stored: `get_string` is "ab", XML "b", not "".
fn known_text_class(tr: &Tracked) -> bool {
    let excluded_start = matches!(tr.start, Some(Edge::Elem { incl: false, .. }));
    let empty_when_stored = inside(tr, &tr.quoted_on, None, false).map(|v| v.is_empty()).unwrap_or(false);
    excluded_start || empty_when_stored
}

/// What a passing run tells about the final state.
#[derive(Clone, Debug, Default)]
pub struct QInfo {
    len: [u32; 2],
    /// A stored quotation with both boundaries exists.
    live: bool,
    /// Replicas that hold the quotations.
    holds: [bool; 2],
    /// Map links: which keys are present per replica (bit k), number of links stored, which of
    /// them (bit k) each replica holds.
    present: [u8; 2],
    links: usize,
    held: [u32; 2],
    pub probe_gaps: u32,
    /// Quotations returned for an index that does not exist (only dereferenced, nothing asserted).
    pub wild: u32,
    pub quotations: u32,
    pub tolerated: u32,
}

struct World<'a> {
    case: &'a QCase,
    reps: Vec<Rep>,
    probe_doc: Doc,
    probe_src: Seq,
    all: BTreeSet<u32>,
    tracked: Vec<Tracked>,
    quoted: bool,
    /// Visible content after the previous step.
    last: [Vec<u32>; 2],
    probe_gaps: u32,
    /// Disagreements of the KNOWN kinds that were passed over.
    tolerated: u32,
}

impl<'a> World<'a> {
    fn new(case: &'a QCase) -> Result<World<'a>, Failure> {
        let docs = [
            new_doc(case.clients[0], case.gc),
            new_doc(case.clients[1], case.gc),
            new_doc(PROBE, case.gc),
        ];
        let mut reps: Vec<Rep> = Vec::new();
        for (i, doc) in docs.into_iter().enumerate() {
            at("Doc::get_or_insert_text / get_or_insert_array / get_or_insert_map");
            let src = match case.kind {
                Kind::Text => Seq::Text(doc.get_or_insert_text(SRC)),
                _ => Seq::Array(doc.get_or_insert_array(SRC)),
            };
            let hm = doc.get_or_insert_map(HOST_MAP);
            let ha = doc.get_or_insert_array(HOST_ARR);
            let (outbox, sub) = if i < 2 {
                let (o, s) = watch_updates(&doc)?;
                (o, Some(s))
            } else {
                (Arc::new(Mutex::new(Vec::new())), None)
            };
            reps.push(Rep {
                doc,
                src,
                hm,
                ha,
                outbox,
                _sub: sub,
                ins: BTreeSet::new(),
                del: BTreeSet::new(),
                links_known: false,
                unlinked: BTreeSet::new(),
                counters: Vec::new(),
                seen: Vec::new(),
                created: 0,
            });
        }
        let probe = reps.pop().unwrap();
        Ok(World {
            case,
            reps,
            probe_doc: probe.doc,
            probe_src: probe.src,
            all: BTreeSet::new(),
            tracked: Vec::new(),
            quoted: false,
            last: [Vec::new(), Vec::new()],
            probe_gaps: 0,
            tolerated: 0,
        })
    }

    fn content(&self, r: usize) -> Vec<u32> {
        let txn = self.reps[r].doc.transact();
        self.reps[r].src.read(&txn)
    }

    fn to_probe(&self, updates: Vec<Vec<u8>>) {
        for bytes in updates {
            at("Doc::observe_update_v1 -> Update::decode_v1 -> TransactionMut::apply_update (probe replica)");
            if let Ok(update) = Update::decode_v1(&bytes) {
                let _ = self.probe_doc.transact_mut().apply_update(update);
            }
        }
    }

    /// The document order of all elements inserted so far, if the probe replica can be trusted.
    fn order(&mut self, contents: &[Vec<u32>; 2]) -> Option<Vec<u32>> {
        let order = {
            let txn = self.probe_doc.transact();
            self.probe_src.read(&txn)
        };
        let set: BTreeSet<u32> = order.iter().copied().collect();
        let mut ok = set.len() == order.len() && set == self.all;
        for c in contents.iter() {
            let visible: BTreeSet<u32> = c.iter().copied().collect();
            let projected: Vec<u32> = order.iter().copied().filter(|x| visible.contains(x)).collect();
            ok &= &projected == c;
        }
        if ok {
            Some(order)
        } else {
            self.probe_gaps += 1;
            None
        }
    }

    /// Position of quotation `k` in the host array of replica `r`.
    fn host_pos(&self, r: usize, k: usize) -> u32 {
        (0..k)
            .filter(|j| self.tracked[*j].ok && !self.reps[r].unlinked.contains(j))
            .count() as u32
    }

    fn fetch<T: ReadTxn>(&self, txn: &T, r: usize, k: usize) -> Option<Link> {
        let rep = &self.reps[r];
        let out = match self.case.host {
            Host::Map => {
                at("Map::get (host)");
                rep.hm.get(txn, &quote_key(k))
            }
            Host::Array => {
                at("Array::get (host)");
                rep.ha.get(txn, self.host_pos(r, k))
            }
        };
        Link::from_out(self.case.kind, out)
    }

    fn tracked_json(&self, k: usize) -> J {
        let kind = self.case.kind;
        let tr = &self.tracked[k];
        let edge = |e: &Option<Edge>, open: &str| match e {
            None => J::str("none: the index does not exist"),
            Some(Edge::Open) => J::str(open),
            Some(Edge::Elem { id, incl }) => J::obj(vec![
                ("element", elem_json(kind, *id)),
                ("included", J::Bool(*incl)),
            ]),
        };
        J::obj(vec![
            ("number", J::Num(k as i64)),
            ("range", J::Str(range_rust(&tr.range))),
            ("quoted_on_content", elems_json(kind, &tr.quoted_on)),
            ("start_boundary", edge(&tr.start, "start of the collection")),
            ("end_boundary", edge(&tr.end, "end of the collection")),
        ])
    }
}

// ---------------------------------------------------------------------------
// execution: sequences
// ---------------------------------------------------------------------------

impl<'a> World<'a> {
    fn step_json(step_no: Option<usize>) -> J {
        step_no.map(|s| J::Num(s as i64 + 1)).unwrap_or(J::Num(0))
    }

    /// A local transaction on the source: `op` runs inside it; `want` is the content afterwards.
    fn local(
        &mut self,
        replica: usize,
        step_no: usize,
        to_probe: bool,
        want: Vec<u32>,
        what: &str,
        op: &dyn Fn(&Rep, &mut TransactionMut),
    ) -> Result<(), Failure> {
        let _ = drain(&self.reps[replica].outbox);
        {
            at("Doc::transact_mut");
            let mut txn = self.reps[replica].doc.transact_mut();
            op(&self.reps[replica], &mut txn);
            at("TransactionMut::commit");
            drop(txn);
        }
        let updates = drain(&self.reps[replica].outbox);
        if to_probe {
            self.to_probe(updates);
        }
        let have = self.content(replica);
        if have != want {
            let kind = self.case.kind;
            return Err(fail(
                what,
                "Doc::transact_mut .. commit (local transaction)",
                J::obj(vec![
                    ("step", J::Num(step_no as i64 + 1)),
                    ("replica", J::Num(replica as i64 + 1)),
                    ("content_before", elems_json(kind, &self.last[replica])),
                    ("content", elems_json(kind, &want)),
                ]),
                J::obj(vec![("content", elems_json(kind, &have))]),
            ));
        }
        Ok(())
    }

    fn run_step(&mut self, step: &QStep, step_no: usize) -> Result<(), Failure> {
        let kind = self.case.kind;
        let host = self.case.host;
        match step {
            QStep::Ins { replica, index, n } => {
                let r = *replica;
                let before = self.last[r].clone();
                if *index as usize > before.len() {
                    return Err(invalid(format!("step {}: insert at {} into {} elements", step_no + 1, index, before.len())));
                }
                if self.reps[r].created + *n > MAX_ELEMS {
                    return Err(invalid(format!("step {}: a replica creates at most {} elements", step_no + 1, MAX_ELEMS)));
                }
                let ids: Vec<u32> = (1..=*n).map(|k| elem_id(r, self.reps[r].created + k)).collect();
                self.reps[r].created += *n;
                let mut want = before;
                want.splice(*index as usize..*index as usize, ids.iter().copied());
                for id in ids.iter() {
                    self.reps[r].ins.insert(*id);
                    self.all.insert(*id);
                }
                let index = *index;
                self.local(
                    r,
                    step_no,
                    true,
                    want,
                    "an insertion into the source does not have its sequential effect",
                    &|rep, txn| rep.src.insert(txn, index, &ids),
                )
            }
            QStep::Del { replica, index, len } => {
                let r = *replica;
                let before = self.last[r].clone();
                if *len == 0 || (*index + *len) as usize > before.len() {
                    return Err(invalid(format!(
                        "step {}: remove_range({}, {}) on {} elements",
                        step_no + 1,
                        index,
                        len,
                        before.len()
                    )));
                }
                let mut want = before;
                let gone: Vec<u32> = want.drain(*index as usize..(*index + *len) as usize).collect();
                self.reps[r].del.extend(gone);
                let (index, len) = (*index, *len);
                // the probe replica never learns of a removal
                self.local(
                    r,
                    step_no,
                    false,
                    want,
                    "a removal from the source does not have its sequential effect",
                    &|rep, txn| rep.src.remove(txn, index, len),
                )
            }
            QStep::Sync { to, from } => {
                transfer(&self.reps[*from].doc, &self.reps[*to].doc)?;
                let (ins, del, known, unlinked) = {
                    let f = &self.reps[*from];
                    (f.ins.clone(), f.del.clone(), f.links_known, f.unlinked.clone())
                };
                let t = &mut self.reps[*to];
                t.ins.extend(ins);
                t.del.extend(del);
                t.links_known |= known;
                t.unlinked.extend(unlinked);
                let _ = drain(&self.reps[0].outbox);
                let _ = drain(&self.reps[1].outbox);
                Ok(())
            }
            QStep::Quote { replica, ranges } => {
                let r = *replica;
                if self.quoted {
                    return Err(invalid(format!("step {}: a history has one quote step", step_no + 1)));
                }
                self.quoted = true;
                let visible = self.last[r].clone();
                let len = visible.len() as u32;
                let ranges: Vec<Range> = match ranges {
                    Ranges::All => all_shapes(len),
                    Ranges::List(l) => l.clone(),
                };
                let _ = drain(&self.reps[r].outbox);
                {
                    at("Doc::transact_mut");
                    let mut txn = self.reps[r].doc.transact_mut();
                    // every quote() first (they see the blocks as the edits left them) ..
                    let mut prelims: Vec<Option<Prelim>> = Vec::new();
                    for range in ranges.iter() {
                        let res = self.reps[r].src.quote(&txn, range);
                        let edge = |b: Bd, incl_kind: bool| -> Option<Edge> {
                            match b {
                                Bd::Un => Some(Edge::Open),
                                Bd::In(i) | Bd::Ex(i) => visible.get(i as usize).map(|id| Edge::Elem {
                                    id: *id,
                                    incl: incl_kind == matches!(b, Bd::In(_)),
                                }),
                            }
                        };
                        let tr = Tracked {
                            range: *range,
                            ok: res.is_ok(),
                            start: edge(range.0, true),
                            end: edge(range.1, true),
                            quoted_on: visible.clone(),
                        };
                        let (si, ei) = (range.0.idx(), range.1.idx());
                        let exists = si.map(|i| i < len).unwrap_or(true) && ei.map(|i| i < len).unwrap_or(true);
                        let inverted = matches!((si, ei), (Some(s), Some(e)) if e < s);
                        let degenerate =
                            matches!((si, ei), (Some(s), Some(e)) if s == e) && !matches!(range, (Bd::In(_), Bd::In(_)));
                        let context = |want: &str| -> J {
                            J::obj(vec![
                                ("step", J::Num(step_no as i64 + 1)),
                                ("replica", J::Num(r as i64 + 1)),
                                ("content", elems_json(kind, &visible)),
                                ("range", J::Str(range_rust(range))),
                                ("result", J::str(want)),
                            ])
                        };
                        let got = |res: &Result<Prelim, String>| match res {
                            Ok(_) => J::obj(vec![("result", J::str("Ok"))]),
                            Err(e) => J::obj(vec![("result", J::Str(format!("Err({})", e)))]),
                        };
                        if exists && inverted && res.is_ok() {
                            return Err(fail(
                                "quote accepts an inverted range (its end lies in front of its start)",
                                "Quotable::quote",
                                context("Err"),
                                got(&res),
                            ));
                        }
                        if exists && !inverted && !degenerate && res.is_err() {
                            return Err(fail(
                                "quote refuses a range whose boundary elements exist",
                                "Quotable::quote",
                                context("Ok"),
                                got(&res),
                            ));
                        }
                        self.tracked.push(tr);
                        prelims.push(res.ok());
                    }
                    // .. then every quotation is stored in the document
                    for (k, p) in prelims.into_iter().enumerate() {
                        if let Some(p) = p {
                            let rep = &self.reps[r];
                            store(&rep.hm, &rep.ha, host, &mut txn, k, p);
                        }
                    }
                    at("TransactionMut::commit (quotations stored)");
                    drop(txn);
                }
                let updates = drain(&self.reps[r].outbox);
                self.to_probe(updates);
                self.reps[r].links_known = true;
                let have = self.content(r);
                if have != visible {
                    return Err(fail(
                        "storing a quotation changes the source",
                        "Map::insert / Array::push_back (WeakPrelim)",
                        J::obj(vec![
                            ("step", J::Num(step_no as i64 + 1)),
                            ("replica", J::Num(r as i64 + 1)),
                            ("content", elems_json(kind, &visible)),
                        ]),
                        J::obj(vec![("content", elems_json(kind, &have))]),
                    ));
                }
                Ok(())
            }
            QStep::Unlink { replica, which } => {
                let r = *replica;
                if !self.reps[r].links_known {
                    return Err(invalid(format!("step {}: the replica holds no quotation", step_no + 1)));
                }
                let chosen: Vec<usize> = (0..self.tracked.len())
                    .filter(|k| match which {
                        Which::All => true,
                        Which::Even => k % 2 == 0,
                        Which::List(l) => l.contains(k),
                    })
                    .filter(|k| self.tracked[*k].ok && !self.reps[r].unlinked.contains(k))
                    .collect();
                let visible = self.last[r].clone();
                let _ = drain(&self.reps[r].outbox);
                {
                    at("Doc::transact_mut");
                    let mut txn = self.reps[r].doc.transact_mut();
                    // from the back, so that the positions in the host array stay valid
                    for k in chosen.iter().rev() {
                        match host {
                            Host::Map => {
                                at("Map::remove (stored quotation)");
                                self.reps[r].hm.remove(&mut txn, &quote_key(*k));
                            }
                            Host::Array => {
                                let pos = self.host_pos(r, *k);
                                at("Array::remove (stored quotation)");
                                self.reps[r].ha.remove(&mut txn, pos);
                            }
                        }
                    }
                    at("TransactionMut::commit (quotations deleted)");
                    drop(txn);
                }
                let _ = drain(&self.reps[r].outbox);
                for k in chosen {
                    self.reps[r].unlinked.insert(k);
                    // the observer goes with the quotation
                    if let Some(c) = self.reps[r].counters.get_mut(k) {
                        *c = None;
                    }
                }
                let have = self.content(r);
                if have != visible {
                    return Err(fail(
                        "deleting a quotation changes the source",
                        "Map::remove / Array::remove (stored quotation)",
                        J::obj(vec![
                            ("step", J::Num(step_no as i64 + 1)),
                            ("replica", J::Num(r as i64 + 1)),
                            ("content", elems_json(kind, &visible)),
                        ]),
                        J::obj(vec![("content", elems_json(kind, &have))]),
                    ));
                }
                Ok(())
            }
            _ => Err(invalid(format!("step {}: not a step of a sequence history", step_no + 1))),
        }
    }

    /// Everything that must hold after a step, on both replicas.
    fn check_all(&mut self, step_no: Option<usize>, api: &str) -> Result<(), Failure> {
        let kind = self.case.kind;
        let contents = [self.content(0), self.content(1)];
        // the source holds exactly what the replica has been told
        for r in 0..2 {
            let want: BTreeSet<u32> = self.reps[r].ins.difference(&self.reps[r].del).copied().collect();
            let have: BTreeSet<u32> = contents[r].iter().copied().collect();
            if have.len() != contents[r].len() || have != want {
                let want: Vec<u32> = want.into_iter().collect();
                return Err(fail(
                    "the source does not hold exactly the elements the replica was told (inserted minus removed)",
                    api,
                    J::obj(vec![
                        ("after_step", Self::step_json(step_no)),
                        ("replica", J::Num(r as i64 + 1)),
                        ("content_before", elems_json(kind, &self.last[r])),
                        ("elements_in_some_order", elems_json(kind, &want)),
                    ]),
                    J::obj(vec![("content", elems_json(kind, &contents[r]))]),
                ));
            }
        }
        let order = self.order(&contents);
        for r in 0..2 {
            if !self.reps[r].links_known {
                continue;
            }
            let txn = self.reps[r].doc.transact();
            for k in 0..self.tracked.len() {
                if !self.tracked[k].ok || self.reps[r].unlinked.contains(&k) {
                    continue;
                }
                let context = |w: &World, value: J| -> J {
                    J::obj(vec![
                        ("after_step", Self::step_json(step_no)),
                        ("quotation", w.tracked_json(k)),
                        ("dereferenced_on_replica", J::Num(r as i64 + 1)),
                        ("content_replica_1", elems_json(kind, &contents[0])),
                        ("content_replica_2", elems_json(kind, &contents[1])),
                        (
                            "document_order_with_deleted",
                            order.as_ref().map(|o| elems_json(kind, o)).unwrap_or(J::Null),
                        ),
                        ("dereferences_to", value),
                    ])
                };
                let link = match self.fetch(&txn, r, k) {
                    Some(l) => l,
                    // nothing is asserted about a quotation without boundary element
                    None if self.tracked[k].wild() => continue,
                    None => {
                        return Err(fail(
                            "a stored quotation cannot be read back from the document",
                            "Map::get / Array::get (host)",
                            context(self, J::str("a weak link")),
                            J::Null,
                        ))
                    }
                };
                let tr = &self.tracked[k];
                if kind == Kind::Text && !self.case.strict && known_text_class(tr) {
                    self.tolerated += 1;
                    continue;
                }
                let got = link.deref(&txn);
                if tr.wild() {
                    continue; // only: no panic
                }
                let want = match inside(tr, &contents[r], order.as_deref(), false) {
                    Some(w) => w,
                    None => continue,
                };
                for (name, have) in got {
                    if have != want && std::env::var_os("VX_QUOTE_COLLECT").is_some() {
                        // debugging aid: list every disagreement on stderr and go on
                        eprintln!(
                            "{}\t{}\tquoted_on={}\tvisible={}\twant={}\thave={}\treplica={}\tsteps={}",
                            name,
                            range_rust(&tr.range),
                            elems_json(kind, &tr.quoted_on),
                            elems_json(kind, &contents[r]),
                            elems_json(kind, &want),
                            elems_json(kind, &have),
                            r + 1,
                            J::Arr(self.case.steps.iter().map(|s| s.json()).collect())
                        );
                        continue;
                    }
                    if have != want {
                        return Err(fail(
                            "a quotation does not dereference to the visible elements between its boundary elements",
                            name,
                            context(self, elems_json(kind, &want)),
                            J::obj(vec![("dereferences_to", elems_json(kind, &have))]),
                        ));
                    }
                }
            }
        }
        if self.case.observe {
            self.check_observers(step_no, &contents, order.as_deref(), api)?;
        }
        self.last = contents;
        Ok(())
    }

    /// The observer clause for the step just executed, then observers for quotations that are new here.
    fn check_observers(
        &mut self,
        step_no: Option<usize>,
        contents: &[Vec<u32>; 2],
        order: Option<&[u32]>,
        api: &str,
    ) -> Result<(), Failure> {
        let kind = self.case.kind;
        for r in 0..2 {
            for k in 0..self.tracked.len() {
                let before_calls = match self.reps[r].seen.get(k).copied().flatten() {
                    Some(c) => c,
                    None => continue, // no observer before this step
                };
                let now = match self.reps[r].counters.get(k).and_then(|c| c.as_ref()) {
                    Some((c, _)) => c.load(Ordering::Relaxed),
                    None => continue, // deleted in this step
                };
                let tr = &self.tracked[k];
                if tr.wild() {
                    continue;
                }
                let (was, is) = match (
                    inside(tr, &self.last[r], order, true),
                    inside(tr, &contents[r], order, true),
                ) {
                    (Some(a), Some(b)) => (a, b),
                    _ => continue,
                };
                let removed: Vec<u32> = was.iter().copied().filter(|x| !contents[r].contains(x)).collect();
                let added: Vec<u32> = is.iter().copied().filter(|x| !self.last[r].contains(x)).collect();
                if (removed.is_empty() && added.is_empty()) || now > before_calls {
                    continue;
                }
                if std::env::var_os("VX_QUOTE_COLLECT").is_some() {
                    eprintln!(
                        "observer\t{}\tquoted_on={}\tbefore={}\tafter={}\tadded={}\tremoved={}\treplica={}\tsteps={}",
                        range_rust(&tr.range),
                        elems_json(kind, &tr.quoted_on),
                        elems_json(kind, &self.last[r]),
                        elems_json(kind, &contents[r]),
                        elems_json(kind, &added),
                        elems_json(kind, &removed),
                        r + 1,
                        J::Arr(self.case.steps.iter().map(|s| s.json()).collect())
                    );
                    continue;
                }
                return Err(fail(
                    "the observer of a quotation is not notified of a change strictly inside its range",
                    api,
                    J::obj(vec![
                        ("after_step", Self::step_json(step_no)),
                        ("quotation", self.tracked_json(k)),
                        ("observed_on_replica", J::Num(r as i64 + 1)),
                        ("content_before", elems_json(kind, &self.last[r])),
                        ("content", elems_json(kind, &contents[r])),
                        ("inserted_inside", elems_json(kind, &added)),
                        ("removed_inside", elems_json(kind, &removed)),
                        ("observer_calls", J::str("at least 1")),
                    ]),
                    J::obj(vec![("observer_calls", J::num(now - before_calls))]),
                ));
            }
        }
        // observers for the quotations this replica has just learnt of; remember the counters
        for r in 0..2 {
            if !self.reps[r].links_known {
                continue;
            }
            let n = self.tracked.len();
            if self.reps[r].counters.len() < n {
                let mut fresh: Vec<Option<(Arc<AtomicU32>, Subscription)>> = Vec::new();
                {
                    let txn = self.reps[r].doc.transact();
                    for k in 0..n {
                        let live = self.tracked[k].ok && !self.reps[r].unlinked.contains(&k);
                        let link = if live { self.fetch(&txn, r, k) } else { None };
                        fresh.push(link.map(|l| {
                            let counter = Arc::new(AtomicU32::new(0));
                            let sub = l.observe(counter.clone());
                            (counter, sub)
                        }));
                    }
                }
                self.reps[r].counters = fresh;
            }
            let seen: Vec<Option<u32>> = self.reps[r]
                .counters
                .iter()
                .map(|c| c.as_ref().map(|(c, _)| c.load(Ordering::Relaxed)))
                .collect();
            self.reps[r].seen = seen;
        }
        Ok(())
    }
}

fn news(steps: &[QStep]) -> [bool; 2] {
    let mut n = [false; 2];
    for s in steps {
        match s {
            QStep::Sync { from, .. } => n[*from] = false,
            other => {
                if let Some(r) = other.actor() {
                    n[r] = true;
                }
            }
        }
    }
    n
}

const API_LOCAL: &str = "Doc::transact_mut .. commit (local transaction)";

/// Runs the steps; `close`: afterwards delivers whatever has not been
/// delivered yet. On a disagreement returns the case cut after the failing step.
fn execute_seq(case: &QCase, close: bool) -> Result<QInfo, (QCase, Failure)> {
    let mut done: Vec<QStep> = Vec::new();
    let r = guarded(|| {
        let mut w = World::new(case)?;
        let mut pending: Vec<QStep> = case.steps.clone();
        pending.reverse();
        let mut closing = 0;
        loop {
            let step = match pending.pop() {
                Some(s) => s,
                None => {
                    if !close || closing == 2 {
                        break;
                    }
                    closing += 1;
                    let (to, from) = if closing == 1 { (1, 0) } else { (0, 1) };
                    if !news(&done)[from] {
                        continue;
                    }
                    QStep::Sync { to, from }
                }
            };
            let step_no = done.len();
            done.push(step.clone());
            w.run_step(&step, step_no)?;
            let api = if matches!(step, QStep::Sync { .. }) { API_SYNC } else { API_LOCAL };
            w.check_all(Some(step_no), api)?;
        }
        let mut info = QInfo {
            len: [w.last[0].len() as u32, w.last[1].len() as u32],
            probe_gaps: w.probe_gaps,
            tolerated: w.tolerated,
            ..QInfo::default()
        };
        for tr in w.tracked.iter() {
            if tr.ok {
                info.quotations += 1;
                if tr.wild() {
                    info.wild += 1;
                } else {
                    info.live = true;
                }
            }
        }
        info.holds = [w.reps[0].links_known, w.reps[1].links_known];
        Ok(info)
    });
    r.map_err(|f| {
        (
            QCase {
                steps: done,
                ..case.clone()
            },
            f,
        )
    })
}

// ---------------------------------------------------------------------------
// execution: map links
// ---------------------------------------------------------------------------

struct MRep {
    doc: Doc,
    sm: MapRef,
    hm: MapRef,
    ha: ArrayRef,
    /// Links (by number) this replica holds / whose deletion it has been told.
    known: BTreeSet<usize>,
    unlinked: BTreeSet<usize>,
    created: u32,
    counters: BTreeMap<usize, (Arc<AtomicU32>, Subscription)>,
    seen: BTreeMap<usize, u32>,
    /// `sm` as read after the previous step.
    last: BTreeMap<String, u32>,
}

struct MLink {
    key: String,
    /// `Map::link` returned a link (the key had an entry, possibly a removed one).
    ok: bool,
}

fn link_key(k: usize) -> String {
    format!("l{}", k)
}

struct MWorld<'a> {
    case: &'a QCase,
    reps: Vec<MRep>,
    links: Vec<MLink>,
}

impl<'a> MWorld<'a> {
    fn new(case: &'a QCase) -> MWorld<'a> {
        let mut reps = Vec::new();
        for c in case.clients.iter() {
            let doc = new_doc(*c, case.gc);
            at("Doc::get_or_insert_map / get_or_insert_array");
            let sm = doc.get_or_insert_map(SRC_MAP);
            let hm = doc.get_or_insert_map(HOST_MAP);
            let ha = doc.get_or_insert_array(HOST_ARR);
            reps.push(MRep {
                doc,
                sm,
                hm,
                ha,
                known: BTreeSet::new(),
                unlinked: BTreeSet::new(),
                created: 0,
                counters: BTreeMap::new(),
                seen: BTreeMap::new(),
                last: BTreeMap::new(),
            });
        }
        MWorld {
            case,
            reps,
            links: Vec::new(),
        }
    }

    fn read(&self, r: usize) -> BTreeMap<String, u32> {
        let txn = self.reps[r].doc.transact();
        at("Map::iter");
        self.reps[r].sm.iter(&txn).map(|(k, v)| (k.to_string(), out_elem(&v))).collect()
    }

    fn host_pos(&self, r: usize, k: usize) -> u32 {
        let rep = &self.reps[r];
        (0..k)
            .filter(|j| self.links[*j].ok && rep.known.contains(j) && !rep.unlinked.contains(j))
            .count() as u32
    }

    fn fetch<T: ReadTxn>(&self, txn: &T, r: usize, k: usize) -> Option<WeakRef<MapRef>> {
        let out = match self.case.host {
            Host::Map => {
                at("Map::get (host)");
                self.reps[r].hm.get(txn, &link_key(k))
            }
            Host::Array => {
                at("Array::get (host)");
                self.reps[r].ha.get(txn, self.host_pos(r, k))
            }
        };
        match out {
            Some(Out::YWeakLink(w)) => Some(WeakRef::<MapRef>::from(w)),
            _ => None,
        }
    }

    fn run_step(&mut self, step: &QStep, step_no: usize) -> Result<(), Failure> {
        let host = self.case.host;
        let check_key = |key: &str| -> Result<(), Failure> {
            if KEYS.contains(&key) {
                Ok(())
            } else {
                Err(invalid(format!("step {}: keys are \"a\" and \"b\"", step_no + 1)))
            }
        };
        let after_local = |w: &MWorld, r: usize, want: BTreeMap<String, u32>, what: &str| -> Result<(), Failure> {
            let have = w.read(r);
            if have != want {
                return Err(fail(
                    what,
                    API_LOCAL,
                    J::obj(vec![
                        ("step", J::Num(step_no as i64 + 1)),
                        ("replica", J::Num(r as i64 + 1)),
                        ("source_map", map_json(&want)),
                    ]),
                    J::obj(vec![("source_map", map_json(&have))]),
                ));
            }
            Ok(())
        };
        match step {
            QStep::Set { replica, key } => {
                check_key(key)?;
                let r = *replica;
                self.reps[r].created += 1;
                let id = elem_id(r, self.reps[r].created);
                {
                    let mut txn = self.reps[r].doc.transact_mut();
                    at("Map::insert");
                    self.reps[r].sm.insert(&mut txn, key.as_str(), Any::BigInt(id as i64));
                    at("TransactionMut::commit");
                }
                let mut want = self.reps[r].last.clone();
                want.insert(key.clone(), id);
                after_local(self, r, want, "Map::insert does not have its sequential effect")
            }
            QStep::Unset { replica, key } => {
                check_key(key)?;
                let r = *replica;
                {
                    let mut txn = self.reps[r].doc.transact_mut();
                    at("Map::remove");
                    self.reps[r].sm.remove(&mut txn, key);
                    at("TransactionMut::commit");
                }
                let mut want = self.reps[r].last.clone();
                want.remove(key);
                after_local(self, r, want, "Map::remove does not have its sequential effect")
            }
            QStep::Link { replica, key } => {
                check_key(key)?;
                let r = *replica;
                let k = self.links.len();
                let ok;
                {
                    let mut txn = self.reps[r].doc.transact_mut();
                    at("Map::link");
                    let prelim = self.reps[r].sm.link(&txn, key);
                    ok = prelim.is_some();
                    if self.reps[r].last.contains_key(key) && !ok {
                        return Err(fail(
                            "Map::link returns nothing for an entry that exists",
                            "Map::link",
                            J::obj(vec![
                                ("step", J::Num(step_no as i64 + 1)),
                                ("replica", J::Num(r as i64 + 1)),
                                ("source_map", map_json(&self.reps[r].last)),
                                ("key", J::str(key)),
                                ("result", J::str("Some")),
                            ]),
                            J::obj(vec![("result", J::str("None"))]),
                        ));
                    }
                    if let Some(p) = prelim {
                        match host {
                            Host::Map => {
                                at("Map::insert(key, WeakPrelim<MapRef>)");
                                self.reps[r].hm.insert(&mut txn, link_key(k), p);
                            }
                            Host::Array => {
                                at("Array::push_back(WeakPrelim<MapRef>)");
                                self.reps[r].ha.push_back(&mut txn, p);
                            }
                        }
                    }
                    at("TransactionMut::commit (link stored)");
                }
                self.links.push(MLink { key: key.clone(), ok });
                self.reps[r].known.insert(k);
                let want = self.reps[r].last.clone();
                after_local(self, r, want, "storing a link changes the source map")
            }
            QStep::Unlink { replica, which } => {
                let r = *replica;
                let chosen: Vec<usize> = (0..self.links.len())
                    .filter(|k| match which {
                        Which::All => true,
                        Which::Even => k % 2 == 0,
                        Which::List(l) => l.contains(k),
                    })
                    .filter(|k| self.links[*k].ok && self.reps[r].known.contains(k) && !self.reps[r].unlinked.contains(k))
                    .collect();
                if chosen.is_empty() {
                    return Err(invalid(format!("step {}: the replica holds no such link", step_no + 1)));
                }
                {
                    let mut txn = self.reps[r].doc.transact_mut();
                    for k in chosen.iter().rev() {
                        match host {
                            Host::Map => {
                                at("Map::remove (stored link)");
                                self.reps[r].hm.remove(&mut txn, &link_key(*k));
                            }
                            Host::Array => {
                                let pos = self.host_pos(r, *k);
                                at("Array::remove (stored link)");
                                self.reps[r].ha.remove(&mut txn, pos);
                            }
                        }
                    }
                    at("TransactionMut::commit (link deleted)");
                }
                for k in chosen {
                    self.reps[r].unlinked.insert(k);
                    self.reps[r].counters.remove(&k);
                    self.reps[r].seen.remove(&k);
                }
                let want = self.reps[r].last.clone();
                after_local(self, r, want, "deleting a link changes the source map")
            }
            QStep::Sync { to, from } => {
                let before = self.read(*to);
                let theirs = self.read(*from);
                transfer(&self.reps[*from].doc, &self.reps[*to].doc)?;
                let (known, unlinked) = (self.reps[*from].known.clone(), self.reps[*from].unlinked.clone());
                self.reps[*to].known.extend(known);
                self.reps[*to].unlinked.extend(unlinked);
                // whatever the merge decides, no value appears that neither side held
                let have = self.read(*to);
                for (k, v) in have.iter() {
                    if before.get(k) != Some(v) && theirs.get(k) != Some(v) {
                        return Err(fail(
                            "after a delivery the source map shows a value neither replica held",
                            API_SYNC,
                            J::obj(vec![
                                ("step", J::Num(step_no as i64 + 1)),
                                ("receiver_before", map_json(&before)),
                                ("sender", map_json(&theirs)),
                            ]),
                            J::obj(vec![("receiver", map_json(&have))]),
                        ));
                    }
                }
                Ok(())
            }
            _ => Err(invalid(format!("step {}: not a step of a map history", step_no + 1))),
        }
    }

    fn check_all(&mut self, step_no: usize, api: &str) -> Result<(), Failure> {
        for r in 0..2 {
            let current = self.read(r);
            {
                let txn = self.reps[r].doc.transact();
                for k in 0..self.links.len() {
                    let rep = &self.reps[r];
                    if !self.links[k].ok || !rep.known.contains(&k) || rep.unlinked.contains(&k) {
                        continue;
                    }
                    let key = self.links[k].key.clone();
                    let context = |value: J| -> J {
                        J::obj(vec![
                            ("after_step", J::Num(step_no as i64 + 1)),
                            ("link", J::obj(vec![("number", J::Num(k as i64)), ("key", J::str(&key))])),
                            ("dereferenced_on_replica", J::Num(r as i64 + 1)),
                            ("source_map", map_json(&current)),
                            ("dereferences_to", value),
                        ])
                    };
                    let link = match self.fetch(&txn, r, k) {
                        Some(l) => l,
                        None => {
                            return Err(fail(
                                "a stored link cannot be read back from the document",
                                "Map::get / Array::get (host)",
                                context(J::str("a weak link")),
                                J::Null,
                            ))
                        }
                    };
                    at("WeakRef<MapRef>::try_deref_value");
                    let got = link.try_deref_value(&txn).map(|o| out_elem(&o));
                    at("Map::get");
                    let direct = rep.sm.get(&txn, &key).map(|o| out_elem(&o));
                    let want = current.get(&key).copied();
                    let show = |v: Option<u32>| v.map(J::num).unwrap_or(J::Null);
                    if direct != want {
                        return Err(fail(
                            "Map::get and Map::iter disagree on the source map",
                            "Map::get",
                            context(show(want)),
                            J::obj(vec![("get", show(direct))]),
                        ));
                    }
                    if got != want {
                        return Err(fail(
                            "a link to a map entry does not dereference to the entry's current value",
                            "WeakRef<MapRef>::try_deref_value",
                            context(show(want)),
                            J::obj(vec![("dereferences_to", show(got))]),
                        ));
                    }
                    if self.case.observe {
                        if let (Some(before), Some((c, _))) = (rep.seen.get(&k), rep.counters.get(&k)) {
                            let now = c.load(Ordering::Relaxed);
                            if rep.last.get(&key) != current.get(&key) && now <= *before {
                                return Err(fail(
                                    "the observer of a link is not notified when the entry's value changes",
                                    api,
                                    J::obj(vec![
                                        ("after_step", J::Num(step_no as i64 + 1)),
                                        ("link", J::obj(vec![("number", J::Num(k as i64)), ("key", J::str(&key))])),
                                        ("observed_on_replica", J::Num(r as i64 + 1)),
                                        ("source_map_before", map_json(&rep.last)),
                                        ("source_map", map_json(&current)),
                                        ("observer_calls", J::str("at least 1")),
                                    ]),
                                    J::obj(vec![("observer_calls", J::num(now - *before))]),
                                ));
                            }
                        }
                    }
                }
            }
            if self.case.observe {
                let mut fresh: Vec<(usize, (Arc<AtomicU32>, Subscription))> = Vec::new();
                {
                    let txn = self.reps[r].doc.transact();
                    let rep = &self.reps[r];
                    for k in 0..self.links.len() {
                        if !self.links[k].ok || !rep.known.contains(&k) || rep.unlinked.contains(&k) || rep.counters.contains_key(&k) {
                            continue;
                        }
                        if let Some(l) = self.fetch(&txn, r, k) {
                            let counter = Arc::new(AtomicU32::new(0));
                            let c2 = counter.clone();
                            at("Observable::observe (WeakRef<MapRef>)");
                            let sub = l.observe(move |_, _| {
                                c2.fetch_add(1, Ordering::Relaxed);
                            });
                            fresh.push((k, (counter, sub)));
                        }
                    }
                }
                let rep = &mut self.reps[r];
                rep.counters.extend(fresh);
                rep.seen = rep.counters.iter().map(|(k, (c, _))| (*k, c.load(Ordering::Relaxed))).collect();
            }
            self.reps[r].last = current;
        }
        Ok(())
    }
}

fn map_json(m: &BTreeMap<String, u32>) -> J {
    J::Obj(m.iter().map(|(k, v)| (k.clone(), J::num(*v))).collect())
}

fn execute_map(case: &QCase, close: bool) -> Result<QInfo, (QCase, Failure)> {
    let mut done: Vec<QStep> = Vec::new();
    let r = guarded(|| {
        let mut w = MWorld::new(case);
        let mut pending: Vec<QStep> = case.steps.clone();
        pending.reverse();
        let mut closing = 0;
        loop {
            let step = match pending.pop() {
                Some(s) => s,
                None => {
                    if !close || closing == 2 {
                        break;
                    }
                    closing += 1;
                    let (to, from) = if closing == 1 { (1, 0) } else { (0, 1) };
                    if !news(&done)[from] {
                        continue;
                    }
                    QStep::Sync { to, from }
                }
            };
            let step_no = done.len();
            done.push(step.clone());
            w.run_step(&step, step_no)?;
            let api = if matches!(step, QStep::Sync { .. }) { API_SYNC } else { API_LOCAL };
            w.check_all(step_no, api)?;
        }
        let mut info = QInfo::default();
        for r in 0..2 {
            for (k, name) in KEYS.iter().enumerate() {
                if w.reps[r].last.contains_key(*name) {
                    info.present[r] |= 1 << k;
                }
            }
            for (k, l) in w.links.iter().enumerate() {
                if l.ok && w.reps[r].known.contains(&k) && !w.reps[r].unlinked.contains(&k) {
                    info.held[r] |= 1 << k;
                }
            }
            info.holds[r] = info.held[r] != 0;
        }
        info.links = w.links.len();
        info.live = info.holds[0] || info.holds[1];
        info.quotations = w.links.iter().filter(|l| l.ok).count() as u32;
        Ok(info)
    });
    r.map_err(|f| {
        (
            QCase {
                steps: done,
                ..case.clone()
            },
            f,
        )
    })
}

fn execute(case: &QCase, close: bool) -> Result<QInfo, (QCase, Failure)> {
    if case.kind == Kind::Map {
        execute_map(case, close)
    } else {
        execute_seq(case, close)
    }
}

// ---------------------------------------------------------------------------
// enumeration
// ---------------------------------------------------------------------------

struct QSpace {
    /// The quote step quotes the whole family of range shapes (otherwise one range per history).
    family: bool,
    /// Edits of the source before the quote step.
    max_build: usize,
    /// Edits of the source per history (map links: operations per history).
    total: usize,
    probe_gaps: AtomicU64,
    wild: AtomicU64,
    quotations: AtomicU64,
    tolerated: AtomicU64,
}

/// (edits before the quote step, edits after it, has a quote step, has a deletion of quotations)
fn shape(steps: &[QStep]) -> (usize, usize, bool, bool) {
    let (mut build, mut post, mut quoted, mut unlinked) = (0, 0, false, false);
    for s in steps {
        match s {
            QStep::Ins { .. } | QStep::Del { .. } => {
                if quoted {
                    post += 1
                } else {
                    build += 1
                }
            }
            QStep::Quote { .. } => quoted = true,
            QStep::Unlink { .. } => unlinked = true,
            _ => {}
        }
    }
    (build, post, quoted, unlinked)
}

fn map_ops(steps: &[QStep]) -> usize {
    steps.iter().filter(|s| !matches!(s, QStep::Sync { .. })).count()
}

impl QSpace {
    fn closed(&self, case: &QCase) -> bool {
        if case.kind == Kind::Map {
            return map_ops(&case.steps) >= self.total;
        }
        let (build, post, quoted, unlinked) = shape(&case.steps);
        unlinked || (quoted && build + post >= self.total)
    }

    fn seq_children(&self, case: &QCase, info: &QInfo) -> Vec<QCase> {
        let (build, post, quoted, _) = shape(&case.steps);
        let mut out = Vec::new();
        let extend = |step: QStep| -> QCase {
            let mut c = case.clone();
            c.steps.push(step);
            c
        };
        let n = news(&case.steps);
        // local steps of different replicas commute as long as nothing is delivered in between:
        // only the order "replica 1 first" is enumerated
        let after_two = matches!(case.steps.last().and_then(|s| s.actor()), Some(1));
        if !quoted {
            if build < self.max_build && build < self.total {
                for replica in 0..2 {
                    if (replica == 1 && case.steps.is_empty()) || (replica == 0 && after_two) {
                        continue;
                    }
                    let len = info.len[replica];
                    let widest = if case.steps.is_empty() { 3 } else { 2 };
                    for k in 1..=widest {
                        if len + k > MAX_LEN {
                            continue;
                        }
                        for index in 0..=len {
                            out.push(extend(QStep::Ins { replica, index, n: k }));
                        }
                    }
                    for l in 1..=len.min(2) {
                        for index in 0..=(len - l) {
                            out.push(extend(QStep::Del { replica, index, len: l }));
                        }
                    }
                }
            }
            for replica in 0..2 {
                // replica 2 quotes only when it holds something replica 1 lacks: otherwise it is in step
                // with replica 1, or behind it - and then the edits it has not seen commute with the
                // quote step, the history is enumerated with them AFTER the quote step
                if replica == 1 && !n[1] {
                    continue;
                }
                if self.family {
                    out.push(extend(QStep::Quote {
                        replica,
                        ranges: Ranges::All,
                    }));
                } else {
                    for range in all_shapes(info.len[replica]) {
                        out.push(extend(QStep::Quote {
                            replica,
                            ranges: Ranges::List(vec![range]),
                        }));
                    }
                }
            }
        } else {
            if !info.live {
                return out;
            }
            if build + post < self.total {
                for replica in 0..2 {
                    if replica == 0 && after_two {
                        continue;
                    }
                    let len = info.len[replica];
                    if len < MAX_LEN {
                        for index in 0..=len {
                            out.push(extend(QStep::Ins { replica, index, n: 1 }));
                        }
                    }
                    for l in 1..=len.min(3) {
                        for index in 0..=(len - l) {
                            out.push(extend(QStep::Del { replica, index, len: l }));
                        }
                    }
                }
            }
            for replica in 0..2 {
                if !info.holds[replica] || (replica == 0 && after_two) {
                    continue;
                }
                out.push(extend(QStep::Unlink {
                    replica,
                    which: Which::All,
                }));
                if self.family {
                    out.push(extend(QStep::Unlink {
                        replica,
                        which: Which::Even,
                    }));
                }
            }
        }
        for (to, from) in [(1usize, 0usize), (0, 1)] {
            if n[from] {
                out.push(extend(QStep::Sync { to, from }));
            }
        }
        out
    }

    fn map_children(&self, case: &QCase, info: &QInfo) -> Vec<QCase> {
        let mut out = Vec::new();
        let extend = |step: QStep| -> QCase {
            let mut c = case.clone();
            c.steps.push(step);
            c
        };
        let after_two = matches!(case.steps.last().and_then(|s| s.actor()), Some(1));
        let keys_used = case
            .steps
            .iter()
            .filter_map(|s| match s {
                QStep::Set { key, .. } => KEYS.iter().position(|k| k == key),
                _ => None,
            })
            .max()
            .map(|k| k + 1)
            .unwrap_or(0);
        // which links (by number) are deleted somewhere
        let mut deleted: BTreeSet<usize> = BTreeSet::new();
        for s in case.steps.iter() {
            if let QStep::Unlink {
                which: Which::List(l), ..
            } = s
            {
                deleted.extend(l.iter().copied());
            }
        }
        for replica in 0..2 {
            if (replica == 1 && case.steps.is_empty()) || (replica == 0 && after_two) {
                continue;
            }
            // keys are introduced in order: "b" only after "a" has been written
            for k in 0..KEYS.len().min(keys_used + 1) {
                let key = KEYS[k].to_string();
                out.push(extend(QStep::Set {
                    replica,
                    key: key.clone(),
                }));
                if info.present[replica] & (1 << k) != 0 {
                    out.push(extend(QStep::Unset {
                        replica,
                        key: key.clone(),
                    }));
                }
                if k < keys_used && info.links < 2 {
                    out.push(extend(QStep::Link { replica, key }));
                }
            }
            if info.holds[replica] {
                for k in 0..info.links {
                    if !deleted.contains(&k) && info.held[replica] & (1 << k) != 0 {
                        out.push(extend(QStep::Unlink {
                            replica,
                            which: Which::List(vec![k]),
                        }));
                    }
                }
            }
        }
        let n = news(&case.steps);
        for (to, from) in [(1usize, 0usize), (0, 1)] {
            if n[from] {
                out.push(extend(QStep::Sync { to, from }));
            }
        }
        out
    }
}

impl Space for QSpace {
    type Case = QCase;
    type Info = QInfo;

    fn run(&self, case: &QCase) -> Result<QInfo, Box<Found>> {
        let close = self.closed(case);
        match execute(case, close) {
            Ok(info) => {
                if close {
                    self.probe_gaps.fetch_add(info.probe_gaps as u64, Ordering::Relaxed);
                    self.wild.fetch_add(info.wild as u64, Ordering::Relaxed);
                    self.quotations.fetch_add(info.quotations as u64, Ordering::Relaxed);
                    self.tolerated.fetch_add(info.tolerated as u64, Ordering::Relaxed);
                }
                Ok(info)
            }
            Err((failed, failure)) => Err(Box::new(Found {
                fields: failed.fields(),
                failure,
            })),
        }
    }

    fn expandable(&self, case: &QCase) -> bool {
        !self.closed(case)
    }

    fn children(&self, case: &QCase, info: &QInfo) -> Vec<QCase> {
        if self.closed(case) {
            return Vec::new();
        }
        if case.kind == Kind::Map {
            self.map_children(case, info)
        } else {
            self.seq_children(case, info)
        }
    }
}

/// One breadth-first search: (stage name, source, host, clients, gc, family, edits before the quote, edits per history).
struct Config {
    stage: &'static str,
    kind: Kind,
    host: Host,
    clients: [u64; 2],
    gc: bool,
    family: bool,
    max_build: usize,
    total: usize,
}

fn configs(target: &str, universe: u32) -> Vec<Config> {
    let u = universe.clamp(1, 8) as usize;
    let mut out: Vec<Config> = Vec::new();
    let seq = |out: &mut Vec<Config>, stage: &'static str, kind, host, clients, gc, family, max_build: usize, total: usize| {
        if total >= 1 {
            out.push(Config {
                stage,
                kind,
                host,
                clients,
                gc,
                family,
                max_build: max_build.min(total).max(1),
                total,
            });
        }
    };
    use Host::{Array as HA, Map as HM};
    use Kind::{Array as KA, Text as KT};
    let with_seq = target != "quote_map";
    let with_map = target != "quote_seq";
    let ops = u.saturating_sub(2).clamp(1, 6); // universe 6: 4 operations
    let maps = |out: &mut Vec<Config>, total: usize| {
        for (host, clients, gc) in [(HM, [1u64, 2u64], true), (HA, [2, 1], true), (HM, [2, 1], false)] {
            out.push(Config {
                stage: "map_links",
                kind: Kind::Map,
                host,
                clients,
                gc,
                family: false,
                max_build: 0,
                total,
            });
        }
    };
    // iterative deepening: every combination with few edits first, the expensive searches last;
    // (edits before the quote step, edits per history) are sized by measurement: universe 6 takes
    // about 45 s with 8 jobs on a busy machine
    if with_seq {
        for (kind, host, clients, gc) in [(KA, HM, [1, 2], true), (KT, HA, [1, 2], true), (KA, HA, [2, 1], true), (KT, HM, [2, 1], false)] {
            seq(&mut out, "one_range", kind, host, clients, gc, false, 1, 1);
        }
        for (kind, host, clients, gc) in [(KA, HM, [1, 2], true), (KT, HM, [1, 2], true), (KA, HA, [2, 1], false), (KT, HA, [2, 1], true)] {
            seq(&mut out, "all_ranges", kind, host, clients, gc, true, 1, 1);
        }
    }
    if with_map {
        maps(&mut out, ops.min(3));
    }
    if with_seq && u >= 5 {
        seq(&mut out, "one_range", KA, HM, [1, 2], true, false, 2, 2);
        seq(&mut out, "one_range", KT, HA, [1, 2], true, false, 2, 2);
        seq(&mut out, "one_range", KA, HA, [2, 1], true, false, 2, 2);
        seq(&mut out, "one_range", KT, HM, [2, 1], false, false, 2, 2);
        seq(&mut out, "all_ranges", KA, HM, [1, 2], true, true, 2, 2);
        seq(&mut out, "all_ranges", KT, HM, [1, 2], true, true, 2, 2);
        seq(&mut out, "all_ranges", KA, HA, [2, 1], false, true, 2, 2);
        seq(&mut out, "all_ranges", KT, HA, [2, 1], true, true, 2, 2);
    }
    if with_map && ops > 3 {
        out.push(Config {
            stage: "map_links",
            kind: Kind::Map,
            host: HM,
            clients: [1, 2],
            gc: true,
            family: false,
            max_build: 0,
            total: ops,
        });
    }
    if with_seq && u >= 6 {
        seq(&mut out, "all_ranges", KA, HM, [1, 2], true, true, 2, 3);
        seq(&mut out, "all_ranges", KT, HM, [1, 2], true, true, 2, 3);
        seq(&mut out, "one_range", KT, HA, [1, 2], true, false, if u >= 7 { 2 } else { 1 }, 3);
        seq(&mut out, "one_range", KA, HM, [1, 2], true, false, 2, 3);
    }
    if with_seq && u >= 7 {
        seq(&mut out, "all_ranges", KA, HM, [1, 2], true, true, 3, 3);
        seq(&mut out, "all_ranges", KT, HM, [1, 2], true, true, 3, 3);
        seq(&mut out, "all_ranges", KA, HM, [2, 1], true, true, 2, 4);
    }
    if with_seq && u >= 8 {
        seq(&mut out, "all_ranges", KT, HM, [2, 1], true, true, 2, 4);
    }
    out
}

pub fn cmd_search(target: &str, universe: u32, jobs: usize, deadline: Option<Instant>) -> i32 {
    let mut h = Hunt {
        jobs: jobs.max(1),
        deadline,
        cases: 0,
    };
    let observe = target == "quote_obs" || OBSERVERS_IN_MAIN_TARGETS;
    let mut res = Ok(());
    let mut per_stage: Vec<(&'static str, u64)> = Vec::new();
    let (mut gaps, mut wild, mut quotations, mut tolerated) = (0u64, 0u64, 0u64, 0u64);
    for c in configs(target, universe) {
        let space = QSpace {
            family: c.family,
            max_build: c.max_build,
            total: c.total,
            probe_gaps: AtomicU64::new(0),
            wild: AtomicU64::new(0),
            quotations: AtomicU64::new(0),
            tolerated: AtomicU64::new(0),
        };
        let root = QCase {
            target: target.to_string(),
            kind: c.kind,
            host: c.host,
            clients: c.clients,
            gc: c.gc,
            observe,
            strict: target == "quote_strict",
            steps: Vec::new(),
        };
        let before = h.cases;
        let started = Instant::now();
        res = bfs(&mut h, &space, vec![root]);
        if std::env::var_os("VX_QUOTE_TIMES").is_some() {
            eprintln!(
                "{:?} in {:?} {:?} gc={} {} build<={} edits<={}: {} cases, {} ms",
                c.kind,
                c.host,
                c.clients,
                c.gc,
                c.stage,
                c.max_build,
                c.total,
                h.cases - before,
                started.elapsed().as_millis()
            );
        }
        match per_stage.iter_mut().find(|(n, _)| *n == c.stage) {
            Some((_, n)) => *n += h.cases - before,
            None => per_stage.push((c.stage, h.cases - before)),
        }
        gaps += space.probe_gaps.load(Ordering::Relaxed);
        wild += space.wild.load(Ordering::Relaxed);
        quotations += space.quotations.load(Ordering::Relaxed);
        tolerated += space.tolerated.load(Ordering::Relaxed);
        if res.is_err() {
            break;
        }
    }
    let extra = vec![
        (
            "cases_per_stage",
            J::obj(per_stage.iter().map(|(n, c)| (*n, J::Num(*c as i64))).collect()),
        ),
        // quotations / links stored over the complete histories
        ("quotations_checked", J::Num(quotations as i64)),
        // steps at which the deleted-boundary oracle had to stay silent (the probe replica disagreed)
        ("probe_gaps", J::Num(gaps as i64)),
        // quotations returned for an index that does not exist (dereferenced, nothing asserted)
        ("quotations_without_boundary_element", J::Num(wild as i64)),
        // dereferences of text quotations of the classes listed under KNOWN that were not made (`search quote_strict` makes them)
        ("known_disagreements_skipped", J::Num(tolerated as i64)),
    ];
    finish(target, universe, res, &h, extra)
}

/// The observer clause is part of `quote` / `quote_seq` / `quote_map` (not only of `quote_obs`).
const OBSERVERS_IN_MAIN_TARGETS: bool = false;

/// `replay` of a witness of this module; `Err`: usage error (exit 2).
pub fn cmd_replay(j: &J) -> Result<i32, String> {
    let case = QCase::from_json(j)?;
    match execute(&case, false) {
        Ok(info) => Ok(finish_replay(Ok(J::obj(vec![
            ("all_quotations_agree", J::Bool(true)),
            ("quotations", J::num(info.quotations)),
            ("lengths", J::Arr(info.len.iter().map(|l| J::num(*l)).collect())),
            ("probe_gaps", J::num(info.probe_gaps)),
        ])))),
        Err((_, f)) if is_invalid(&f) => Err(f.why),
        Err((_, f)) => Ok(finish_replay(Err(f))),
    }
}
