//! Minimal JSON value, writer and reader (std only).
//! Numbers are restricted to what the witness files need: signed integers
//! (a fractional/exponent part is accepted on input and truncated).

use std::fmt;

#[derive(Clone, Debug, PartialEq)]
pub enum J {
    Null,
    Bool(bool),
    Num(i64),
    Str(String),
    Arr(Vec<J>),
    Obj(Vec<(String, J)>),
}

impl J {
    pub fn obj(fields: Vec<(&str, J)>) -> J {
        J::Obj(fields.into_iter().map(|(k, v)| (k.to_string(), v)).collect())
    }
    pub fn str(s: &str) -> J {
        J::Str(s.to_string())
    }
    pub fn num<T: Into<i64>>(n: T) -> J {
        J::Num(n.into())
    }
    pub fn get(&self, key: &str) -> Option<&J> {
        match self {
            J::Obj(fields) => fields.iter().find(|(k, _)| k == key).map(|(_, v)| v),
            _ => None,
        }
    }
    /// `get` that treats an explicit `null` like an absent field.
    pub fn get_non_null(&self, key: &str) -> Option<&J> {
        match self.get(key) {
            Some(J::Null) | None => None,
            Some(v) => Some(v),
        }
    }
    pub fn as_i64(&self) -> Option<i64> {
        match self {
            J::Num(n) => Some(*n),
            _ => None,
        }
    }
    pub fn as_str(&self) -> Option<&str> {
        match self {
            J::Str(s) => Some(s.as_str()),
            _ => None,
        }
    }
    pub fn as_arr(&self) -> Option<&[J]> {
        match self {
            J::Arr(a) => Some(a.as_slice()),
            _ => None,
        }
    }
    pub fn push_field(&mut self, key: &str, value: J) {
        if let J::Obj(fields) = self {
            fields.push((key.to_string(), value));
        }
    }
}

fn write_str(f: &mut fmt::Formatter<'_>, s: &str) -> fmt::Result {
    f.write_str("\"")?;
    for c in s.chars() {
        match c {
            '"' => f.write_str("\\\"")?,
            '\\' => f.write_str("\\\\")?,
            '\n' => f.write_str("\\n")?,
            '\r' => f.write_str("\\r")?,
            '\t' => f.write_str("\\t")?,
            c if (c as u32) < 0x20 => write!(f, "\\u{:04x}", c as u32)?,
            c => write!(f, "{}", c)?,
        }
    }
    f.write_str("\"")
}

/// Compact single-line rendering (never emits a newline).
impl fmt::Display for J {
    fn fmt(&self, f: &mut fmt::Formatter<'_>) -> fmt::Result {
        match self {
            J::Null => f.write_str("null"),
            J::Bool(b) => write!(f, "{}", b),
            J::Num(n) => write!(f, "{}", n),
            J::Str(s) => write_str(f, s),
            J::Arr(items) => {
                f.write_str("[")?;
                for (i, it) in items.iter().enumerate() {
                    if i > 0 {
                        f.write_str(",")?;
                    }
                    write!(f, "{}", it)?;
                }
                f.write_str("]")
            }
            J::Obj(fields) => {
                f.write_str("{")?;
                for (i, (k, v)) in fields.iter().enumerate() {
                    if i > 0 {
                        f.write_str(",")?;
                    }
                    write_str(f, k)?;
                    f.write_str(":")?;
                    write!(f, "{}", v)?;
                }
                f.write_str("}")
            }
        }
    }
}

struct P<'a> {
    b: &'a [u8],
    i: usize,
}

impl<'a> P<'a> {
    fn ws(&mut self) {
        while self.i < self.b.len() && matches!(self.b[self.i], b' ' | b'\t' | b'\n' | b'\r') {
            self.i += 1;
        }
    }
    fn err<T>(&self, msg: &str) -> Result<T, String> {
        Err(format!("json: {} at byte {}", msg, self.i))
    }
    fn eat(&mut self, lit: &str) -> bool {
        if self.b[self.i..].starts_with(lit.as_bytes()) {
            self.i += lit.len();
            true
        } else {
            false
        }
    }
    fn value(&mut self, depth: usize) -> Result<J, String> {
        if depth > 64 {
            return self.err("nesting too deep");
        }
        self.ws();
        if self.i >= self.b.len() {
            return self.err("unexpected end of input");
        }
        let c = self.b[self.i];
        if c == b'n' || c == b't' || c == b'f' {
            return if self.eat("null") {
                Ok(J::Null)
            } else if self.eat("true") {
                Ok(J::Bool(true))
            } else if self.eat("false") {
                Ok(J::Bool(false))
            } else {
                self.err("unexpected character")
            };
        }
        match c {
            b'"' => Ok(J::Str(self.string()?)),
            b'[' => {
                self.i += 1;
                let mut items = Vec::new();
                self.ws();
                if self.i < self.b.len() && self.b[self.i] == b']' {
                    self.i += 1;
                    return Ok(J::Arr(items));
                }
                loop {
                    items.push(self.value(depth + 1)?);
                    self.ws();
                    if self.i >= self.b.len() {
                        return self.err("unterminated array");
                    }
                    match self.b[self.i] {
                        b',' => self.i += 1,
                        b']' => {
                            self.i += 1;
                            return Ok(J::Arr(items));
                        }
                        _ => return self.err("expected ',' or ']'"),
                    }
                }
            }
            b'{' => {
                self.i += 1;
                let mut fields = Vec::new();
                self.ws();
                if self.i < self.b.len() && self.b[self.i] == b'}' {
                    self.i += 1;
                    return Ok(J::Obj(fields));
                }
                loop {
                    self.ws();
                    if self.i >= self.b.len() || self.b[self.i] != b'"' {
                        return self.err("expected object key");
                    }
                    let k = self.string()?;
                    self.ws();
                    if self.i >= self.b.len() || self.b[self.i] != b':' {
                        return self.err("expected ':'");
                    }
                    self.i += 1;
                    let v = self.value(depth + 1)?;
                    fields.push((k, v));
                    self.ws();
                    if self.i >= self.b.len() {
                        return self.err("unterminated object");
                    }
                    match self.b[self.i] {
                        b',' => self.i += 1,
                        b'}' => {
                            self.i += 1;
                            return Ok(J::Obj(fields));
                        }
                        _ => return self.err("expected ',' or '}'"),
                    }
                }
            }
            b'-' | b'0'..=b'9' => self.number(),
            _ => self.err("unexpected character"),
        }
    }
    fn number(&mut self) -> Result<J, String> {
        let start = self.i;
        if self.b[self.i] == b'-' {
            self.i += 1;
        }
        while self.i < self.b.len() && self.b[self.i].is_ascii_digit() {
            self.i += 1;
        }
        let int_end = self.i;
        let mut is_float = false;
        if self.i < self.b.len() && self.b[self.i] == b'.' {
            is_float = true;
            self.i += 1;
            while self.i < self.b.len() && self.b[self.i].is_ascii_digit() {
                self.i += 1;
            }
        }
        if self.i < self.b.len() && matches!(self.b[self.i], b'e' | b'E') {
            is_float = true;
            self.i += 1;
            if self.i < self.b.len() && matches!(self.b[self.i], b'+' | b'-') {
                self.i += 1;
            }
            while self.i < self.b.len() && self.b[self.i].is_ascii_digit() {
                self.i += 1;
            }
        }
        let text = std::str::from_utf8(&self.b[start..self.i]).unwrap_or("");
        if is_float {
            match text.parse::<f64>() {
                Ok(f) => Ok(J::Num(f as i64)),
                Err(_) => self.err("bad number"),
            }
        } else {
            let text = std::str::from_utf8(&self.b[start..int_end]).unwrap_or("");
            match text.parse::<i64>() {
                Ok(n) => Ok(J::Num(n)),
                Err(_) => self.err("bad number"),
            }
        }
    }
    fn hex4(&mut self) -> Result<u32, String> {
        if self.i + 4 > self.b.len() {
            return self.err("bad \\u escape");
        }
        let text = std::str::from_utf8(&self.b[self.i..self.i + 4]).unwrap_or("");
        match u32::from_str_radix(text, 16) {
            Ok(v) => {
                self.i += 4;
                Ok(v)
            }
            Err(_) => self.err("bad \\u escape"),
        }
    }
    fn string(&mut self) -> Result<String, String> {
        // precondition: self.b[self.i] == b'"'
        self.i += 1;
        let mut out: Vec<u8> = Vec::new();
        loop {
            if self.i >= self.b.len() {
                return self.err("unterminated string");
            }
            let c = self.b[self.i];
            self.i += 1;
            match c {
                b'"' => break,
                b'\\' => {
                    if self.i >= self.b.len() {
                        return self.err("unterminated escape");
                    }
                    let e = self.b[self.i];
                    self.i += 1;
                    let ch = match e {
                        b'"' => '"',
                        b'\\' => '\\',
                        b'/' => '/',
                        b'b' => '\u{8}',
                        b'f' => '\u{c}',
                        b'n' => '\n',
                        b'r' => '\r',
                        b't' => '\t',
                        b'u' => {
                            let mut cp = self.hex4()?;
                            if (0xD800..0xDC00).contains(&cp)
                                && self.b[self.i..].starts_with(b"\\u")
                            {
                                self.i += 2;
                                let lo = self.hex4()?;
                                if (0xDC00..0xE000).contains(&lo) {
                                    cp = 0x10000 + ((cp - 0xD800) << 10) + (lo - 0xDC00);
                                } else {
                                    cp = 0xFFFD;
                                }
                            }
                            char::from_u32(cp).unwrap_or('\u{FFFD}')
                        }
                        _ => return self.err("bad escape"),
                    };
                    let mut buf = [0u8; 4];
                    out.extend_from_slice(ch.encode_utf8(&mut buf).as_bytes());
                }
                c => out.push(c),
            }
        }
        String::from_utf8(out).or_else(|_| self.err("invalid utf-8 in string"))
    }
}

pub fn parse(text: &str) -> Result<J, String> {
    let mut p = P {
        b: text.as_bytes(),
        i: 0,
    };
    let v = p.value(0)?;
    p.ws();
    if p.i != p.b.len() {
        return p.err("trailing characters");
    }
    Ok(v)
}
