//! Targets `snapshot` (`encode_state_from_snapshot` restores the content a
//! document had when the snapshot was taken) and `svsync` (state-vector based
//! synchronisation: `encode_diff` / `encode_state_as_update`). Documents are
//! built and read through the public API only.

use crate::ext::{at, fail, Ctx, Runner, Verdict, XCase, XStop};
use crate::json::J;
use crate::model::Failure;
use std::collections::{BTreeMap, BTreeSet};
use yrs::types::ToJson;
use yrs::updates::decoder::Decode;
use yrs::updates::encoder::{Encoder, EncoderV1, EncoderV2};
use yrs::{
    Any, Array, ArrayRef, ClientID, Doc, GetString, IdSet, OffsetKind, Options, ReadTxn, Snapshot, StateVector, Text,
    TextRef, Transact, TransactionMut, Update,
};

const ROOT: &str = "root";
/// Client id of the empty document that receives an encoded state.
const RECEIVER: u64 = 9;

fn cid(client: u64) -> ClientID {
    ClientID::new(client)
}

fn new_doc(client: u64, skip_gc: bool, utf16: bool) -> Doc {
    at("Doc::with_options");
    let mut options = Options::with_client_id(cid(client));
    options.skip_gc = skip_gc;
    options.offset_kind = if utf16 { OffsetKind::Utf16 } else { OffsetKind::Bytes };
    Doc::with_options(options)
}

fn sv_map(sv: &StateVector) -> BTreeMap<u64, u32> {
    sv.iter().filter(|(_, k)| **k > 0).map(|(c, k)| (c.get(), *k)).collect()
}

fn ds_points(ds: &IdSet) -> BTreeSet<(u64, u32)> {
    let mut out = BTreeSet::new();
    for (client, ranges) in ds.iter() {
        for r in ranges.iter() {
            for k in r.start..r.end {
                out.insert((client.get(), k));
            }
        }
    }
    out
}

fn sv_json(sv: &BTreeMap<u64, u32>) -> J {
    J::Arr(sv.iter().map(|(c, k)| J::Arr(vec![J::Num(*c as i64), J::num(*k)])).collect())
}

fn ds_json(ds: &BTreeSet<(u64, u32)>) -> J {
    J::Arr(ds.iter().map(|(c, k)| J::Arr(vec![J::Num(*c as i64), J::num(*k)])).collect())
}

fn bytes_json(b: &[u8]) -> J {
    J::Arr(b.iter().map(|x| J::num(*x)).collect())
}

fn has_pending<T: ReadTxn>(txn: &T) -> bool {
    txn.store().pending_update().is_some() || txn.store().pending_ds().is_some()
}

// ---------------------------------------------------------------------------
// snapshot
// ---------------------------------------------------------------------------

#[derive(Clone, Debug, PartialEq)]
pub enum SOp {
    /// `Text::insert(index, chunk)`.
    Insert { index: u32, chunk: String },
    /// `Array::insert_range(index, values)`.
    InsertVals { index: u32, values: Vec<i64> },
    /// `remove_range(index, len)` on the root.
    Remove { index: u32, len: u32 },
}

#[derive(Clone, Debug, PartialEq)]
pub struct SStep {
    pub client: u64,
    pub op: SOp,
}

#[derive(Clone, Debug)]
pub struct SnapCase {
    /// Root type is an Array of integers (otherwise a Text).
    pub array: bool,
    /// `OffsetKind::Utf16` (otherwise the default `OffsetKind::Bytes`); text only.
    pub utf16: bool,
    /// One transaction per maximal run of steps of a client (otherwise one per step).
    pub whole: bool,
    pub steps: Vec<SStep>,
}

/// The sequential content model.
#[derive(Clone, Debug, PartialEq)]
enum Content {
    Text(Vec<char>),
    Array(Vec<i64>),
}

fn width(c: char, utf16: bool) -> u32 {
    if utf16 {
        c.len_utf16() as u32
    } else {
        c.len_utf8() as u32
    }
}

impl Content {
    fn empty(array: bool) -> Content {
        if array {
            Content::Array(Vec::new())
        } else {
            Content::Text(Vec::new())
        }
    }

    /// Offsets (in index units) of the element boundaries, `0` and the length included.
    fn boundaries(&self, utf16: bool) -> Vec<u32> {
        let mut out = vec![0u32];
        match self {
            Content::Text(cs) => {
                let mut at = 0;
                for c in cs {
                    at += width(*c, utf16);
                    out.push(at);
                }
            }
            Content::Array(vs) => out.extend(1..=vs.len() as u32),
        }
        out
    }

    fn apply(&mut self, op: &SOp, utf16: bool) -> Result<(), String> {
        let bounds = self.boundaries(utf16);
        let pos = |offset: u32| -> Result<usize, String> {
            bounds
                .iter()
                .position(|b| *b == offset)
                .ok_or_else(|| format!("offset {} is not an element boundary of the current content", offset))
        };
        match (self, op) {
            (Content::Text(cs), SOp::Insert { index, chunk }) => {
                if chunk.is_empty() {
                    return Err("empty chunk".into());
                }
                let p = pos(*index)?;
                cs.splice(p..p, chunk.chars());
                Ok(())
            }
            (Content::Array(vs), SOp::InsertVals { index, values }) => {
                if values.is_empty() {
                    return Err("empty value list".into());
                }
                let p = pos(*index)?;
                vs.splice(p..p, values.iter().copied());
                Ok(())
            }
            (Content::Text(cs), SOp::Remove { index, len }) => {
                let (s, e) = (pos(*index)?, pos(*index + *len)?);
                cs.drain(s..e);
                Ok(())
            }
            (Content::Array(vs), SOp::Remove { index, len }) => {
                let (s, e) = (pos(*index)?, pos(*index + *len)?);
                vs.drain(s..e);
                Ok(())
            }
            _ => Err("the step does not fit the root type".into()),
        }
    }

    fn render(&self) -> String {
        match self {
            Content::Text(cs) => cs.iter().collect(),
            Content::Array(vs) => render_ints(vs),
        }
    }
}

fn render_ints(vs: &[i64]) -> String {
    format!("[{}]", vs.iter().map(|v| v.to_string()).collect::<Vec<_>>().join(","))
}

struct Replica {
    doc: Doc,
    text: TextRef,
    array: ArrayRef,
}

impl Replica {
    fn new(client: u64, skip_gc: bool, utf16: bool, array: bool) -> Replica {
        let doc = new_doc(client, skip_gc, utf16);
        at("Doc::get_or_insert_text / get_or_insert_array");
        // only the root type of the case is instantiated
        let (text, arr) = if array {
            (doc.get_or_insert_text("unused"), doc.get_or_insert_array(ROOT))
        } else {
            (doc.get_or_insert_text(ROOT), doc.get_or_insert_array("unused"))
        };
        Replica { doc, text, array: arr }
    }

    fn read<T: ReadTxn>(&self, txn: &T, array: bool) -> String {
        if array {
            at("Array::to_json");
            match self.array.to_json(txn) {
                Any::Array(items) => {
                    let ints: Vec<String> = items
                        .iter()
                        .map(|a| match a {
                            Any::BigInt(n) => n.to_string(),
                            Any::Number(f) if f.fract() == 0.0 => (*f as i64).to_string(),
                            other => format!("{:?}", other),
                        })
                        .collect();
                    format!("[{}]", ints.join(","))
                }
                other => format!("{:?}", other),
            }
        } else {
            at("Text::get_string");
            self.text.get_string(txn)
        }
    }
}

fn op_api(op: &SOp, array: bool) -> &'static str {
    match op {
        SOp::Insert { .. } => "Text::insert",
        SOp::InsertVals { .. } => "Array::insert_range",
        SOp::Remove { .. } if array => "Array::remove_range",
        SOp::Remove { .. } => "Text::remove_range",
    }
}

/// Full two-way synchronisation through `encode_state_as_update_v1` / `apply_update`.
fn sync_replicas(docs: &[Replica]) -> Result<(), Failure> {
    if docs.len() < 2 {
        return Ok(());
    }
    for (from, to) in [(0usize, 1usize), (1, 0)] {
        let api = "ReadTxn::encode_state_as_update_v1 -> Update::decode_v1 -> TransactionMut::apply_update (between clients)";
        at(api);
        let sv = docs[to].doc.transact().state_vector();
        let bytes = docs[from].doc.transact().encode_state_as_update_v1(&sv);
        let update = Update::decode_v1(&bytes)
            .map_err(|e| fail("an update just encoded does not decode", api, J::str("Ok"), J::str(&e.to_string())))?;
        docs[to]
            .doc
            .transact_mut()
            .apply_update(update)
            .map_err(|e| fail("apply_update of a peer's state failed", api, J::str("Ok"), J::str(&e.to_string())))?;
    }
    Ok(())
}

struct Remembered {
    snapshot: Snapshot,
    content: String,
    /// Number of steps executed when the snapshot was taken.
    after: usize,
    /// Client whose document the snapshot was taken on.
    on: u64,
    /// Taken from inside the still open transaction.
    mid_txn: bool,
}

impl Remembered {
    fn json(&self) -> J {
        J::obj(vec![
            ("taken_after_steps", J::Num(self.after as i64)),
            ("taken_on_client", J::Num(self.on as i64)),
            ("inside_open_transaction", J::Bool(self.mid_txn)),
            ("state_vector", sv_json(&sv_map(&self.snapshot.state_map))),
            ("delete_set", ds_json(&ds_points(&self.snapshot.delete_set))),
        ])
    }
}

fn step_json(s: &SStep) -> J {
    let mut f = match &s.op {
        SOp::Insert { index, chunk } => vec![("step", J::str("insert")), ("index", J::num(*index)), ("chunk", J::str(chunk))],
        SOp::InsertVals { index, values } => vec![
            ("step", J::str("insert_range")),
            ("index", J::num(*index)),
            ("values", J::Arr(values.iter().map(|v| J::Num(*v)).collect())),
        ],
        SOp::Remove { index, len } => {
            vec![("step", J::str("remove_range")), ("index", J::num(*index)), ("len", J::num(*len))]
        }
    };
    if s.client != 1 {
        f.push(("client", J::Num(s.client as i64)));
    }
    J::obj(f)
}

impl SnapCase {
    fn clients(&self) -> usize {
        if self.steps.iter().any(|s| s.client == 2) {
            2
        } else {
            1
        }
    }

    pub fn describe(&self) -> (String, J) {
        let variant = format!(
            "{}{}",
            if self.array { "array" } else { "text" },
            if self.clients() == 2 { "_two_clients" } else { "" }
        );
        (
            variant,
            J::obj(vec![
                ("kind", J::str("snapshot")),
                ("root", J::str(if self.array { "array" } else { "text" })),
                ("clients", J::Num(self.clients() as i64)),
                ("offset_kind", J::str(if self.utf16 { "utf16" } else { "bytes" })),
                ("txn", J::str(if self.whole { "whole" } else { "per_step" })),
                ("steps", J::Arr(self.steps.iter().map(step_json).collect())),
            ]),
        )
    }

    pub fn from_json(op: &J) -> Result<SnapCase, String> {
        let text = |key: &str, default: &str| -> Result<String, String> {
            match op.get_non_null(key) {
                Some(v) => Ok(v.as_str().ok_or_else(|| format!("op.{}: expected a string", key))?.to_string()),
                None => Ok(default.to_string()),
            }
        };
        let array = match text("root", "text")?.as_str() {
            "text" => false,
            "array" => true,
            other => return Err(format!("op.root: unknown root type {:?}", other)),
        };
        let utf16 = match text("offset_kind", "bytes")?.as_str() {
            "bytes" => false,
            "utf16" => true,
            other => return Err(format!("op.offset_kind: unknown offset kind {:?}", other)),
        };
        let whole = match text("txn", "per_step")?.as_str() {
            "per_step" => false,
            "whole" => true,
            other => return Err(format!("op.txn: unknown mode {:?}", other)),
        };
        let arr = op.get("steps").and_then(|s| s.as_arr()).ok_or("op.steps: expected an array")?;
        let mut steps = Vec::new();
        let mut model = Content::empty(array);
        for (i, st) in arr.iter().enumerate() {
            let what = format!("op.steps[{}]", i);
            let num = |key: &str| -> Result<u32, String> {
                match st.get(key).and_then(|v| v.as_i64()) {
                    Some(n) if (0..=64).contains(&n) => Ok(n as u32),
                    _ => Err(format!("{}.{}: expected a number in 0..=64", what, key)),
                }
            };
            let client = match st.get_non_null("client") {
                None => 1,
                Some(c) => match c.as_i64() {
                    Some(1) => 1,
                    Some(2) => 2,
                    _ => return Err(format!("{}.client must be 1 or 2", what)),
                },
            };
            let kind = st.get("step").and_then(|k| k.as_str()).ok_or_else(|| format!("{}.step missing", what))?;
            let op = match kind {
                "insert" => SOp::Insert {
                    index: num("index")?,
                    chunk: st
                        .get("chunk")
                        .and_then(|c| c.as_str())
                        .ok_or_else(|| format!("{}.chunk missing", what))?
                        .to_string(),
                },
                "insert_range" => {
                    let vals = st
                        .get("values")
                        .and_then(|c| c.as_arr())
                        .ok_or_else(|| format!("{}.values missing", what))?;
                    let mut values = Vec::new();
                    for v in vals {
                        values.push(v.as_i64().ok_or_else(|| format!("{}.values: expected integers", what))?);
                    }
                    SOp::InsertVals { index: num("index")?, values }
                }
                "remove_range" | "remove" => SOp::Remove {
                    index: num("index")?,
                    len: num("len")?,
                },
                other => return Err(format!("{}: unknown step {:?}", what, other)),
            };
            model.apply(&op, utf16).map_err(|e| format!("{}: {}", what, e))?;
            steps.push(SStep { client, op });
        }
        Ok(SnapCase { array, utf16, whole, steps })
    }

    /// Runs the script on fresh documents; remembers a snapshot and the
    /// content after every prefix. The documents are synchronised at the end.
    fn execute(&self, skip_gc: bool) -> Result<(Vec<Replica>, Vec<Remembered>), Failure> {
        let docs: Vec<Replica> = (0..self.clients())
            .map(|ci| Replica::new(ci as u64 + 1, skip_gc, self.utf16, self.array))
            .collect();
        let mut model = Content::empty(self.array);
        let mut mem: Vec<Remembered> = Vec::new();
        let array = self.array;
        let utf16 = self.utf16;
        // the empty document
        {
            at("ReadTxn::snapshot");
            let t = docs[0].doc.transact();
            mem.push(Remembered {
                snapshot: t.snapshot(),
                content: docs[0].read(&t, array),
                after: 0,
                on: 1,
                mid_txn: false,
            });
        }
        let mut i = 0;
        let mut active: Option<usize> = None;
        while i < self.steps.len() {
            let ci = (self.steps[i].client - 1) as usize;
            if active.is_some() && active != Some(ci) {
                sync_replicas(&docs)?;
            }
            active = Some(ci);
            let mut j = i + 1;
            if self.whole {
                while j < self.steps.len() && self.steps[j].client == self.steps[i].client {
                    j += 1;
                }
            }
            let r = &docs[ci];
            let on = ci as u64 + 1;
            let check_model = |content: &str, model: &Content, done: usize, op: &SOp| -> Result<(), Failure> {
                if content != model.render() {
                    return Err(fail(
                        "content differs from the sequential model",
                        op_api(op, array),
                        J::obj(vec![("after_steps", J::Num(done as i64)), ("content", J::str(&model.render()))]),
                        J::obj(vec![("content", J::str(content))]),
                    ));
                }
                Ok(())
            };
            if self.whole {
                at("Doc::transact_mut");
                let mut t = r.doc.transact_mut();
                for k in i..j {
                    let op = &self.steps[k].op;
                    apply_op(r, &mut t, op, array);
                    let _ = model.apply(op, utf16);
                    at("ReadTxn::snapshot (inside the open transaction)");
                    let s = t.snapshot();
                    let content = r.read(&t, array);
                    check_model(&content, &model, k + 1, op)?;
                    mem.push(Remembered {
                        snapshot: s,
                        content,
                        after: k + 1,
                        on,
                        mid_txn: true,
                    });
                }
                at("TransactionMut::commit (drop)");
                drop(t);
            } else {
                let op = &self.steps[i].op;
                {
                    at("Doc::transact_mut");
                    let mut t = r.doc.transact_mut();
                    apply_op(r, &mut t, op, array);
                    at("TransactionMut::commit (drop)");
                }
                let _ = model.apply(op, utf16);
            }
            // after the commit
            at("ReadTxn::snapshot");
            let t = r.doc.transact();
            let s = t.snapshot();
            let content = r.read(&t, array);
            check_model(&content, &model, j, &self.steps[j - 1].op)?;
            drop(t);
            mem.push(Remembered {
                snapshot: s,
                content,
                after: j,
                on,
                mid_txn: false,
            });
            i = j;
        }
        sync_replicas(&docs)?;
        Ok((docs, mem))
    }

    pub fn run(&self) -> Result<(), Failure> {
        // GC disabled: every remembered snapshot restores the remembered content
        let (docs, mem) = self.execute(true)?;
        for (di, r) in docs.iter().enumerate() {
            for m in &mem {
                for v in [1u8, 2] {
                    self.check_restore(r, di as u64 + 1, m, v)?;
                }
            }
        }
        // GC enabled: the request is refused
        let (docs, mem) = self.execute(false)?;
        for (di, r) in docs.iter().enumerate() {
            for m in &mem {
                for v in [1u8, 2] {
                    let api = format!(
                        "ReadTxn::encode_state_from_snapshot(EncoderV{}) on a document with GC enabled (client {})",
                        v,
                        di + 1
                    );
                    at(&api);
                    let t = r.doc.transact();
                    let res = if v == 1 {
                        t.encode_state_from_snapshot(&m.snapshot, &mut EncoderV1::new())
                    } else {
                        t.encode_state_from_snapshot(&m.snapshot, &mut EncoderV2::new())
                    };
                    if res.is_ok() {
                        return Err(fail(
                            "the request was not refused although garbage collection is enabled",
                            &api,
                            J::obj(vec![("result", J::str("Err")), ("snapshot", m.json())]),
                            J::obj(vec![("result", J::str("Ok(())"))]),
                        ));
                    }
                }
            }
        }
        Ok(())
    }

    fn restore(&self, r: &Replica, m: &Remembered, v: u8) -> Result<(String, Snapshot, bool, Vec<u8>), (String, J)> {
        let bytes = {
            let t = r.doc.transact();
            if v == 1 {
                let mut enc = EncoderV1::new();
                t.encode_state_from_snapshot(&m.snapshot, &mut enc)
                    .map_err(|e| ("encode_state_from_snapshot returned an error although GC is disabled".to_string(), J::str(&e.to_string())))?;
                enc.to_vec()
            } else {
                let mut enc = EncoderV2::new();
                t.encode_state_from_snapshot(&m.snapshot, &mut enc)
                    .map_err(|e| ("encode_state_from_snapshot returned an error although GC is disabled".to_string(), J::str(&e.to_string())))?;
                enc.to_vec()
            }
        };
        let update = if v == 1 { Update::decode_v1(&bytes) } else { Update::decode_v2(&bytes) }.map_err(|e| {
            (
                "the encoded state does not decode".to_string(),
                J::obj(vec![("error", J::str(&e.to_string())), ("bytes", bytes_json(&bytes))]),
            )
        })?;
        let fresh = Replica::new(RECEIVER, false, self.utf16, self.array);
        fresh.doc.transact_mut().apply_update(update).map_err(|e| {
            (
                "apply_update of the encoded state failed".to_string(),
                J::obj(vec![("error", J::str(&e.to_string())), ("bytes", bytes_json(&bytes))]),
            )
        })?;
        let t = fresh.doc.transact();
        let content = fresh.read(&t, self.array);
        Ok((content, t.snapshot(), has_pending(&t), bytes))
    }

    fn check_restore(&self, r: &Replica, client: u64, m: &Remembered, v: u8) -> Result<(), Failure> {
        let api = format!(
            "ReadTxn::encode_state_from_snapshot(EncoderV{v}) on the document of client {c} -> Update::decode_v{v} -> \
             TransactionMut::apply_update on an empty Doc",
            v = v,
            c = client
        );
        at(&api);
        let expected = |what: &str| J::obj(vec![("property", J::str(what)), ("content", J::str(&m.content)), ("snapshot", m.json())]);
        let (content, snap, pending, bytes) = match self.restore(r, m, v) {
            Ok(x) => x,
            Err((why, actual)) => return Err(fail(&why, &api, expected("the state is encoded, decodes and applies"), actual)),
        };
        let actual = |snap: &Snapshot| {
            J::obj(vec![
                ("content", J::str(&content)),
                ("pending", J::Bool(pending)),
                ("state_vector", sv_json(&sv_map(&snap.state_map))),
                ("delete_set", ds_json(&ds_points(&snap.delete_set))),
                ("update_bytes", bytes_json(&bytes)),
            ])
        };
        if content != m.content {
            return Err(fail(
                "restored content differs from the content at snapshot time",
                &api,
                expected("the empty document shows the content the source had when the snapshot was taken"),
                actual(&snap),
            ));
        }
        if pending {
            return Err(fail(
                "the receiving document is left with pending (unintegrated) data",
                &api,
                expected("everything encoded from a snapshot integrates into an empty document"),
                actual(&snap),
            ));
        }
        if sv_map(&snap.state_map) != sv_map(&m.snapshot.state_map) {
            return Err(fail(
                "restored state vector differs from the snapshot's",
                &api,
                expected("the empty document ends at the state vector of the snapshot"),
                actual(&snap),
            ));
        }
        if ds_points(&snap.delete_set) != ds_points(&m.snapshot.delete_set) {
            return Err(fail(
                "restored delete set differs from the snapshot's",
                &api,
                expected("the empty document ends with the delete set of the snapshot"),
                actual(&snap),
            ));
        }
        Ok(())
    }

    pub fn actual_json(&self) -> J {
        let (docs, mem) = match self.execute(true) {
            Ok(x) => x,
            Err(_) => return J::Null,
        };
        let mut out = Vec::new();
        for m in &mem {
            let restored = match self.restore(&docs[0], m, 1) {
                Ok((content, ..)) => J::str(&content),
                Err((why, _)) => J::obj(vec![("error", J::str(&why))]),
            };
            out.push(J::obj(vec![
                ("taken_after_steps", J::Num(m.after as i64)),
                ("content", J::str(&m.content)),
                ("restored", restored),
            ]));
        }
        J::obj(vec![("snapshots", J::Arr(out))])
    }
}

fn apply_op(r: &Replica, txn: &mut TransactionMut, op: &SOp, array: bool) {
    at(op_api(op, array));
    match op {
        SOp::Insert { index, chunk } => r.text.insert(txn, *index, chunk),
        SOp::InsertVals { index, values } => r.array.insert_range(txn, *index, values.clone()),
        SOp::Remove { index, len } if array => r.array.remove_range(txn, *index, *len),
        SOp::Remove { index, len } => r.text.remove_range(txn, *index, *len),
    }
}

const SNAP_DEPTH: usize = 4;
/// Two-client scripts (every assignment of the steps to the clients that
/// involves client 2) are enumerated to this depth; with `OffsetKind::Utf16`
/// one step less (the default run has to stay within a minute).
const SNAP_DEPTH_TWO: usize = 4;
const SNAP_DEPTH_TWO_UTF16: usize = 3;

/// Every valid next operation on `content`.
fn snap_alphabet(content: &Content, utf16: bool, step_no: usize) -> Vec<SOp> {
    let bounds = content.boundaries(utf16);
    let mut out = Vec::new();
    match content {
        Content::Text(_) => {
            for b in &bounds {
                for chunk in ["a", "bc", "\u{1F600}"] {
                    out.push(SOp::Insert {
                        index: *b,
                        chunk: chunk.to_string(),
                    });
                }
            }
        }
        Content::Array(_) => {
            let n = step_no as i64;
            for b in &bounds {
                out.push(SOp::InsertVals { index: *b, values: vec![n] });
                out.push(SOp::InsertVals {
                    index: *b,
                    values: vec![10 * n, 10 * n + 1],
                });
            }
        }
    }
    for (i, s) in bounds.iter().enumerate() {
        for e in bounds.iter().skip(i + 1) {
            out.push(SOp::Remove { index: *s, len: *e - *s });
        }
    }
    out
}

/// All scripts of at most `depth` steps, shortest first; with `two` every
/// step is also assigned to client 2 and scripts without client 2 are left out
/// (they are the one-client scripts).
fn snap_scripts(array: bool, utf16: bool, depth: usize, two: bool) -> Vec<Vec<SStep>> {
    let mut out: Vec<Vec<SStep>> = Vec::new();
    let mut frontier: Vec<(Vec<SStep>, Content)> = vec![(Vec::new(), Content::empty(array))];
    if !two {
        out.push(Vec::new());
    }
    for d in 1..=depth {
        let mut next = Vec::new();
        for (steps, content) in &frontier {
            for op in snap_alphabet(content, utf16, d) {
                let mut c = content.clone();
                if c.apply(&op, utf16).is_err() {
                    continue;
                }
                for client in if two { vec![1u64, 2] } else { vec![1u64] } {
                    let mut s = steps.clone();
                    s.push(SStep { client, op: op.clone() });
                    next.push((s, c.clone()));
                }
            }
        }
        for (s, _) in &next {
            if !two || s.iter().any(|st| st.client == 2) {
                out.push(s.clone());
            }
        }
        frontier = next;
    }
    out
}

pub fn search_snapshot(r: &mut Runner) -> Result<(), XStop> {
    let mut cases: Vec<SnapCase> = Vec::new();
    let mut add = |array: bool, utf16: bool, depth: usize, two: bool| {
        for steps in snap_scripts(array, utf16, depth, two) {
            for whole in [false, true] {
                // one transaction for all steps of a client differs from one per
                // step only when some client performs two steps in a row
                if whole && !steps.windows(2).any(|w| w[0].client == w[1].client) {
                    continue;
                }
                cases.push(SnapCase {
                    array,
                    utf16,
                    whole,
                    steps: steps.clone(),
                });
            }
        }
    };
    add(false, false, SNAP_DEPTH, false);
    add(false, true, SNAP_DEPTH, false);
    add(true, false, SNAP_DEPTH, false);
    add(false, false, SNAP_DEPTH_TWO, true);
    add(false, true, SNAP_DEPTH_TWO_UTF16, true);
    add(true, false, SNAP_DEPTH_TWO, true);
    // shortest scripts first, whatever the variant
    cases.sort_by_key(|c| c.steps.len());
    let cases = &cases;
    r.par(cases.len(), &|ctx: &mut Ctx, i: usize| {
        ctx.exec(XCase::Snap(cases[i].clone())).map(|_| ())
    })?;
    Ok(())
}

// ---------------------------------------------------------------------------
// svsync
// ---------------------------------------------------------------------------

#[derive(Clone, Copy, Debug, PartialEq, Eq)]
pub enum Enc {
    DiffV1,
    DiffV2,
    StateV1,
    StateV2,
}

const ENCS: [Enc; 4] = [Enc::DiffV1, Enc::DiffV2, Enc::StateV1, Enc::StateV2];

impl Enc {
    fn name(self) -> &'static str {
        match self {
            Enc::DiffV1 => "encode_diff_v1",
            Enc::DiffV2 => "encode_diff_v2",
            Enc::StateV1 => "encode_state_as_update_v1",
            Enc::StateV2 => "encode_state_as_update_v2",
        }
    }

    fn is_v1(self) -> bool {
        matches!(self, Enc::DiffV1 | Enc::StateV1)
    }

    fn encode<T: ReadTxn>(self, txn: &T, sv: &StateVector) -> Vec<u8> {
        match self {
            Enc::DiffV1 => txn.encode_diff_v1(sv),
            Enc::DiffV2 => txn.encode_diff_v2(sv),
            Enc::StateV1 => txn.encode_state_as_update_v1(sv),
            Enc::StateV2 => txn.encode_state_as_update_v2(sv),
        }
    }

    fn decode(self, bytes: &[u8]) -> Result<Update, String> {
        if self.is_v1() {
            Update::decode_v1(bytes).map_err(|e| e.to_string())
        } else {
            Update::decode_v2(bytes).map_err(|e| e.to_string())
        }
    }
}

#[derive(Clone, Copy, Debug, PartialEq, Eq)]
pub enum InsAt {
    Start,
    Mid,
    End,
}

#[derive(Clone, Debug, PartialEq)]
pub enum VStep {
    /// `Text::insert` of `chunk` at the start, at `len / 2` (needs `len >= 2`) or at the end.
    Ins { doc: u64, at: InsAt, chunk: String },
    /// `Text::remove_range` of the first or of the last character.
    Del { doc: u64, last: bool },
    /// `to.apply_update(from.encode(sv))` where `sv` is the current state
    /// vector of `to`, or (`old`) the one `to` had before its state vector
    /// changed last (the empty one if it changed once).
    Sync { from: u64, to: u64, old: bool },
}

#[derive(Clone, Debug)]
pub struct SvCase {
    pub docs: u64,
    pub enc: Enc,
    pub steps: Vec<VStep>,
}

/// Everything observable about a replica.
#[derive(Clone, Debug, PartialEq)]
struct View {
    text: String,
    sv: BTreeMap<u64, u32>,
    ds: BTreeSet<(u64, u32)>,
}

impl View {
    fn json(&self) -> J {
        J::obj(vec![
            ("text", J::str(&self.text)),
            ("state_vector", sv_json(&self.sv)),
            ("delete_set", ds_json(&self.ds)),
        ])
    }
}

struct Peer {
    client: u64,
    doc: Doc,
    text: TextRef,
    /// The state vector this replica had before its state vector changed last.
    old_sv: StateVector,
}

impl Peer {
    fn view(&self) -> View {
        at("ReadTxn::snapshot / Text::get_string");
        let t = self.doc.transact();
        let snap = t.snapshot();
        View {
            text: self.text.get_string(&t),
            sv: sv_map(&snap.state_map),
            ds: ds_points(&snap.delete_set),
        }
    }

    fn sv(&self) -> StateVector {
        at("ReadTxn::state_vector");
        self.doc.transact().state_vector()
    }
}

fn vstep_json(s: &VStep) -> J {
    match s {
        VStep::Ins { doc, at, chunk } => J::obj(vec![
            ("step", J::str("insert")),
            ("client", J::Num(*doc as i64)),
            (
                "at",
                J::str(match at {
                    InsAt::Start => "start",
                    InsAt::Mid => "mid",
                    InsAt::End => "end",
                }),
            ),
            ("chunk", J::str(chunk)),
        ]),
        VStep::Del { doc, last } => J::obj(vec![
            ("step", J::str("remove")),
            ("client", J::Num(*doc as i64)),
            ("at", J::str(if *last { "last" } else { "first" })),
        ]),
        VStep::Sync { from, to, old } => J::obj(vec![
            ("step", J::str("sync")),
            ("from", J::Num(*from as i64)),
            ("to", J::Num(*to as i64)),
            ("sv", J::str(if *old { "old" } else { "cur" })),
        ]),
    }
}

impl SvCase {
    pub fn describe(&self) -> (String, J) {
        (
            format!("{}_docs", self.docs),
            J::obj(vec![
                ("kind", J::str("svsync")),
                ("docs", J::Num(self.docs as i64)),
                ("enc", J::str(self.enc.name())),
                ("steps", J::Arr(self.steps.iter().map(vstep_json).collect())),
            ]),
        )
    }

    pub fn from_json(op: &J) -> Result<SvCase, String> {
        let docs = match op.get("docs").and_then(|d| d.as_i64()) {
            Some(2) | None => 2,
            Some(3) => 3,
            _ => return Err("op.docs must be 2 or 3".into()),
        };
        let enc_name = op.get("enc").and_then(|e| e.as_str()).unwrap_or("encode_diff_v1");
        let enc = *ENCS
            .iter()
            .find(|e| e.name() == enc_name)
            .ok_or_else(|| format!("op.enc: unknown encoding {:?}", enc_name))?;
        let arr = op.get("steps").and_then(|s| s.as_arr()).ok_or("op.steps: expected an array")?;
        let mut steps = Vec::new();
        for (i, st) in arr.iter().enumerate() {
            let what = format!("op.steps[{}]", i);
            let client = |key: &str| -> Result<u64, String> {
                match st.get(key).and_then(|c| c.as_i64()) {
                    Some(n) if n >= 1 && n <= docs as i64 => Ok(n as u64),
                    _ => Err(format!("{}.{} must be a client in 1..={}", what, key, docs)),
                }
            };
            let kind = st.get("step").and_then(|k| k.as_str()).ok_or_else(|| format!("{}.step missing", what))?;
            let pos = st.get("at").and_then(|k| k.as_str()).unwrap_or("");
            steps.push(match kind {
                "insert" => {
                    let chunk = st.get("chunk").and_then(|c| c.as_str()).ok_or_else(|| format!("{}.chunk missing", what))?;
                    if chunk.is_empty() {
                        return Err(format!("{}.chunk: non-empty text expected", what));
                    }
                    VStep::Ins {
                        doc: client("client")?,
                        at: match pos {
                            "start" => InsAt::Start,
                            "mid" => InsAt::Mid,
                            "end" => InsAt::End,
                            _ => return Err(format!("{}.at: start | mid | end", what)),
                        },
                        chunk: chunk.to_string(),
                    }
                }
                "remove" => VStep::Del {
                    doc: client("client")?,
                    last: match pos {
                        "first" => false,
                        "last" => true,
                        _ => return Err(format!("{}.at: first | last", what)),
                    },
                },
                "sync" => {
                    let (from, to) = (client("from")?, client("to")?);
                    if from == to {
                        return Err(format!("{}: from and to must differ", what));
                    }
                    VStep::Sync {
                        from,
                        to,
                        old: match st.get("sv").and_then(|k| k.as_str()).unwrap_or("cur") {
                            "cur" => false,
                            "old" => true,
                            _ => return Err(format!("{}.sv: cur | old", what)),
                        },
                    }
                }
                other => return Err(format!("{}: unknown step {:?}", what, other)),
            });
        }
        Ok(SvCase { docs, enc, steps })
    }

    fn peers(&self) -> Vec<Peer> {
        (1..=self.docs)
            .map(|client| {
                let doc = new_doc(client, false, false);
                at("Doc::get_or_insert_text");
                let text = doc.get_or_insert_text(ROOT);
                Peer {
                    client,
                    doc,
                    text,
                    old_sv: StateVector::default(),
                }
            })
            .collect()
    }

    /// `to.apply_update(from.encode(sv))` with every check; `Ok(false)`: the
    /// step is a duplicate (`old` state vector equal to the current one).
    fn sync(&self, peers: &mut [Peer], from: usize, to: usize, old: bool, position: &J) -> Verdict {
        let enc = self.enc;
        let api = format!(
            "ReadTxn::{}(&{} state vector of client {}) on client {} -> Update::decode -> TransactionMut::apply_update on client {}",
            enc.name(),
            if old { "an older" } else { "the current" },
            peers[to].client,
            peers[from].client,
            peers[to].client
        );
        let va = peers[from].view();
        let vb = peers[to].view();
        let cur_sv = peers[to].sv();
        let sv = if old { peers[to].old_sv.clone() } else { cur_sv.clone() };
        if old && sv_map(&sv) == vb.sv {
            return Ok(false);
        }
        at(&api);
        let bytes = {
            let t = peers[from].doc.transact();
            enc.encode(&t, &sv)
        };
        let shown = |property: &str, extra: Vec<(&str, J)>| {
            let mut f = vec![
                ("property", J::str(property)),
                ("at", position.clone()),
                ("sender_before", va.json()),
                ("receiver_before", vb.json()),
                ("encoded_against", sv_json(&sv_map(&sv))),
            ];
            f.extend(extra);
            J::obj(f)
        };
        let update = match enc.decode(&bytes) {
            Ok(u) => u,
            Err(e) => {
                return Err(fail(
                    "an update just encoded does not decode",
                    &api,
                    shown("the encoded diff decodes", vec![]),
                    J::obj(vec![("error", J::str(&e)), ("bytes", bytes_json(&bytes))]),
                ))
            }
        };
        if let Err(e) = peers[to].doc.transact_mut().apply_update(update) {
            return Err(fail(
                "apply_update failed",
                &api,
                shown("the decoded diff applies", vec![]),
                J::obj(vec![("error", J::str(&e.to_string())), ("bytes", bytes_json(&bytes))]),
            ));
        }
        let after = peers[to].view();
        let pending = has_pending(&peers[to].doc.transact());
        let actual = || {
            J::obj(vec![
                ("receiver_after", after.json()),
                ("pending", J::Bool(pending)),
                ("update_bytes", bytes_json(&bytes)),
            ])
        };
        // the receiver's state vector never decreases
        for (c, k) in &vb.sv {
            if after.sv.get(c).copied().unwrap_or(0) < *k {
                return Err(fail(
                    "the receiver's state vector decreased",
                    &api,
                    shown("a replica's state vector never decreases pointwise", vec![]),
                    actual(),
                ));
            }
        }
        // afterwards the receiver knows exactly what either side knew
        let mut want_sv = vb.sv.clone();
        for (c, k) in &va.sv {
            let e = want_sv.entry(*c).or_insert(0);
            *e = (*e).max(*k);
        }
        let want_ds: BTreeSet<(u64, u32)> = vb.ds.union(&va.ds).copied().collect();
        if after.sv != want_sv || pending {
            return Err(fail(
                "after applying the sender's diff the receiver does not contain everything the sender had (state vector)",
                &api,
                shown(
                    "receiver state vector == pointwise max(receiver before, sender), nothing pending",
                    vec![("state_vector", sv_json(&want_sv))],
                ),
                actual(),
            ));
        }
        if after.ds != want_ds {
            return Err(fail(
                "after applying the sender's diff the receiver does not contain everything the sender had (delete set)",
                &api,
                shown(
                    "receiver delete set == receiver before + sender",
                    vec![("delete_set", ds_json(&want_ds))],
                ),
                actual(),
            ));
        }
        let receiver_had_nothing_new = vb.sv.iter().all(|(c, k)| va.sv.get(c).copied().unwrap_or(0) >= *k) && vb.ds.is_subset(&va.ds);
        if receiver_had_nothing_new && after.text != va.text {
            return Err(fail(
                "the receiver knew nothing the sender lacked, yet after applying the sender's diff their texts differ",
                &api,
                shown("receiver text == sender text", vec![("text", J::str(&va.text))]),
                actual(),
            ));
        }
        let va_after = peers[from].view();
        if va_after != va {
            return Err(fail(
                "encoding a diff changed the sender",
                &api,
                shown("the sender is unchanged", vec![]),
                J::obj(vec![("sender_after", va_after.json())]),
            ));
        }
        if after.sv != vb.sv {
            peers[to].old_sv = cur_sv;
        }
        Ok(true)
    }

    /// A diff against the replica's own state vector carries no blocks, is the
    /// empty update when nothing was deleted, and changes nothing when applied.
    fn self_diff(&self, peer: &Peer, position: &J) -> Result<(), Failure> {
        let v = peer.view();
        let sv = peer.sv();
        for enc in ENCS {
            let api = format!("ReadTxn::{}(&own state vector) on client {}", enc.name(), peer.client);
            at(&api);
            let bytes = {
                let t = peer.doc.transact();
                enc.encode(&t, &sv)
            };
            let shown = |property: &str| J::obj(vec![("property", J::str(property)), ("at", position.clone()), ("replica", v.json())]);
            let update = match enc.decode(&bytes) {
                Ok(u) => u,
                Err(e) => {
                    return Err(fail(
                        "an update just encoded does not decode",
                        &api,
                        shown("the encoded diff decodes"),
                        J::obj(vec![("error", J::str(&e)), ("bytes", bytes_json(&bytes))]),
                    ))
                }
            };
            let blocks = sv_map(&update.state_vector());
            if !blocks.is_empty() {
                return Err(fail(
                    "a diff against the own state vector carries blocks",
                    &api,
                    shown("no blocks"),
                    J::obj(vec![("blocks_up_to", sv_json(&blocks)), ("bytes", bytes_json(&bytes))]),
                ));
            }
            if ds_points(update.delete_set()) != v.ds {
                return Err(fail(
                    "a diff against the own state vector does not carry the replica's delete set",
                    &api,
                    shown("delete set of the update == delete set of the replica"),
                    J::obj(vec![
                        ("delete_set", ds_json(&ds_points(update.delete_set()))),
                        ("bytes", bytes_json(&bytes)),
                    ]),
                ));
            }
            if v.ds.is_empty() {
                let empty: &[u8] = if enc.is_v1() { Update::EMPTY_V1 } else { Update::EMPTY_V2 };
                if bytes != empty {
                    return Err(fail(
                        "a diff against the own state vector of a replica without deletions is not the empty update",
                        &api,
                        J::obj(vec![("bytes", bytes_json(empty)), ("at", position.clone()), ("replica", v.json())]),
                        J::obj(vec![("bytes", bytes_json(&bytes))]),
                    ));
                }
            }
            if enc == self.enc {
                at(&format!("TransactionMut::apply_update of {}(&own state vector) on client {}", enc.name(), peer.client));
                if let Err(e) = peer.doc.transact_mut().apply_update(update) {
                    return Err(fail(
                        "apply_update failed",
                        &api,
                        shown("the diff applies"),
                        J::obj(vec![("error", J::str(&e.to_string()))]),
                    ));
                }
                let after = peer.view();
                let pending = has_pending(&peer.doc.transact());
                if after != v || pending {
                    return Err(fail(
                        "applying a diff encoded against the own state vector changed the replica",
                        &api,
                        shown("nothing changes"),
                        J::obj(vec![("replica_after", after.json()), ("pending", J::Bool(pending))]),
                    ));
                }
            }
        }
        Ok(())
    }

    fn run_inner(&self, trace: Option<&mut Vec<J>>) -> Verdict {
        let mut peers = self.peers();
        for (i, step) in self.steps.iter().enumerate() {
            let position = J::obj(vec![("step", J::Num(i as i64))]);
            match step {
                VStep::Ins { doc, at: pos, chunk } => {
                    let p = &mut peers[(*doc - 1) as usize];
                    let before = p.view();
                    let sv_before = p.sv();
                    // positions are character boundaries; offsets are UTF-8 bytes (OffsetKind::Bytes)
                    let chars: Vec<char> = before.text.chars().collect();
                    let ci = match pos {
                        InsAt::Start => 0,
                        InsAt::End => chars.len(),
                        InsAt::Mid => {
                            if chars.len() < 2 {
                                return Ok(false);
                            }
                            chars.len() / 2
                        }
                    };
                    let index: usize = chars[..ci].iter().map(|c| c.len_utf8()).sum();
                    at("Text::insert");
                    p.text.insert(&mut p.doc.transact_mut(), index as u32, chunk);
                    let after = p.view();
                    let want = format!("{}{}{}", &before.text[..index], chunk, &before.text[index..]);
                    let mut want_sv = before.sv.clone();
                    // clocks count UTF-16 units
                    *want_sv.entry(p.client).or_insert(0) += chunk.encode_utf16().count() as u32;
                    if after.text != want || after.sv != want_sv || after.ds != before.ds {
                        return Err(fail(
                            "a local insertion does not have its sequential effect",
                            "Text::insert",
                            J::obj(vec![
                                ("at", position),
                                ("before", before.json()),
                                ("text", J::str(&want)),
                                ("state_vector", sv_json(&want_sv)),
                            ]),
                            after.json(),
                        ));
                    }
                    p.old_sv = sv_before;
                }
                VStep::Del { doc, last } => {
                    let p = &mut peers[(*doc - 1) as usize];
                    let before = p.view();
                    let chars: Vec<char> = before.text.chars().collect();
                    if chars.is_empty() || (*last && chars.len() == 1) {
                        return Ok(false);
                    }
                    let ci = if *last { chars.len() - 1 } else { 0 };
                    let index: usize = chars[..ci].iter().map(|c| c.len_utf8()).sum();
                    let width = chars[ci].len_utf8();
                    let units = chars[ci].len_utf16();
                    at("Text::remove_range");
                    p.text.remove_range(&mut p.doc.transact_mut(), index as u32, width as u32);
                    let after = p.view();
                    let want = format!("{}{}", &before.text[..index], &before.text[index + width..]);
                    if after.text != want || after.sv != before.sv || after.ds.len() != before.ds.len() + units || !before.ds.is_subset(&after.ds) {
                        return Err(fail(
                            "a local removal does not have its sequential effect",
                            "Text::remove_range",
                            J::obj(vec![
                                ("at", position),
                                ("before", before.json()),
                                ("text", J::str(&want)),
                                ("state_vector", sv_json(&before.sv)),
                                ("delete_set_size", J::Num((before.ds.len() + units) as i64)),
                            ]),
                            after.json(),
                        ));
                    }
                }
                VStep::Sync { from, to, old } => {
                    if !self.sync(&mut peers, (*from - 1) as usize, (*to - 1) as usize, *old, &position)? {
                        return Ok(false);
                    }
                }
            }
        }
        // closing phase
        let before_exchange = J::str("after the last step, before the final exchange");
        for p in &peers {
            self.self_diff(p, &before_exchange)?;
        }
        let n = peers.len();
        for a in 0..n {
            for b in (a + 1)..n {
                let position = J::str(&format!("final exchange between clients {} and {}", a + 1, b + 1));
                self.sync(&mut peers, a, b, false, &position)?;
                self.sync(&mut peers, b, a, false, &position)?;
                let (va, vb) = (peers[a].view(), peers[b].view());
                if va != vb {
                    return Err(fail(
                        "after exchanging diffs in both directions the two replicas differ",
                        &format!(
                            "ReadTxn::{} / TransactionMut::apply_update, clients {} -> {} then {} -> {}",
                            self.enc.name(),
                            a + 1,
                            b + 1,
                            b + 1,
                            a + 1
                        ),
                        J::obj(vec![
                            ("property", J::str("equal text, state vector and delete set")),
                            ("at", position),
                        ]),
                        J::obj(vec![
                            (if a == 0 { "client1" } else { "client2" }, va.json()),
                            (if b == 1 { "client2" } else { "client3" }, vb.json()),
                        ]),
                    ));
                }
            }
        }
        let views: Vec<View> = peers.iter().map(|p| p.view()).collect();
        if views.windows(2).any(|w| w[0] != w[1]) {
            return Err(fail(
                "after the final exchange between every pair the replicas differ",
                &format!("ReadTxn::{} / TransactionMut::apply_update", self.enc.name()),
                J::obj(vec![("property", J::str("equal text, state vector and delete set on all replicas"))]),
                J::Arr(views.iter().map(|v| v.json()).collect()),
            ));
        }
        let after_exchange = J::str("after the final exchange");
        for p in &peers {
            self.self_diff(p, &after_exchange)?;
        }
        if let Some(trace) = trace {
            trace.extend(views.iter().map(|v| v.json()));
        }
        Ok(true)
    }

    pub fn run(&self) -> Verdict {
        self.run_inner(None)
    }

    pub fn actual_json(&self) -> J {
        let mut trace = Vec::new();
        match self.run_inner(Some(&mut trace)) {
            Ok(true) => J::obj(vec![("replicas_after_final_exchange", J::Arr(trace))]),
            Ok(false) => J::obj(vec![("note", J::str("a step of the script has no effect; the script was abandoned"))]),
            Err(_) => J::Null,
        }
    }
}

/// An astral-plane character: 4 UTF-8 bytes, 2 UTF-16 units (= 2 clocks).
const ASTRAL: char = '\u{1F600}';
/// At most this many edit steps per script.
const SV_MAX_EDITS: usize = 4;
/// Script length (edit and sync steps together) for two and for three replicas.
const SV_DEPTH_2: usize = 5;
const SV_DEPTH_3: usize = 3;

/// Step templates; the chunk of an insertion is derived from its position in
/// the script (`a..`, `bb`, ..) so that every insertion is recognisable.
#[derive(Clone, Copy, Debug)]
enum Tmpl {
    /// replica, position, chunk kind: 1 = one letter, 2 = the letter twice,
    /// 3 = one astral character (4 = the astral character and the letter: not
    /// in the default alphabet, it does not fit the time budget; `replay`
    /// accepts any chunk)
    Ins(u64, InsAt, usize),
    Del(u64, bool),
    Sync(u64, u64, bool),
}

fn sv_alphabet(docs: u64) -> Vec<Tmpl> {
    let mut out = Vec::new();
    for d in 1..=docs {
        out.push(Tmpl::Ins(d, InsAt::Start, 1));
        out.push(Tmpl::Ins(d, InsAt::End, 2));
        out.push(Tmpl::Ins(d, InsAt::Mid, 1));
        out.push(Tmpl::Ins(d, InsAt::Start, 3));
        out.push(Tmpl::Del(d, false));
        out.push(Tmpl::Del(d, true));
    }
    for a in 1..=docs {
        for b in 1..=docs {
            if a != b {
                out.push(Tmpl::Sync(a, b, false));
                out.push(Tmpl::Sync(a, b, true));
            }
        }
    }
    out
}

fn instantiate(script: &[Tmpl]) -> Vec<VStep> {
    script
        .iter()
        .enumerate()
        .map(|(i, t)| match *t {
            Tmpl::Ins(doc, at, kind) => {
                let letter = (b'a' + i as u8) as char;
                VStep::Ins {
                    doc,
                    at,
                    chunk: match kind {
                        1 => letter.to_string(),
                        2 => format!("{}{}", letter, letter),
                        3 => ASTRAL.to_string(),
                        _ => format!("{}{}", ASTRAL, letter),
                    },
                }
            }
            Tmpl::Del(doc, last) => VStep::Del { doc, last },
            Tmpl::Sync(from, to, old) => VStep::Sync { from, to, old },
        })
        .collect()
}

fn search_sv_config(r: &mut Runner, docs: u64, depth: usize) -> Result<(), XStop> {
    let alphabet = sv_alphabet(docs);
    let a = alphabet.len();
    // breadth first: the scripts of length d are the effective scripts of
    // length d-1 (no step without effect) extended by every step
    let mut frontier: Vec<Vec<Tmpl>> = vec![Vec::new()];
    for d in 0..=depth {
        let count = if d == 0 { 1 } else { frontier.len() * a };
        let (fr, al) = (&frontier, &alphabet);
        let kept = r.par(count, &|ctx: &mut Ctx, idx: usize| {
            let mut script: Vec<Tmpl> = if d == 0 { Vec::new() } else { fr[idx / a].clone() };
            if d > 0 {
                script.push(al[idx % a]);
            }
            let edits = script.iter().filter(|t| !matches!(t, Tmpl::Sync(..))).count();
            if edits > SV_MAX_EDITS {
                return Ok(None);
            }
            let steps = instantiate(&script);
            for enc in ENCS {
                let counted = ctx.exec(XCase::Sv(SvCase {
                    docs,
                    enc,
                    steps: steps.clone(),
                }))?;
                if !counted {
                    return Ok(None);
                }
            }
            Ok(Some(script))
        })?;
        if d > 0 || depth == 0 {
            frontier = kept.into_iter().flatten().collect();
        }
        if d == 0 {
            frontier = vec![Vec::new()];
        }
    }
    Ok(())
}

pub fn search_svsync(r: &mut Runner) -> Result<(), XStop> {
    search_sv_config(r, 2, SV_DEPTH_2)?;
    search_sv_config(r, 3, SV_DEPTH_3)?;
    Ok(())
}
