//! Targets `converge`, sub-targets `conv_seq`, `conv_map`, `conv_nested`: the YATA integration
//! behind C01 (strong eventual consistency) and C04 (sequence elements: exactly once, stable
//! relative order, placed where inserted).
//!
//! Two or three replicas (client ids drawn from `IDS`, which holds ids that collide in their low
//! 32 bits and ids on both sides of 2^32 / next to 2^53) each hold a root Text `t`, a root Array
//! `a` and a root Map `m`. A history is a sequence of steps
//!
//! * `transaction`: one local transaction (insert 1-2 fresh elements at an index of the text /
//!   the array / the nested array, delete one element, create a nested array inside `a`, remove
//!   it, map set / remove); the update is captured through `observe_update_v1` AND `_v2`;
//! * `undo` / `redo`: `UndoManager::undo_blocking` / `redo_blocking` on replica 1 (capture
//!   timeout 0, scope = the root array, remote deliveries carry the origin "remote");
//! * `deliver`: captured updates (named `[sender, number]`) are applied to another replica: any
//!   order (same-sender reordering included: this tree integrates an independent later block
//!   behind a gap), duplicates, several at once merged with `merge_updates_v1` / `_v2`, in the
//!   v1 or the v2 form.
//!
//! Every element written is unique: the k-th element of a history is the letter `LETTERS[k]` in
//! the text and the number `k + 1` elsewhere.
//!
//! THE ORACLES know nothing of yrs' bookkeeping. Tracked per replica: the SET of updates it was
//! handed (`recv`, own transactions included). Per update: `deps`, everything its author had been
//! handed when it was created (an upper bound of what it can depend on); `closed(recv)` is the
//! largest subset of `recv` closed under `deps`. Per element INCARNATION (redoing an undone
//! deletion creates a new element with the same content): the update that inserted it, the
//! updates that delete it, its nested-array parent. What `undo` / `redo` did is READ from the
//! acting replica (values that disappeared = deletions of the incarnation visible there, values
//! that appeared = new incarnations inserted by the emitted update); nothing is predicted.
//!
//!  (S1) CONVERGENCE: two replicas with the same `recv` show the same text / array (nested arrays
//!       included) / map and their `encode_state_as_update_v1(&empty)` decode to updates with the
//!       same inserted ids and the same delete set; checked for every pair after the last step of
//!       a history (every prefix is a case of its own; `replay` checks after every step), after
//!       every closing delivery (content), and for ALL replicas once the closing phase has
//!       delivered everything in the remaining order (ascending creation order on replica 1,
//!       descending on replica 2, odd-then-even on replica 3). Then a FRESH replica that applies
//!       ONE merged batch of all updates (v1 / v2 by parity) and one that applies the full state
//!       (v2) of the last replica must show the same content, and the merged batch delivered
//!       once more to replica 2 changes nothing.
//!  (S2) EXACTLY ONCE: an incarnation whose insertion is in `closed(recv)` and none of whose
//!       deletions (own or of its nested-array parent) is in `recv` appears exactly once; one
//!       whose insertion is not in `recv`, or with a deletion in `recv`, does not appear; one in
//!       between (insertion received, but not everything it may depend on) appears at most once;
//!       nothing else appears, nothing appears in a list it was not inserted into.
//!  (S3) STABLE ORDER: a relation R of observed orders (x before y, over identified incarnations
//!       of one list) grows with every replica state seen during the history (closing phase
//!       included); a state that shows y before x when R holds (x, y) is a disagreement.
//!  (S4) PLACEMENT: after a local transaction the acting replica shows exactly the sequential
//!       effect; an element inserted between visible neighbours l and r lies behind l and before r
//!       in every state that shows them; the elements of one insertion keep their order.
//!  (S5) MAP: part of (S1); plus: `get(k)` shows only a value that a received update wrote to k.
//!  (S6) TIE-BREAK (kernel clause "same-origin items by client id"; the only oracle that sees a
//!       consistent reversal of the client order): two insertions of different clients, mutually
//!       concurrent, made between the SAME two neighbours (or list ends) on replicas that held no
//!       tombstone: the block of the lower client id comes first wherever both are visible.
//!       `"tie_break_oracle":false` in a case switches it off.
//!
//! NOT asserted: which concurrent map write wins; what undo / redo should restore; the content of
//! replicas whose `recv` differ; block boundaries.
//!
//! LEFT OUT on the unchanged tree (recipe at `World::do_deliver`; `"known_shapes":false` in a case
//! switches the exclusion off): known finding K6 - inside one merged batch a block that lacks
//! nothing is stashed behind an earlier block of its client that lacks a dependency. (A second
//! shape, found by this target - a merged batch whose blocks wait for each other across two clients
//! left a stash that waited for the wrong client - is repaired in /repo; see HISTORY there.)
//!
//! ENUMERATION (`families`): breadth first over the number of steps, all families in turn at every
//! depth; a history whose state (full exports, stash, `recv`, the oracle's tables, undo stacks, kind
//! of the last step) was reached before is not extended again; adjacent independent steps are
//! enumerated in one order only. Every ordered pair of `IDS` runs the small text alphabet; the wider
//! alphabets (removals, two-element insertions, two-operation transactions, merged batches,
//! duplicates, three replicas, map, nested array with undo / redo) run on representative ids.
//!
//! SANITY (README.md): seeded/C04a-1, -2, -3 and own mutants of `Item::resolve_conflict` (client
//! comparison reversed: (S6) only; `conflicting_items.clear()` dropped in case 2; stop at
//! `self.right` dropped) are found at `--universe 6`; the dropped `right_origin` break is not
//! (argued to be an early exit without effect on the result).

use crate::evt::{at, fail, finish, finish_replay, guarded, Found, Hunt, Stop, Tally};
use crate::json::J;
use crate::model::Failure;
use std::collections::{HashMap, HashSet};
use std::hash::{Hash, Hasher};
use std::panic::{catch_unwind, AssertUnwindSafe};
use std::sync::{Arc, Mutex};
use std::time::Instant;
use yrs::undo::UndoManager;
use yrs::updates::decoder::Decode;
use yrs::updates::encoder::Encode;
use yrs::{
    Any, Array, ArrayPrelim, ArrayRef, ClientID, Doc, GetString, IdSet, Map, MapRef, Options, Out, ReadTxn, StateVector, Subscription,
    Text, TextRef, Transact, TransactionMut, Update,
};

pub const TARGETS: &str = "converge | conv_seq | conv_map | conv_nested";

pub fn is_target(target: &str) -> bool {
    matches!(target, "converge" | "conv_seq" | "conv_map" | "conv_nested")
}

/// Is this witness line one of ours?
pub fn owns(j: &J) -> bool {
    j.get("target").and_then(|t| t.as_str()).map(is_target).unwrap_or(false)
}

/// The client ids replicas are drawn from: small ones, two that collide with 7 resp. 1 in the low
/// 32 bits (and lie beyond 2^32, so that a 32-bit comparison reverses them against 2 and 7), the
/// largest 53-bit id.
pub const IDS: [u64; 6] = [1, 2, 7, (1 << 32) + 7, (1 << 32) + 1, (1 << 53) - 1];

const TEXT: &str = "t";
const ARR: &str = "a";
const MAP: &str = "m";
const KEYS: [&str; 2] = ["a", "b"];
const LETTERS: &[u8] = b"abcdefghijklmnopqrstuvwxyzABCDEFGHIJKLMNOPQRSTUVWXYZ";
const MAX_VALUES: u32 = 52;
const MAX_UPDS: usize = 60;
/// "Value" of a nested array in the element table.
const NEST: u32 = u32::MAX;
/// Client id of the fresh replicas of the closing phase.
const FRESH: u64 = (1 << 40) + 5;

// ---------------------------------------------------------------------------
// cases
// ---------------------------------------------------------------------------

#[derive(Clone, Debug, PartialEq, Eq, Hash)]
pub enum Op {
    /// `Text::insert(index, <count fresh letters>)`
    TIns { index: u32, count: u32 },
    /// `Text::remove_range(index, 1)`
    TDel { index: u32 },
    /// `Array::insert` / `insert_range(index, <count fresh numbers>)` on the root array
    AIns { index: u32, count: u32 },
    /// `Array::remove(index)` on the root array (of a number or of the nested array)
    ADel { index: u32 },
    /// `Array::insert(index, ArrayPrelim(<count fresh numbers>))` on the root array
    NNew { index: u32, count: u32 },
    /// insertion into the one nested array the replica shows
    NIns { index: u32, count: u32 },
    /// removal of a child of the one nested array the replica shows
    NDel { index: u32 },
    MSet { key: usize },
    MDel { key: usize },
}

impl Op {
    fn fresh(&self) -> u32 {
        match self {
            Op::TIns { count, .. } | Op::AIns { count, .. } | Op::NNew { count, .. } | Op::NIns { count, .. } => *count,
            Op::MSet { .. } => 1,
            _ => 0,
        }
    }

    fn json(&self) -> J {
        let ins = |name: &str, index: &u32, count: &u32| J::obj(vec![("op", J::str(name)), ("index", J::num(*index)), ("count", J::num(*count))]);
        let del = |name: &str, index: &u32| J::obj(vec![("op", J::str(name)), ("index", J::num(*index))]);
        match self {
            Op::TIns { index, count } => ins("text_insert", index, count),
            Op::TDel { index } => del("text_remove", index),
            Op::AIns { index, count } => ins("array_insert", index, count),
            Op::ADel { index } => del("array_remove", index),
            Op::NNew { index, count } => ins("nested_new", index, count),
            Op::NIns { index, count } => ins("nested_insert", index, count),
            Op::NDel { index } => del("nested_remove", index),
            Op::MSet { key } => J::obj(vec![("op", J::str("map_set")), ("key", J::str(KEYS[*key]))]),
            Op::MDel { key } => J::obj(vec![("op", J::str("map_remove")), ("key", J::str(KEYS[*key]))]),
        }
    }

    fn from_json(j: &J, what: &str) -> Result<Op, String> {
        let num = |key: &str, lo: i64, hi: i64, default: Option<i64>| -> Result<u32, String> {
            match j.get_non_null(key).map(|v| v.as_i64()) {
                None if default.is_some() => Ok(default.unwrap() as u32),
                Some(Some(n)) if (lo..=hi).contains(&n) => Ok(n as u32),
                _ => Err(format!("{}.{}: expected a number in {}..={}", what, key, lo, hi)),
            }
        };
        let key = || -> Result<usize, String> {
            let k = j.get("key").and_then(|k| k.as_str()).unwrap_or("");
            KEYS.iter().position(|n| *n == k).ok_or_else(|| format!("{}.key: a | b", what))
        };
        let index = || num("index", 0, 64, None);
        let count = || num("count", 0, 4, Some(1));
        match j.get("op").and_then(|o| o.as_str()) {
            Some("text_insert") => Ok(Op::TIns { index: index()?, count: count()? }),
            Some("text_remove") => Ok(Op::TDel { index: index()? }),
            Some("array_insert") => Ok(Op::AIns { index: index()?, count: count()? }),
            Some("array_remove") => Ok(Op::ADel { index: index()? }),
            Some("nested_new") => Ok(Op::NNew { index: index()?, count: count()? }),
            Some("nested_insert") => Ok(Op::NIns { index: index()?, count: count()? }),
            Some("nested_remove") => Ok(Op::NDel { index: index()? }),
            Some("map_set") => Ok(Op::MSet { key: key()? }),
            Some("map_remove") => Ok(Op::MDel { key: key()? }),
            _ => Err(format!(
                "{}.op: text_insert | text_remove | array_insert | array_remove | nested_new | nested_insert | nested_remove | map_set | map_remove",
                what
            )),
        }
    }
}

/// Replicas are numbered from 0 here, from 1 in the JSON.
#[derive(Clone, Debug, PartialEq, Eq, Hash)]
pub enum Step {
    Txn { r: usize, ops: Vec<Op> },
    Undo { r: usize },
    Redo { r: usize },
    /// The updates `(sender, number)` applied to replica `to`; more than one: merged first.
    Deliver { to: usize, upds: Vec<(usize, usize)>, v2: bool },
}

impl Step {
    fn json(&self) -> J {
        match self {
            Step::Txn { r, ops } => J::obj(vec![
                ("step", J::str("transaction")),
                ("replica", J::Num(*r as i64 + 1)),
                ("ops", J::Arr(ops.iter().map(|o| o.json()).collect())),
            ]),
            Step::Undo { r } => J::obj(vec![("step", J::str("undo")), ("replica", J::Num(*r as i64 + 1))]),
            Step::Redo { r } => J::obj(vec![("step", J::str("redo")), ("replica", J::Num(*r as i64 + 1))]),
            Step::Deliver { to, upds, v2 } => J::obj(vec![
                ("step", J::str("deliver")),
                ("to", J::Num(*to as i64 + 1)),
                (
                    "updates",
                    J::Arr(upds.iter().map(|(s, k)| J::Arr(vec![J::Num(*s as i64 + 1), J::Num(*k as i64)])).collect()),
                ),
                ("enc", J::str(if *v2 { "v2" } else { "v1" })),
                (
                    "form",
                    J::str(if upds.len() > 1 {
                        if *v2 {
                            "merge_updates_v2"
                        } else {
                            "merge_updates_v1"
                        }
                    } else {
                        "as captured"
                    }),
                ),
            ]),
        }
    }
}

#[derive(Clone, Debug)]
pub struct Case {
    pub target: String,
    /// Name of the enumeration family that produced the case (informative).
    pub family: String,
    /// Client id of replica 1, 2 (, 3).
    pub clients: Vec<u64>,
    pub gc: bool,
    /// An `UndoManager` (capture timeout 0, scope = root array) on replica 1.
    pub undo: bool,
    /// Oracle (S6).
    pub tie_break: bool,
    /// Leave the documented shape K6 of the unchanged tree out (see `World::do_deliver`).
    pub known_shapes: bool,
    pub steps: Vec<Step>,
}

impl Case {
    fn fields(&self, steps: &[Step]) -> Vec<(&'static str, J)> {
        let mut op = vec![
            ("kind", J::str("converge")),
            ("clients", J::Arr(self.clients.iter().map(|c| J::Num(*c as i64)).collect())),
            ("gc", J::Bool(self.gc)),
            ("undo_manager", J::Bool(self.undo)),
        ];
        if !self.tie_break {
            op.push(("tie_break_oracle", J::Bool(false)));
        }
        if !self.known_shapes {
            op.push(("known_shapes", J::Bool(false)));
        }
        op.push(("steps", J::Arr(steps.iter().map(|s| s.json()).collect())));
        vec![("target", J::str(&self.target)), ("variant", J::str(&self.family)), ("op", J::obj(op))]
    }

    pub fn from_json(j: &J) -> Result<Case, String> {
        let target = j.get("target").and_then(|t| t.as_str()).unwrap_or("converge").to_string();
        let family = j.get("variant").and_then(|t| t.as_str()).unwrap_or("replay").to_string();
        let op = j.get("op").ok_or("op missing")?;
        let cs = op.get("clients").and_then(|c| c.as_arr()).ok_or("op.clients: expected 2 or 3 client ids")?;
        if cs.len() < 2 || cs.len() > 3 {
            return Err("op.clients: expected 2 or 3 client ids".into());
        }
        let mut clients = Vec::new();
        for c in cs {
            match c.as_i64() {
                Some(n) if n >= 0 && (n as u64) < (1u64 << 53) && n as u64 != FRESH && !clients.contains(&(n as u64)) => clients.push(n as u64),
                _ => return Err("op.clients: expected distinct 53-bit client ids".into()),
            }
        }
        let n = clients.len();
        let flag = |key: &str, default: bool| -> Result<bool, String> {
            match op.get_non_null(key) {
                None => Ok(default),
                Some(J::Bool(b)) => Ok(*b),
                _ => Err(format!("op.{}: true | false", key)),
            }
        };
        let replica = |j: Option<&J>, what: &str| -> Result<usize, String> {
            match j.and_then(|v| v.as_i64()) {
                Some(k) if k >= 1 && k <= n as i64 => Ok(k as usize - 1),
                _ => Err(format!("{}: expected a replica in 1..={}", what, n)),
            }
        };
        let arr = op.get("steps").and_then(|s| s.as_arr()).ok_or("op.steps: expected an array")?;
        let mut steps = Vec::new();
        for (i, st) in arr.iter().enumerate() {
            let what = format!("op.steps[{}]", i);
            match st.get("step").and_then(|s| s.as_str()) {
                Some("transaction") => {
                    let r = replica(st.get("replica"), &format!("{}.replica", what))?;
                    let ops_j = st.get("ops").and_then(|o| o.as_arr()).ok_or_else(|| format!("{}.ops missing", what))?;
                    let mut ops = Vec::new();
                    for (k, o) in ops_j.iter().enumerate() {
                        ops.push(Op::from_json(o, &format!("{}.ops[{}]", what, k))?);
                    }
                    if ops.is_empty() {
                        return Err(format!("{}.ops: empty", what));
                    }
                    steps.push(Step::Txn { r, ops });
                }
                Some("undo") => steps.push(Step::Undo { r: replica(st.get("replica"), &format!("{}.replica", what))? }),
                Some("redo") => steps.push(Step::Redo { r: replica(st.get("replica"), &format!("{}.replica", what))? }),
                Some("deliver") => {
                    let to = replica(st.get("to"), &format!("{}.to", what))?;
                    let us = st.get("updates").and_then(|u| u.as_arr()).ok_or_else(|| format!("{}.updates: [[replica, number]..]", what))?;
                    let mut upds = Vec::new();
                    for u in us {
                        let pair = u.as_arr().filter(|p| p.len() == 2).ok_or_else(|| format!("{}.updates: [[replica, number]..]", what))?;
                        let s = replica(Some(&pair[0]), &format!("{}.updates[..][0]", what))?;
                        let k = match pair[1].as_i64() {
                            Some(k) if (0..64).contains(&k) => k as usize,
                            _ => return Err(format!("{}.updates[..][1]: a sequence number", what)),
                        };
                        upds.push((s, k));
                    }
                    if upds.is_empty() {
                        return Err(format!("{}.updates: empty", what));
                    }
                    let v2 = match st.get_non_null("enc").map(|e| e.as_str()) {
                        None | Some(Some("v1")) => false,
                        Some(Some("v2")) => true,
                        _ => return Err(format!("{}.enc: v1 | v2", what)),
                    };
                    steps.push(Step::Deliver { to, upds, v2 });
                }
                _ => return Err(format!("{}.step: transaction | undo | redo | deliver", what)),
            }
        }
        Ok(Case {
            target,
            family,
            clients,
            gc: flag("gc", true)?,
            undo: flag("undo_manager", false)?,
            tie_break: flag("tie_break_oracle", true)?,
            known_shapes: flag("known_shapes", true)?,
            steps,
        })
    }
}

// ---------------------------------------------------------------------------
// content
// ---------------------------------------------------------------------------

#[derive(Clone, Debug, PartialEq, Eq, Hash)]
enum Cell {
    /// The k-th element written in the history.
    V(u32),
    Nest(Vec<Cell>),
    /// Something no script wrote.
    Odd(String),
}

#[derive(Clone, Debug, PartialEq, Eq, Hash, Default)]
struct Content {
    text: Vec<Cell>,
    arr: Vec<Cell>,
    map: [Option<Cell>; 2],
}

fn letter(k: u32) -> char {
    LETTERS[k as usize] as char
}

fn cell_json(c: &Cell) -> J {
    match c {
        Cell::V(k) => J::Num(*k as i64 + 1),
        Cell::Nest(children) => J::Arr(children.iter().map(cell_json).collect()),
        Cell::Odd(s) => J::Str(format!("?{}", s)),
    }
}

impl Content {
    fn json(&self) -> J {
        let text: String = self
            .text
            .iter()
            .map(|c| match c {
                Cell::V(k) => letter(*k).to_string(),
                Cell::Odd(s) => format!("?{}", s),
                Cell::Nest(_) => "?".to_string(),
            })
            .collect();
        J::obj(vec![
            ("t", J::Str(text)),
            ("a", J::Arr(self.arr.iter().map(cell_json).collect())),
            (
                "m",
                J::Obj((0..2).filter_map(|k| self.map[k].as_ref().map(|v| (KEYS[k].to_string(), cell_json(v)))).collect()),
            ),
        ])
    }
}

fn num_cell(n: i64) -> Cell {
    if n >= 1 && n <= MAX_VALUES as i64 {
        Cell::V((n - 1) as u32)
    } else {
        Cell::Odd(n.to_string())
    }
}

fn cell_of<T: ReadTxn>(txn: &T, o: &Out, depth: u32) -> Cell {
    match o {
        Out::Any(Any::BigInt(n)) => num_cell(*n),
        Out::Any(Any::Number(f)) if f.fract() == 0.0 && f.abs() < 1e15 => num_cell(*f as i64),
        Out::YArray(a) if depth == 0 => Cell::Nest(a.iter(txn).map(|o| cell_of(txn, &o, 1)).collect()),
        other => Cell::Odd(format!("{:?}", other)),
    }
}

type Log = Arc<Mutex<Vec<Vec<u8>>>>;

struct Rep {
    doc: Doc,
    text: TextRef,
    arr: ArrayRef,
    map: MapRef,
    log1: Log,
    log2: Log,
    _subs: Vec<Subscription>,
}

fn lock<T>(m: &Mutex<T>) -> std::sync::MutexGuard<'_, T> {
    m.lock().unwrap_or_else(|e| e.into_inner())
}

fn new_rep(client: u64, gc: bool, capture: bool) -> Result<Rep, Failure> {
    at("Doc::with_options");
    let mut options = Options::with_client_id(ClientID::new(client));
    options.skip_gc = !gc;
    let doc = Doc::with_options(options);
    at("Doc::get_or_insert_text / get_or_insert_array / get_or_insert_map");
    let text = doc.get_or_insert_text(TEXT);
    let arr = doc.get_or_insert_array(ARR);
    let map = doc.get_or_insert_map(MAP);
    let (log1, log2): (Log, Log) = (Arc::new(Mutex::new(Vec::new())), Arc::new(Mutex::new(Vec::new())));
    let mut subs = Vec::new();
    if capture {
        at("Doc::observe_update_v1");
        let sink = log1.clone();
        subs.push(
            doc.observe_update_v1(move |_, e| lock(&sink).push(e.update.clone()))
                .map_err(|_| fail("the update observer cannot be attached", "Doc::observe_update_v1", J::str("Ok"), J::str("Err")))?,
        );
        at("Doc::observe_update_v2");
        let sink = log2.clone();
        subs.push(
            doc.observe_update_v2(move |_, e| lock(&sink).push(e.update.clone()))
                .map_err(|_| fail("the update observer cannot be attached", "Doc::observe_update_v2", J::str("Ok"), J::str("Err")))?,
        );
    }
    Ok(Rep {
        doc,
        text,
        arr,
        map,
        log1,
        log2,
        _subs: subs,
    })
}

impl Rep {
    fn content(&self) -> Content {
        let txn = self.doc.transact();
        at("Text::get_string");
        let text = self
            .text
            .get_string(&txn)
            .chars()
            .map(|c| match LETTERS.iter().position(|l| *l as char == c) {
                Some(k) => Cell::V(k as u32),
                None => Cell::Odd(format!("{:?}", c)),
            })
            .collect();
        at("Array::iter");
        let arr = self.arr.iter(&txn).map(|o| cell_of(&txn, &o, 0)).collect();
        at("Map::get");
        let map = [
            self.map.get(&txn, KEYS[0]).map(|o| cell_of(&txn, &o, 1)),
            self.map.get(&txn, KEYS[1]).map(|o| cell_of(&txn, &o, 1)),
        ];
        Content { text, arr, map }
    }

    /// What the update events of the last transaction carried (v1, v2).
    fn take_logs(&self) -> (Vec<Vec<u8>>, Vec<Vec<u8>>) {
        (std::mem::take(&mut *lock(&self.log1)), std::mem::take(&mut *lock(&self.log2)))
    }
}

/// Runs `f` on an open read-write transaction; a panic inside leaves the transaction
/// un-dropped (its destructor commits, and a second panic while unwinding would abort).
fn with_txn<T>(doc: &Doc, origin: Option<&str>, f: impl FnOnce(&mut TransactionMut) -> T) -> T {
    let mut txn = match origin {
        Some(o) => doc.transact_mut_with(o),
        None => doc.transact_mut(),
    };
    match catch_unwind(AssertUnwindSafe(|| f(&mut txn))) {
        Ok(v) => {
            drop(txn); // commit; a panic here is a first panic and is caught by `guarded`
            v
        }
        Err(payload) => {
            std::mem::forget(txn);
            std::panic::resume_unwind(payload)
        }
    }
}

fn decode(bytes: &[u8], v2: bool) -> Result<Update, String> {
    if v2 {
        Update::decode_v2(bytes).map_err(|e| e.to_string())
    } else {
        Update::decode_v1(bytes).map_err(|e| e.to_string())
    }
}

fn bytes_json(b: &[u8]) -> J {
    J::Arr(b.iter().map(|x| J::num(*x)).collect())
}

/// A script that cannot be executed (replay of a hand-written case, or a shape the oracle cannot
/// attribute: see `World::do_undo`).
fn invalid(why: String) -> Failure {
    Failure {
        why: format!("invalid case: {}", why),
        expected: J::Null,
        actual: J::Null,
        api: "(none)".to_string(),
    }
}

fn is_invalid(f: &Failure) -> bool {
    f.why.starts_with("invalid case: ")
}

// ---------------------------------------------------------------------------
// the oracle's bookkeeping
// ---------------------------------------------------------------------------

struct Upd {
    sender: usize,
    seq: usize,
    /// The update events of the step (v1, v2); one for a transaction, possibly several for undo / redo.
    parts: Vec<(Vec<u8>, Vec<u8>)>,
    /// Everything the author had been handed before.
    deps: u64,
    /// Deletes something (the author holds a tombstone afterwards).
    has_del: bool,
    /// Emitted by undo / redo.
    by_undo: bool,
}

#[derive(Clone, Copy, Debug, PartialEq, Eq, Hash)]
enum Kind {
    Text,
    /// Element of the root array (a number or a nested array).
    Arr,
    /// Child of a nested array.
    Child,
}

impl Kind {
    fn name(&self) -> &'static str {
        match self {
            Kind::Text => "text t",
            Kind::Arr => "array a",
            Kind::Child => "nested array",
        }
    }
}

/// One element incarnation.
#[derive(Clone, Debug)]
struct Elem {
    /// `NEST` for a nested array.
    value: u32,
    kind: Kind,
    /// The nested array a child was inserted into.
    parent: Option<usize>,
    /// Update that inserted it.
    ins: usize,
    /// Updates that delete it.
    dels: u64,
    /// Replica that created it.
    #[allow(dead_code)]
    rep: usize,
}

/// Neighbour of an insertion on the acting replica.
#[derive(Clone, Copy, Debug, PartialEq, Eq, Hash)]
enum Nb {
    /// Start / end of the list.
    Edge,
    /// A visible element the oracle could not attribute to one incarnation.
    Unknown,
    El(usize),
}

#[derive(Clone, Debug)]
struct Placement {
    elems: Vec<usize>,
    left: Nb,
    right: Nb,
    kind: Kind,
    parent: Option<usize>,
    upd: usize,
    rep: usize,
    /// The acting replica held no tombstone (visible neighbours = origins).
    clean: bool,
    step: usize,
}

struct MapWrite {
    key: usize,
    value: u32,
    upd: usize,
}

/// A nested array as identified in a replica state: its incarnation, its children.
#[derive(Clone, Debug, PartialEq, Eq)]
struct ACell {
    id: Option<usize>,
    nest: Option<Vec<Option<usize>>>,
}

/// A replica state with every visible element attributed to its incarnation where that is unambiguous.
#[derive(Clone, Debug)]
struct View {
    content: Content,
    text: Vec<Option<usize>>,
    arr: Vec<ACell>,
}

impl View {
    fn fully_identified(&self) -> bool {
        self.text.iter().all(|x| x.is_some())
            && self.arr.iter().all(|c| c.id.is_some() && c.nest.as_ref().map(|n| n.iter().all(|x| x.is_some())).unwrap_or(true))
    }
    /// Index (in the root array) of the only nested array shown, if there is exactly one.
    fn only_nest(&self) -> Option<usize> {
        let mut found = None;
        for (i, c) in self.arr.iter().enumerate() {
            if c.nest.is_some() {
                if found.is_some() {
                    return None;
                }
                found = Some(i);
            }
        }
        found
    }
}

#[derive(Default)]
struct Model {
    upds: Vec<Upd>,
    elems: Vec<Elem>,
    places: Vec<Placement>,
    writes: Vec<MapWrite>,
    recv: Vec<u64>,
    next_value: u32,
    /// (x, y) -> (step, replica) of the first state that showed x before y.
    before: HashMap<(usize, usize), (usize, usize)>,
    /// Updates per sender.
    sent: Vec<usize>,
    /// Per replica: updates that reached it in a merged batch in the KNOWN shape K6 (see
    /// `World::do_deliver`); while one of them still lacks a dependency the replica is no party to (S1).
    tainted: Vec<u64>,
}

fn bit(set: u64, i: usize) -> bool {
    set >> i & 1 == 1
}

impl Model {
    fn find(&self, sender: usize, seq: usize) -> Option<usize> {
        self.upds.iter().position(|u| u.sender == sender && u.seq == seq)
    }

    fn closed(&self, s: u64) -> u64 {
        let mut c = s;
        loop {
            let mut changed = false;
            for (i, u) in self.upds.iter().enumerate() {
                if bit(c, i) && u.deps & !c != 0 {
                    c &= !(1u64 << i);
                    changed = true;
                }
            }
            if !changed {
                return c;
            }
        }
    }

    /// The replica holds a merged batch in the known shape K6 that has not been resolved yet.
    fn k6(&self, r: usize) -> bool {
        self.tainted[r] & !self.closed(self.recv[r]) != 0
    }

    fn set_json(&self, s: u64) -> J {
        J::Arr(
            self.upds
                .iter()
                .enumerate()
                .filter(|(i, _)| bit(s, *i))
                .map(|(_, u)| J::Arr(vec![J::Num(u.sender as i64 + 1), J::Num(u.seq as i64)]))
                .collect(),
        )
    }

    fn elem_json(&self, e: usize) -> J {
        let el = &self.elems[e];
        let mut f = vec![(
            "element",
            if el.value == NEST {
                J::str("nested array")
            } else if el.kind == Kind::Text {
                J::Str(letter(el.value).to_string())
            } else {
                J::Num(el.value as i64 + 1)
            },
        )];
        f.push(("list", J::str(el.kind.name())));
        let u = &self.upds[el.ins];
        f.push(("inserted_by_update", J::Arr(vec![J::Num(u.sender as i64 + 1), J::Num(u.seq as i64)])));
        if el.dels != 0 {
            f.push(("deleted_by_updates", self.set_json(el.dels)));
        }
        J::obj(f)
    }

    /// (must be visible, may be visible) on a replica that was handed `s` (`cs = closed(s)`).
    fn status(&self, e: usize, s: u64, cs: u64) -> (bool, bool) {
        let el = &self.elems[e];
        let deleted = el.dels & s != 0;
        let (pm, py) = match el.parent {
            Some(p) => self.status(p, s, cs),
            None => (true, true),
        };
        (bit(cs, el.ins) && !deleted && pm, bit(s, el.ins) && !deleted && py)
    }

    /// (S2) and the attribution of the visible elements.
    fn view(&self, r: usize, content: Content, pos: &J) -> Result<View, Failure> {
        let s = self.recv[r];
        let cs = self.closed(s);
        let status: Vec<(bool, bool)> = (0..self.elems.len()).map(|e| self.status(e, s, cs)).collect();
        let api = "Text::get_string / Array::iter (content of a replica)";
        let report = |why: String, detail: J| -> Failure {
            fail(
                &why,
                api,
                J::obj(vec![
                    ("at", pos.clone()),
                    ("replica", J::Num(r as i64 + 1)),
                    ("updates_received", self.set_json(s)),
                    ("of_which_with_everything_they_can_depend_on", self.set_json(cs)),
                    ("about", detail),
                ]),
                content.json(),
            )
        };
        // what is shown, per list
        let mut shown: HashMap<(Kind, u32), u32> = HashMap::new();
        let mut count = |kind: Kind, c: &Cell| -> Result<(), Failure> {
            match c {
                Cell::V(k) => {
                    *shown.entry((kind, *k)).or_insert(0) += 1;
                    Ok(())
                }
                Cell::Nest(_) if kind == Kind::Arr => {
                    *shown.entry((kind, NEST)).or_insert(0) += 1;
                    Ok(())
                }
                other => Err(report(
                    format!("the {} shows something no replica ever inserted", kind.name()),
                    cell_json(other),
                )),
            }
        };
        for c in &content.text {
            count(Kind::Text, c)?;
        }
        for c in &content.arr {
            count(Kind::Arr, c)?;
            if let Cell::Nest(children) = c {
                for ch in children {
                    count(Kind::Child, ch)?;
                }
            }
        }
        let of = |kind: Kind, value: u32| -> Vec<usize> {
            (0..self.elems.len()).filter(|e| self.elems[*e].kind == kind && self.elems[*e].value == value).collect()
        };
        for ((kind, value), k) in shown.iter() {
            let incs = of(*kind, *value);
            let may = incs.iter().filter(|e| status[**e].1).count() as u32;
            if *k > may {
                let shown_value = if *value == NEST {
                    J::str("nested array")
                } else if *kind == Kind::Text {
                    J::Str(letter(*value).to_string())
                } else {
                    J::Num(*value as i64 + 1)
                };
                let why = if incs.is_empty() {
                    format!("the {} shows an element that was never inserted into it", kind.name())
                } else if *k > 1 && may >= 1 {
                    format!("an element appears {} times in the {}", k, kind.name())
                } else if incs.iter().all(|e| !bit(s, self.elems[*e].ins)) {
                    format!("the {} shows an element whose insertion the replica has not received", kind.name())
                } else {
                    format!("the {} shows an element although the replica has received a deletion of it", kind.name())
                };
                let detail = J::obj(vec![
                    ("shown", shown_value),
                    ("times", J::num(*k)),
                    ("incarnations", J::Arr(incs.iter().map(|e| self.elem_json(*e)).collect())),
                ]);
                return Err(report(why, detail));
            }
        }
        for e in 0..self.elems.len() {
            if !status[e].0 {
                continue;
            }
            let el = &self.elems[e];
            let must = of(el.kind, el.value).iter().filter(|x| status[**x].0).count() as u32;
            let k = shown.get(&(el.kind, el.value)).copied().unwrap_or(0);
            if k < must {
                return Err(report(
                    format!(
                        "an element is missing from the {}: the replica has received its insertion, everything the insertion can depend on, and no deletion of it",
                        el.kind.name()
                    ),
                    self.elem_json(e),
                ));
            }
        }
        // attribution
        let ident = |kind: Kind, c: &Cell, parent: Option<Option<usize>>| -> Option<usize> {
            let value = match c {
                Cell::V(k) => *k,
                Cell::Nest(_) => NEST,
                Cell::Odd(_) => return None,
            };
            if shown.get(&(kind, value)).copied().unwrap_or(0) != 1 {
                return None;
            }
            let cands: Vec<usize> = of(kind, value).into_iter().filter(|e| status[*e].1).collect();
            if cands.len() != 1 {
                return None;
            }
            if let Some(p) = parent {
                // a child is attributed only inside the nested array it was inserted into
                if p.is_none() || self.elems[cands[0]].parent != p {
                    return None;
                }
            }
            Some(cands[0])
        };
        let text = content.text.iter().map(|c| ident(Kind::Text, c, None)).collect();
        let mut arr = Vec::new();
        for c in &content.arr {
            let id = ident(Kind::Arr, c, None);
            let nest = match c {
                Cell::Nest(children) => Some(children.iter().map(|ch| ident(Kind::Child, ch, Some(id))).collect::<Vec<_>>()),
                _ => None,
            };
            if let (Some(p), Cell::Nest(children)) = (id, c) {
                // a child shown inside an identified nested array other than its own
                for ch in children {
                    if let Cell::V(k) = ch {
                        let cands: Vec<usize> = of(Kind::Child, *k).into_iter().filter(|e| status[*e].1).collect();
                        if shown.get(&(Kind::Child, *k)) == Some(&1) && cands.len() == 1 && self.elems[cands[0]].parent != Some(p) {
                            return Err(report(
                                "a child is shown inside a nested array other than the one it was inserted into".to_string(),
                                self.elem_json(cands[0]),
                            ));
                        }
                    }
                }
            }
            arr.push(ACell { id, nest });
        }
        // (S5) the map shows only what a received update wrote to the key
        for k in 0..2 {
            match &content.map[k] {
                None => {}
                Some(Cell::V(v)) if self.writes.iter().any(|w| w.key == k && w.value == *v && bit(s, w.upd)) => {}
                Some(other) => {
                    return Err(fail(
                        "the map shows a value that no update the replica has received wrote to this key",
                        "Map::get",
                        J::obj(vec![
                            ("at", pos.clone()),
                            ("replica", J::Num(r as i64 + 1)),
                            ("key", J::str(KEYS[k])),
                            ("updates_received", self.set_json(s)),
                        ]),
                        J::obj(vec![("value", cell_json(other)), ("content", content.json())]),
                    ))
                }
            }
        }
        Ok(View { content, text, arr })
    }

    /// (S4), (S3), (S6) on one replica state; records the orders it shows.
    fn check_order(&mut self, r: usize, v: &View, step: usize, pos: &J, tie_break: bool, clients: &[u64]) -> Result<(), Failure> {
        // position of every identified element: (list, index)
        let mut lists: Vec<Vec<Option<usize>>> = vec![v.text.clone(), v.arr.iter().map(|c| c.id).collect()];
        for c in &v.arr {
            if let Some(n) = &c.nest {
                lists.push(n.clone());
            }
        }
        let mut at_pos: HashMap<usize, (usize, usize)> = HashMap::new();
        for (li, l) in lists.iter().enumerate() {
            for (i, e) in l.iter().enumerate() {
                if let Some(e) = e {
                    at_pos.insert(*e, (li, i));
                }
            }
        }
        let api = "Text::get_string / Array::iter (content of a replica)";
        let here = |m: &Model| {
            J::obj(vec![
                ("at", pos.clone()),
                ("replica", J::Num(r as i64 + 1)),
                ("updates_received", m.set_json(m.recv[r])),
            ])
        };
        let ordered = |a: usize, b: usize| -> Option<bool> {
            match (at_pos.get(&a), at_pos.get(&b)) {
                (Some((la, ia)), Some((lb, ib))) if la == lb => Some(ia < ib),
                _ => None,
            }
        };
        // (S4)
        for p in &self.places {
            let mut chain: Vec<(usize, &str)> = Vec::new();
            if let Nb::El(l) = p.left {
                chain.push((l, "left neighbour"));
            }
            for e in &p.elems {
                chain.push((*e, "inserted element"));
            }
            if let Nb::El(x) = p.right {
                chain.push((x, "right neighbour"));
            }
            for w in chain.windows(2) {
                if ordered(w[0].0, w[1].0) == Some(false) {
                    let why = if w[0].1 == "inserted element" && w[1].1 == "inserted element" {
                        "the elements of one insertion do not keep their order".to_string()
                    } else {
                        format!("an element does not lie between the neighbours it was inserted between: its {} comes on the wrong side", if w[0].1 == "left neighbour" { w[0].1 } else { w[1].1 })
                    };
                    return Err(fail(
                        &why,
                        api,
                        J::obj(vec![
                            ("state", here(self)),
                            ("inserted_at_step", J::Num(p.step as i64)),
                            ("by_replica", J::Num(p.rep as i64 + 1)),
                            ("expected_first", self.elem_json(w[0].0)),
                            ("expected_second", self.elem_json(w[1].0)),
                        ]),
                        v.content.json(),
                    ));
                }
            }
        }
        // (S3)
        for l in &lists {
            for i in 0..l.len() {
                for j in i + 1..l.len() {
                    if let (Some(x), Some(y)) = (l[i], l[j]) {
                        if let Some((st, rep)) = self.before.get(&(y, x)) {
                            return Err(fail(
                                "two elements appear in opposite relative order in two replica states",
                                api,
                                J::obj(vec![
                                    ("state", here(self)),
                                    ("shows_first", self.elem_json(x)),
                                    ("shows_second", self.elem_json(y)),
                                    (
                                        "opposite_order_seen",
                                        J::obj(vec![("after_step", J::Num(*st as i64)), ("on_replica", J::Num(*rep as i64 + 1))]),
                                    ),
                                ]),
                                v.content.json(),
                            ));
                        }
                        self.before.entry((x, y)).or_insert((step, r));
                    }
                }
            }
        }
        // (S6)
        if tie_break {
            for (i, p) in self.places.iter().enumerate() {
                for q in self.places.iter().skip(i + 1) {
                    if p.kind != q.kind || p.parent != q.parent || p.left != q.left || p.right != q.right || !p.clean || !q.clean {
                        continue;
                    }
                    if p.left == Nb::Unknown || p.right == Nb::Unknown || clients[p.rep] == clients[q.rep] {
                        continue;
                    }
                    if bit(self.upds[q.upd].deps, p.upd) || bit(self.upds[p.upd].deps, q.upd) {
                        continue;
                    }
                    let (lo, hi) = if clients[p.rep] < clients[q.rep] { (p, q) } else { (q, p) };
                    if ordered(*lo.elems.last().unwrap(), hi.elems[0]) == Some(false) {
                        return Err(fail(
                            "two concurrent insertions between the same neighbours are not ordered by client id (lower id first)",
                            api,
                            J::obj(vec![
                                ("state", here(self)),
                                ("first", self.elem_json(*lo.elems.last().unwrap())),
                                ("of_client", J::Num(clients[lo.rep] as i64)),
                                ("second", self.elem_json(hi.elems[0])),
                                ("of_the_higher_client", J::Num(clients[hi.rep] as i64)),
                            ]),
                            v.content.json(),
                        ));
                    }
                }
            }
        }
        Ok(())
    }
}

// ---------------------------------------------------------------------------
// execution
// ---------------------------------------------------------------------------

struct World<'a> {
    case: &'a Case,
    reps: Vec<Rep>,
    undo: Option<UndoManager<()>>,
    m: Model,
    /// The steps executed so far (closing deliveries included): the witness of a disagreement.
    executed: Vec<Step>,
    /// The step being executed (named in the witness when it panics).
    current: Option<Step>,
    closing: bool,
}

impl<'a> Drop for World<'a> {
    fn drop(&mut self) {
        // After a caught panic a transaction may have been leaked with the store locked; the
        // destructor of the UndoManager unsubscribes through that lock and would panic again (abort).
        if std::thread::panicking() {
            if let Some(u) = self.undo.take() {
                std::mem::forget(u);
            }
        }
    }
}

/// What a planned operation calls.
enum Exec {
    TIns(u32, String),
    TDel(u32),
    AIns(u32, Vec<i64>),
    ADel(u32),
    NNew(u32, Vec<i64>),
    /// (index of the nested array in the root array, index, values)
    NIns(u32, u32, Vec<i64>),
    NDel(u32, u32),
    MSet(usize, i64),
    MDel(usize),
}

/// Summary of a replica's store: ids inserted (deleted and collected ones included), ids deleted.
fn store_summary(rep: &Rep, r: usize) -> Result<(IdSet, IdSet), Failure> {
    let api = "ReadTxn::encode_state_as_update_v1(&empty) -> Update::decode_v1";
    at(api);
    let bytes = rep.doc.transact().encode_state_as_update_v1(&StateVector::default());
    let u = decode(&bytes, false).map_err(|e| {
        fail(
            "an update just encoded does not decode",
            api,
            J::str("Ok"),
            J::obj(vec![("replica", J::Num(r as i64 + 1)), ("error", J::str(&e)), ("bytes", bytes_json(&bytes))]),
        )
    })?;
    Ok((u.insertions(true), u.delete_set().clone()))
}

impl<'a> World<'a> {
    fn new(case: &'a Case) -> Result<World<'a>, Failure> {
        let mut reps = Vec::new();
        for c in &case.clients {
            reps.push(new_rep(*c, case.gc, true)?);
        }
        let undo = if case.undo {
            at("UndoManager::with_options / expand_scope");
            // capture timeout 0: every tracked transaction is a stack item of its own (no wall clock in the result)
            let options = yrs::undo::Options {
                capture_timeout_millis: 0,
                ..Default::default()
            };
            let mut mgr: UndoManager<()> = UndoManager::with_options(options);
            mgr.expand_scope(&reps[0].doc, &reps[0].arr);
            mgr.expand_scope(&reps[0].doc, &reps[0].text);
            Some(mgr)
        } else {
            None
        };
        let n = reps.len();
        Ok(World {
            case,
            reps,
            undo,
            m: Model {
                recv: vec![0; n],
                sent: vec![0; n],
                tainted: vec![0; n],
                ..Default::default()
            },
            executed: Vec::new(),
            current: None,
            closing: false,
        })
    }

    fn pos(&self) -> J {
        J::obj(vec![
            ("after_step", J::Num(self.executed.len() as i64)),
            ("phase", J::str(if self.closing { "closing deliveries" } else { "history" })),
        ])
    }

    /// Reads replica `r`: (S2), attribution, then (S4) (S6) (S3).
    fn observe(&mut self, r: usize) -> Result<View, Failure> {
        let content = self.reps[r].content();
        let pos = self.pos();
        let v = self.m.view(r, content, &pos)?;
        let step = self.executed.len();
        self.m.check_order(r, &v, step, &pos, self.case.tie_break, &self.case.clients)?;
        Ok(v)
    }

    /// (S1) for every pair of `among` with equal `recv`; `stores`: also the decoded full exports.
    fn converged(&self, among: &[usize], stores: bool) -> Result<(), Failure> {
        let mut contents: HashMap<usize, Content> = HashMap::new();
        for (k, a) in among.iter().enumerate() {
            for b in among.iter().skip(k + 1) {
                if self.m.recv[*a] != self.m.recv[*b] {
                    continue;
                }
                if self.m.k6(*a) || self.m.k6(*b) {
                    K6_SKIPS.fetch_add(1, std::sync::atomic::Ordering::Relaxed);
                    continue;
                }
                for x in [*a, *b] {
                    if !contents.contains_key(&x) {
                        contents.insert(x, self.reps[x].content());
                    }
                }
                let expected = J::obj(vec![
                    ("at", self.pos()),
                    ("replicas", J::Arr(vec![J::Num(*a as i64 + 1), J::Num(*b as i64 + 1)])),
                    ("both_received_exactly", self.m.set_json(self.m.recv[*a])),
                ]);
                if contents[a] != contents[b] {
                    return Err(fail(
                        "two replicas that have received the same set of updates show different content",
                        "Text::get_string / Array::iter / Map::get",
                        expected,
                        J::obj(vec![
                            (if *a == 0 { "replica_1" } else if *a == 1 { "replica_2" } else { "replica_3" }, contents[a].json()),
                            (if *b == 1 { "replica_2" } else if *b == 2 { "replica_3" } else { "replica_1" }, contents[b].json()),
                        ]),
                    ));
                }
                if stores {
                    let sa = store_summary(&self.reps[*a], *a)?;
                    let sb = store_summary(&self.reps[*b], *b)?;
                    if sa != sb {
                        return Err(fail(
                            "two replicas that have received the same set of updates export different states (inserted ids / delete set)",
                            "ReadTxn::encode_state_as_update_v1(&empty) -> Update::decode_v1 -> Update::insertions(true) / delete_set",
                            expected,
                            J::obj(vec![
                                ("first", J::obj(vec![("inserted", J::Str(format!("{:?}", sa.0))), ("deleted", J::Str(format!("{:?}", sa.1)))])),
                                ("second", J::obj(vec![("inserted", J::Str(format!("{:?}", sb.0))), ("deleted", J::Str(format!("{:?}", sb.1)))])),
                            ]),
                        ));
                    }
                }
            }
        }
        Ok(())
    }

    /// `VX_CONV_TRACE=1`: what every replica holds, on stderr (debugging aid).
    fn trace(&self) {
        if std::env::var_os("VX_CONV_TRACE").is_none() {
            return;
        }
        eprintln!("--- after step {}: {:?}", self.executed.len(), self.executed.last().map(|s| s.json().to_string()));
        for (r, rep) in self.reps.iter().enumerate() {
            let t = rep.doc.transact();
            eprintln!("  replica {} shows {}", r + 1, rep.content().json());
            eprintln!("    integrated {:?}", decode(&t.encode_diff_v1(&StateVector::default()), false));
            eprintln!(
                "    stash {:?} missing {:?} pending ds {:?}",
                t.store().pending_update().map(|p| &p.update),
                t.store().pending_update().map(|p| &p.missing),
                t.store().pending_ds()
            );
        }
    }

    fn register(&mut self, r: usize, parts: Vec<(Vec<u8>, Vec<u8>)>, has_del: bool, by_undo: bool) -> usize {
        let u = self.m.upds.len();
        self.m.upds.push(Upd {
            sender: r,
            seq: self.m.sent[r],
            parts,
            deps: self.m.recv[r],
            has_del,
            by_undo,
        });
        self.m.sent[r] += 1;
        self.m.recv[r] |= 1u64 << u;
        u
    }

    fn parts_of(&self, r: usize, api: &str) -> Result<Vec<(Vec<u8>, Vec<u8>)>, Failure> {
        let (v1, v2) = self.reps[r].take_logs();
        if v1.len() != v2.len() {
            return Err(fail(
                "a transaction emitted a different number of v1 and v2 update events",
                api,
                J::obj(vec![("at", self.pos())]),
                J::obj(vec![("v1_events", J::Num(v1.len() as i64)), ("v2_events", J::Num(v2.len() as i64))]),
            ));
        }
        Ok(v1.into_iter().zip(v2).collect())
    }

    /// `Ok(changed)`.
    fn step(&mut self, step: &Step, full: bool) -> Result<bool, Failure> {
        if self.m.upds.len() >= MAX_UPDS {
            return Err(invalid("too many updates".into()));
        }
        let changed;
        let actor;
        match step {
            Step::Txn { r, ops } => {
                actor = *r;
                self.do_txn(*r, ops)?;
                changed = true;
            }
            Step::Undo { r } | Step::Redo { r } => {
                actor = *r;
                changed = self.do_undo(*r, matches!(step, Step::Undo { .. }), step)?;
            }
            Step::Deliver { to, upds, v2 } => {
                actor = *to;
                let before = self.m.recv[*to];
                self.do_deliver(*to, upds, *v2)?;
                self.executed.push(step.clone());
                self.observe(*to)?;
                changed = self.m.recv[*to] != before;
            }
        }
        let _ = actor;
        self.trace();
        if full {
            let all: Vec<usize> = (0..self.reps.len()).collect();
            self.converged(&all, true)?;
        }
        Ok(changed)
    }

    fn do_deliver(&mut self, to: usize, upds: &[(usize, usize)], v2: bool) -> Result<(), Failure> {
        let mut bits = 0u64;
        let mut blobs: Vec<&[u8]> = Vec::new();
        for (s, k) in upds {
            if *s == to {
                return Err(invalid(format!("update [{}, {}] is delivered to its own sender", s + 1, k)));
            }
            let i = self.m.find(*s, *k).ok_or_else(|| invalid(format!("there is no update [{}, {}] yet", s + 1, k)))?;
            bits |= 1u64 << i;
            for p in &self.m.upds[i].parts {
                blobs.push(if v2 { &p.1 } else { &p.0 });
            }
        }
        let merged;
        let bytes: &[u8] = if blobs.len() == 1 {
            blobs[0]
        } else {
            let api = if v2 { "merge_updates_v2" } else { "merge_updates_v1" };
            at(api);
            let res = if v2 { yrs::merge_updates_v2(blobs.iter().copied()) } else { yrs::merge_updates_v1(blobs.iter().copied()) };
            merged = res.map_err(|e| {
                fail(
                    "captured updates cannot be merged",
                    api,
                    J::obj(vec![("at", self.pos()), ("result", J::str("Ok"))]),
                    J::str(&e.to_string()),
                )
            })?;
            &merged
        };
        let api = if v2 {
            "Update::decode_v2 -> TransactionMut::apply_update"
        } else {
            "Update::decode_v1 -> TransactionMut::apply_update"
        };
        at(api);
        let update = decode(bytes, v2).map_err(|e| {
            fail(
                "a captured (or merged) update does not decode",
                api,
                J::obj(vec![("at", self.pos()), ("result", J::str("Ok"))]),
                J::obj(vec![("error", J::str(&e)), ("bytes", bytes_json(bytes))]),
            )
        })?;
        with_txn(&self.reps[to].doc, Some("remote"), |txn| txn.apply_update(update)).map_err(|e| {
            fail(
                "apply_update failed",
                api,
                J::obj(vec![("at", self.pos()), ("result", J::str("Ok"))]),
                J::str(&e.to_string()),
            )
        })?;
        // update events of the receiving transaction are not the replica's own updates
        let _ = self.reps[to].take_logs();
        self.m.recv[to] |= bits;
        // KNOWN on the unchanged tree (finding K6 of the gapsync target, open): inside ONE update the blocks of a
        // client are a queue; when an earlier block of the queue lacks a dependency the later blocks of the
        // same client are stashed with it, although delivered on their own they are integrated (behind a
        // gap). So two replicas holding the same INCOMPLETE set differ when one of them got it as a merged
        // batch. Minimal recipe (search without this exclusion: family map_batches_3_replicas, 4 steps):
        //   replica 1: map_set a; map_set a; map_set b   (updates [1,0] [1,1] [1,2])
        //   replica 3 <- merge_updates_v1([1,1],[1,2]): shows nothing (b stashed with the overwrite of a)
        //   replica 2 <- [1,2], then [1,1] as captured: shows b
        // Excluded, exactly this shape: a merged batch holding two updates of one sender, the earlier of
        // which lacks a dependency when the batch arrives; the receiver is left out of (S1) until
        // everything in that batch has its dependencies (the closing phase always gets there).
        //
        // HISTORY. On the tree of 2026-09-26 16:00 this target found (not known before; REPAIRED in /repo since:
        // `BlockPicker::switch` in update.rs now notes the dependency of EVERY block it puts on the stack, not
        // only the one at which the walk gives up; nothing is excluded for it any more, the recipe is found
        // again in 7 steps when the repair is reverted): a stuck update on a COMPLETE set (C02 / C01). Clients
        // 2, 1, 7 on replicas 1, 2, 3, map key a:
        //   replica 1: map_set a                [1,0] = 2#0
        //   replica 3 <- [1,0]; map_set a       [3,0] = 7#0, origin 2#0
        //   replica 1 <- [3,0]; map_set a       [1,1] = 2#1, origin 7#0
        //   replica 2 <- merge_updates_v2([3,0],[1,1])   stash {7#0, 2#1}, `PendingUpdate::missing` was {7: 0}
        //   replica 2 <- [1,0]                  2#0 was integrated, the stash NOT retried: map empty, while
        //                                       replica 1 shows a = 3 and both hold the same three updates.
        // The walk went 7#0 -> (needs client 2) -> took 2#1 from the batch -> (needs 7#0, whose queue is the one
        // being walked) -> noted `missing[7] = 0` and gave up; that 7#0 waits for 2#0 was noted nowhere.
        if upds.len() > 1 && self.case.known_shapes {
            let cs = self.m.closed(self.m.recv[to]);
            for (s1, k1) in upds {
                for (s2, k2) in upds {
                    if s1 == s2 && k1 < k2 {
                        let (i, j) = (self.m.find(*s1, *k1).unwrap(), self.m.find(*s2, *k2).unwrap());
                        if !bit(cs, i) {
                            self.m.tainted[to] |= (1u64 << i) | (1u64 << j);
                        }
                    }
                }
            }
        }
        Ok(())
    }

    fn do_txn(&mut self, r: usize, ops: &[Op]) -> Result<(), Failure> {
        let before = self.observe(r)?;
        let step_no = self.executed.len() + 1;
        let u = self.m.upds.len();
        let deps = self.m.recv[r];
        let clean = !self.m.upds.iter().enumerate().any(|(i, x)| bit(deps, i) && (x.has_del || x.by_undo));
        let base = self.m.elems.len();
        let mut next_value = self.m.next_value;
        let mut new_elems: Vec<Elem> = Vec::new();
        let mut new_places: Vec<Placement> = Vec::new();
        let mut new_writes: Vec<MapWrite> = Vec::new();
        let mut del_targets: Vec<usize> = Vec::new();
        let mut plan: Vec<Exec> = Vec::new();
        let mut text = before.text.clone();
        let mut arr = before.arr.clone();
        let mut map = [before.content.map[0].is_some(), before.content.map[1].is_some()];
        let nb = |list: &[Option<usize>], i: usize, left: bool| -> Nb {
            let cell = if left {
                if i == 0 {
                    return Nb::Edge;
                }
                list[i - 1]
            } else {
                if i >= list.len() {
                    return Nb::Edge;
                }
                list[i]
            };
            match cell {
                Some(e) => Nb::El(e),
                None => Nb::Unknown,
            }
        };
        let bad = |why: String| invalid(format!("step {}: {}", step_no, why));
        // the nested array the replica shows (index in the root array)
        let nest_at = |arr: &[ACell]| -> Option<usize> {
            let mut found = None;
            for (i, c) in arr.iter().enumerate() {
                if c.nest.is_some() {
                    if found.is_some() {
                        return None;
                    }
                    found = Some(i);
                }
            }
            found
        };
        for op in ops {
            let n = op.fresh();
            if next_value + n > MAX_VALUES {
                return Err(bad("too many elements".into()));
            }
            let values: Vec<u32> = (next_value..next_value + n).collect();
            next_value += n;
            let numbers: Vec<i64> = values.iter().map(|v| *v as i64 + 1).collect();
            match op {
                Op::TIns { index, count } | Op::AIns { index, count } | Op::NIns { index, count } => {
                    if *count == 0 {
                        return Err(bad("an insertion of nothing".into()));
                    }
                    let i = *index as usize;
                    let (kind, parent, np) = match op {
                        Op::TIns { .. } => (Kind::Text, None, 0),
                        Op::AIns { .. } => (Kind::Arr, None, 0),
                        _ => {
                            let np = nest_at(&arr).ok_or_else(|| bad("the replica does not show exactly one nested array".into()))?;
                            let p = arr[np].id.ok_or_else(|| bad("the nested array cannot be attributed".into()))?;
                            (Kind::Child, Some(p), np)
                        }
                    };
                    let ids: Vec<usize> = (0..values.len()).map(|k| base + new_elems.len() + k).collect();
                    let (left, right);
                    {
                        let arr_ids: Vec<Option<usize>>;
                        let list: &[Option<usize>] = match kind {
                            Kind::Text => &text,
                            Kind::Arr => {
                                arr_ids = arr.iter().map(|c| c.id).collect();
                                &arr_ids
                            }
                            Kind::Child => arr[np].nest.as_ref().unwrap(),
                        };
                        if i > list.len() {
                            return Err(bad(format!("insertion at {} into {} elements", i, list.len())));
                        }
                        left = nb(list, i, true);
                        right = nb(list, i, false);
                    }
                    for v in &values {
                        new_elems.push(Elem {
                            value: *v,
                            kind,
                            parent,
                            ins: u,
                            dels: 0,
                            rep: r,
                        });
                    }
                    new_places.push(Placement {
                        elems: ids.clone(),
                        left,
                        right,
                        kind,
                        parent,
                        upd: u,
                        rep: r,
                        clean,
                        step: step_no,
                    });
                    match kind {
                        Kind::Text => {
                            text.splice(i..i, ids.iter().map(|e| Some(*e)));
                            plan.push(Exec::TIns(*index, values.iter().map(|v| letter(*v)).collect()));
                        }
                        Kind::Arr => {
                            arr.splice(i..i, ids.iter().map(|e| ACell { id: Some(*e), nest: None }));
                            plan.push(Exec::AIns(*index, numbers));
                        }
                        Kind::Child => {
                            arr[np].nest.as_mut().unwrap().splice(i..i, ids.iter().map(|e| Some(*e)));
                            plan.push(Exec::NIns(np as u32, *index, numbers));
                        }
                    }
                }
                Op::NNew { index, .. } => {
                    let i = *index as usize;
                    if i > arr.len() {
                        return Err(bad(format!("insertion at {} into {} elements", i, arr.len())));
                    }
                    let arr_ids: Vec<Option<usize>> = arr.iter().map(|c| c.id).collect();
                    let (left, right) = (nb(&arr_ids, i, true), nb(&arr_ids, i, false));
                    let nest_id = base + new_elems.len();
                    new_elems.push(Elem {
                        value: NEST,
                        kind: Kind::Arr,
                        parent: None,
                        ins: u,
                        dels: 0,
                        rep: r,
                    });
                    new_places.push(Placement {
                        elems: vec![nest_id],
                        left,
                        right,
                        kind: Kind::Arr,
                        parent: None,
                        upd: u,
                        rep: r,
                        clean,
                        step: step_no,
                    });
                    let ids: Vec<usize> = (0..values.len()).map(|k| base + new_elems.len() + k).collect();
                    for v in &values {
                        new_elems.push(Elem {
                            value: *v,
                            kind: Kind::Child,
                            parent: Some(nest_id),
                            ins: u,
                            dels: 0,
                            rep: r,
                        });
                    }
                    if !ids.is_empty() {
                        new_places.push(Placement {
                            elems: ids.clone(),
                            left: Nb::Edge,
                            right: Nb::Edge,
                            kind: Kind::Child,
                            parent: Some(nest_id),
                            upd: u,
                            rep: r,
                            clean,
                            step: step_no,
                        });
                    }
                    arr.insert(
                        i,
                        ACell {
                            id: Some(nest_id),
                            nest: Some(ids.iter().map(|e| Some(*e)).collect()),
                        },
                    );
                    plan.push(Exec::NNew(*index, numbers));
                }
                Op::TDel { index } => {
                    let i = *index as usize;
                    if i >= text.len() {
                        return Err(bad(format!("removal at {} of {} elements", i, text.len())));
                    }
                    del_targets.push(text[i].ok_or_else(|| bad("the element to remove cannot be attributed".into()))?);
                    text.remove(i);
                    plan.push(Exec::TDel(*index));
                }
                Op::ADel { index } => {
                    let i = *index as usize;
                    if i >= arr.len() {
                        return Err(bad(format!("removal at {} of {} elements", i, arr.len())));
                    }
                    del_targets.push(arr[i].id.ok_or_else(|| bad("the element to remove cannot be attributed".into()))?);
                    arr.remove(i);
                    plan.push(Exec::ADel(*index));
                }
                Op::NDel { index } => {
                    let np = nest_at(&arr).ok_or_else(|| bad("the replica does not show exactly one nested array".into()))?;
                    let list = arr[np].nest.as_mut().unwrap();
                    let i = *index as usize;
                    if i >= list.len() {
                        return Err(bad(format!("removal at {} of {} children", i, list.len())));
                    }
                    del_targets.push(list[i].ok_or_else(|| bad("the child to remove cannot be attributed".into()))?);
                    list.remove(i);
                    plan.push(Exec::NDel(np as u32, *index));
                }
                Op::MSet { key } => {
                    map[*key] = true;
                    new_writes.push(MapWrite {
                        key: *key,
                        value: values[0],
                        upd: u,
                    });
                    plan.push(Exec::MSet(*key, numbers[0]));
                }
                Op::MDel { key } => {
                    if !map[*key] {
                        return Err(bad(format!("key {} is not present", KEYS[*key])));
                    }
                    map[*key] = false;
                    plan.push(Exec::MDel(*key));
                }
            }
        }
        // run it
        let rep = &self.reps[r];
        let _ = rep.take_logs();
        let trouble: Option<String> = with_txn(&rep.doc, None, |txn| {
            for e in &plan {
                match e {
                    Exec::TIns(i, s) => {
                        at("Text::insert");
                        rep.text.insert(txn, *i, s);
                    }
                    Exec::TDel(i) => {
                        at("Text::remove_range");
                        rep.text.remove_range(txn, *i, 1);
                    }
                    Exec::AIns(i, vals) => {
                        if vals.len() == 1 {
                            at("Array::insert");
                            rep.arr.insert(txn, *i, vals[0]);
                        } else {
                            at("Array::insert_range");
                            rep.arr.insert_range(txn, *i, vals.iter().copied());
                        }
                    }
                    Exec::ADel(i) => {
                        at("Array::remove");
                        rep.arr.remove(txn, *i);
                    }
                    Exec::NNew(i, vals) => {
                        at("Array::insert(ArrayPrelim)");
                        rep.arr.insert(txn, *i, ArrayPrelim::from(vals.clone()));
                    }
                    Exec::NIns(np, i, vals) => {
                        at("Array::get (nested array)");
                        let nested = match rep.arr.get(txn, *np) {
                            Some(Out::YArray(a)) => a,
                            other => return Some(format!("Array::get({}) is {:?}, Array::iter showed a nested array there", np, other)),
                        };
                        if vals.len() == 1 {
                            at("Array::insert (nested array)");
                            nested.insert(txn, *i, vals[0]);
                        } else {
                            at("Array::insert_range (nested array)");
                            nested.insert_range(txn, *i, vals.iter().copied());
                        }
                    }
                    Exec::NDel(np, i) => {
                        at("Array::get (nested array)");
                        let nested = match rep.arr.get(txn, *np) {
                            Some(Out::YArray(a)) => a,
                            other => return Some(format!("Array::get({}) is {:?}, Array::iter showed a nested array there", np, other)),
                        };
                        at("Array::remove (nested array)");
                        nested.remove(txn, *i);
                    }
                    Exec::MSet(k, v) => {
                        at("Map::insert");
                        rep.map.insert(txn, KEYS[*k], *v);
                    }
                    Exec::MDel(k) => {
                        at("Map::remove");
                        rep.map.remove(txn, KEYS[*k]);
                    }
                }
            }
            at("TransactionMut::commit (local transaction)");
            None
        });
        if let Some(t) = trouble {
            return Err(fail(&t, "Array::get", J::obj(vec![("at", self.pos())]), before.content.json()));
        }
        let api = "TransactionMut::commit -> Doc::observe_update_v1 / _v2";
        let parts = self.parts_of(r, api)?;
        self.executed.push(Step::Txn { r, ops: ops.to_vec() });
        if parts.len() != 1 {
            return Err(fail(
                "a local transaction that changes the document did not emit exactly one update event",
                api,
                J::obj(vec![("at", self.pos()), ("update_events", J::Num(1))]),
                J::obj(vec![("update_events", J::Num(parts.len() as i64))]),
            ));
        }
        let has_del = !del_targets.is_empty() || ops.iter().any(|o| matches!(o, Op::MDel { .. }));
        let registered = self.register(r, parts, has_del, false);
        debug_assert_eq!(registered, u);
        self.m.next_value = next_value;
        self.m.elems.extend(new_elems);
        self.m.places.extend(new_places);
        self.m.writes.extend(new_writes);
        for t in del_targets {
            self.m.elems[t].dels |= 1u64 << u;
        }
        // (S4) the sequential effect on the acting replica
        let after = self.observe(r)?;
        if after.text != text || after.arr != arr {
            let ids = |l: &[Option<usize>]| J::Arr(l.iter().map(|e| e.map(|e| self.m.elem_json(e)).unwrap_or(J::str("?"))).collect());
            let arr_ids = |a: &[ACell]| {
                J::Arr(
                    a.iter()
                        .map(|c| match &c.nest {
                            Some(n) => ids(n),
                            None => c.id.map(|e| self.m.elem_json(e)).unwrap_or(J::str("?")),
                        })
                        .collect(),
                )
            };
            return Err(fail(
                "a local transaction does not have its sequential effect on the acting replica (an element is not at the index it was inserted at)",
                "Text::insert / Array::insert / remove -> content",
                J::obj(vec![
                    ("at", self.pos()),
                    ("content_before", before.content.json()),
                    ("t", ids(&text)),
                    ("a", arr_ids(&arr)),
                ]),
                after.content.json(),
            ));
        }
        Ok(())
    }

    /// Undo / redo on replica `r`; what it did is READ from the replica. `Ok(false)`: nothing happened.
    fn do_undo(&mut self, r: usize, undoing: bool, step: &Step) -> Result<bool, Failure> {
        let step_no = self.executed.len() + 1;
        let bad = |why: String| invalid(format!("step {}: {}", step_no, why));
        if r != 0 || self.undo.is_none() {
            return Err(bad("no UndoManager on this replica".into()));
        }
        let before = self.observe(r)?;
        if !before.fully_identified() {
            return Err(bad("the acting replica shows elements the oracle cannot attribute; the effect of undo / redo cannot be read".into()));
        }
        let api = if undoing { "UndoManager::undo_blocking" } else { "UndoManager::redo_blocking" };
        let _ = self.reps[r].take_logs();
        at(api);
        let mgr = self.undo.as_mut().unwrap();
        if undoing {
            mgr.undo_blocking();
        } else {
            mgr.redo_blocking();
        }
        let parts = self.parts_of(r, api)?;
        self.executed.push(step.clone());
        if parts.is_empty() {
            let after = self.reps[r].content();
            if after != before.content {
                return Err(fail(
                    "undo / redo changed the content without emitting an update",
                    api,
                    J::obj(vec![("at", self.pos()), ("content", before.content.json())]),
                    after.json(),
                ));
            }
            return Ok(false);
        }
        let u = self.register(r, parts, false, true);
        let after = self.reps[r].content();
        // what disappeared, what appeared (by value, per list)
        let mut has_del = false;
        let unsupported = |what: &str| invalid(format!("step {}: after undo / redo the replica shows {}; the oracle cannot attribute that", step_no, what));
        let mut diff = |m: &mut Model, kind: Kind, parent: Option<usize>, old: &[Option<usize>], new: &[Cell]| -> Result<(), Failure> {
            let new_values: Vec<u32> = new
                .iter()
                .map(|c| match c {
                    Cell::V(k) => *k,
                    Cell::Nest(_) => NEST,
                    Cell::Odd(_) => u32::MAX - 1,
                })
                .collect();
            for e in old.iter().flatten() {
                let el = &m.elems[*e];
                if el.value != NEST && !new_values.contains(&el.value) {
                    m.elems[*e].dels |= 1u64 << u;
                    has_del = true;
                }
            }
            for v in &new_values {
                if *v == NEST || *v == u32::MAX - 1 {
                    continue;
                }
                if !old.iter().flatten().any(|e| m.elems[*e].value == *v) {
                    m.elems.push(Elem {
                        value: *v,
                        kind,
                        parent,
                        ins: u,
                        dels: 0,
                        rep: r,
                    });
                }
            }
            Ok(())
        };
        diff(&mut self.m, Kind::Text, None, &before.text, &after.text)?;
        let old_plain: Vec<Option<usize>> = before.arr.iter().filter(|c| c.nest.is_none()).map(|c| c.id).collect();
        let new_plain: Vec<Cell> = after.arr.iter().filter(|c| !matches!(c, Cell::Nest(_))).cloned().collect();
        diff(&mut self.m, Kind::Arr, None, &old_plain, &new_plain)?;
        let old_nests: Vec<&ACell> = before.arr.iter().filter(|c| c.nest.is_some()).collect();
        let new_nests: Vec<&Vec<Cell>> = after
            .arr
            .iter()
            .filter_map(|c| match c {
                Cell::Nest(ch) => Some(ch),
                _ => None,
            })
            .collect();
        match (old_nests.len(), new_nests.len()) {
            (0, 0) => {}
            (1, 0) => {
                self.m.elems[old_nests[0].id.unwrap()].dels |= 1u64 << u;
                has_del = true;
            }
            (0, 1) => {
                let nest_id = self.m.elems.len();
                self.m.elems.push(Elem {
                    value: NEST,
                    kind: Kind::Arr,
                    parent: None,
                    ins: u,
                    dels: 0,
                    rep: r,
                });
                diff(&mut self.m, Kind::Child, Some(nest_id), &[], new_nests[0])?;
            }
            (1, 1) => {
                let p = old_nests[0].id.unwrap();
                diff(&mut self.m, Kind::Child, Some(p), old_nests[0].nest.as_ref().unwrap(), new_nests[0])?;
            }
            _ => return Err(unsupported("several nested arrays")),
        }
        self.m.upds[u].has_del = has_del;
        self.observe(r)?;
        Ok(true)
    }

    /// The closing phase: everything outstanding is delivered in the remaining order, then all
    /// replicas must be equal; fresh replicas fed by one merged batch / by a full state must show
    /// the same content.
    fn close(&mut self) -> Result<(), Failure> {
        self.closing = true;
        let n = self.reps.len();
        let total = self.m.upds.len();
        if total == 0 {
            return Ok(());
        }
        for r in 0..n {
            let mut order: Vec<usize> = (0..total).filter(|i| !bit(self.m.recv[r], *i)).collect();
            match r {
                0 => {}
                1 => order.reverse(),
                _ => {
                    let (odd, even): (Vec<usize>, Vec<usize>) = order.iter().partition(|i| *i % 2 == 1);
                    order = odd.into_iter().chain(even.into_iter().rev()).collect();
                }
            }
            for i in order {
                let (s, k) = (self.m.upds[i].sender, self.m.upds[i].seq);
                let step = Step::Deliver {
                    to: r,
                    upds: vec![(s, k)],
                    v2: r % 2 == 1,
                };
                self.current = Some(step.clone());
                self.do_deliver(r, &[(s, k)], r % 2 == 1)?;
                self.current = None;
                self.executed.push(step);
                self.trace();
                self.observe(r)?;
                let all: Vec<usize> = (0..n).collect();
                self.converged(&all, false)?;
            }
        }
        let all: Vec<usize> = (0..n).collect();
        self.converged(&all, true)?;
        // one merged batch of everything, applied to a fresh replica
        let v2 = self.case.steps.len() % 2 == 1;
        // (a replica left out because of a documented shape is no reference)
        let sound = match (0..n).rev().find(|r| !self.m.k6(*r)) {
            Some(r) => r,
            None => return Ok(()),
        };
        let reference = self.reps[sound].content();
        let everything: Vec<(usize, usize)> = self.m.upds.iter().map(|u| (u.sender, u.seq)).collect();
        let mut blobs: Vec<&[u8]> = Vec::new();
        for u in &self.m.upds {
            for p in &u.parts {
                blobs.push(if v2 { &p.1 } else { &p.0 });
            }
        }
        let api = if v2 { "merge_updates_v2" } else { "merge_updates_v1" };
        at(api);
        let merged = (if v2 { yrs::merge_updates_v2(blobs.iter().copied()) } else { yrs::merge_updates_v1(blobs.iter().copied()) }).map_err(|e| {
            fail(
                "the captured updates cannot be merged",
                api,
                J::obj(vec![("at", self.pos()), ("result", J::str("Ok"))]),
                J::str(&e.to_string()),
            )
        })?;
        let feed = |bytes: &[u8], v2: bool, what: &str, api: &str| -> Result<(), Failure> {
            let fresh = new_rep(FRESH, self.case.gc, false)?;
            at(api);
            let u = decode(bytes, v2).map_err(|e| {
                fail(
                    "an update just encoded does not decode",
                    api,
                    J::obj(vec![("at", self.pos()), ("result", J::str("Ok"))]),
                    J::obj(vec![("error", J::str(&e)), ("bytes", bytes_json(bytes))]),
                )
            })?;
            with_txn(&fresh.doc, Some("remote"), |txn| txn.apply_update(u))
                .map_err(|e| fail("apply_update failed on a fresh replica", api, J::obj(vec![("at", self.pos())]), J::str(&e.to_string())))?;
            let got = fresh.content();
            if got != reference {
                return Err(fail(
                    &format!("a fresh replica that applies {} does not show what the replicas show", what),
                    api,
                    J::obj(vec![
                        ("at", self.pos()),
                        ("updates", self.m.set_json(if total >= 64 { u64::MAX } else { (1u64 << total) - 1 })),
                        ("content_of_the_replicas", reference.json()),
                    ]),
                    got.json(),
                ));
            }
            Ok(())
        };
        feed(
            &merged,
            v2,
            "ONE merged batch of all updates",
            if v2 { "merge_updates_v2 -> Update::decode_v2 -> apply_update (fresh replica)" } else { "merge_updates_v1 -> Update::decode_v1 -> apply_update (fresh replica)" },
        )?;
        at("ReadTxn::encode_state_as_update_v2(&empty)");
        let full = self.reps[sound].doc.transact().encode_state_as_update_v2(&StateVector::default());
        feed(
            &full,
            true,
            "the full state of a replica",
            "ReadTxn::encode_state_as_update_v2(&empty) -> Update::decode_v2 -> apply_update (fresh replica)",
        )?;
        // the batch once more, to a replica that holds everything
        let step = Step::Deliver {
            to: 1,
            upds: everything.iter().filter(|(s, _)| *s != 1).copied().collect(),
            v2,
        };
        if let Step::Deliver { upds, .. } = &step {
            if !upds.is_empty() {
                let upds = upds.clone();
                self.current = Some(step.clone());
                self.do_deliver(1, &upds, v2)?;
                self.current = None;
                self.executed.push(step);
                self.observe(1)?;
                self.converged(&all, true)?;
            }
        }
        Ok(())
    }
}

/// 128 bits from two differently salted SipHash states.
struct Fp(std::collections::hash_map::DefaultHasher, std::collections::hash_map::DefaultHasher);

impl Fp {
    fn new() -> Fp {
        let a = std::collections::hash_map::DefaultHasher::new();
        let mut b = std::collections::hash_map::DefaultHasher::new();
        b.write_u64(0x9e37_79b9_7f4a_7c15);
        Fp(a, b)
    }
    fn value(&self) -> u128 {
        ((self.0.finish() as u128) << 64) | self.1.finish() as u128
    }
}

impl Hasher for Fp {
    fn finish(&self) -> u64 {
        self.0.finish()
    }
    fn write(&mut self, bytes: &[u8]) {
        self.0.write(bytes);
        self.1.write(bytes);
    }
}

/// What a passing run tells about the state after the last step (needed to extend the history).
#[derive(Default)]
pub struct Info {
    fingerprint: u128,
    contents: Vec<Content>,
    /// Per replica: it shows exactly one nested array, attributed.
    nest_ok: Vec<bool>,
    /// Per replica: everything shown is attributed.
    identified: Vec<bool>,
    /// (sender, seq) of every update, in creation order.
    upds: Vec<(usize, usize)>,
    recv: Vec<u64>,
    next_value: u32,
    can_undo: bool,
    can_redo: bool,
    nest_created: bool,
    /// The last step changed something.
    changed: bool,
    /// The last step emitted an update.
    last_emitted: bool,
    /// Number of distinct keys written so far.
    keys_written: usize,
}

impl<'a> World<'a> {
    fn info(&mut self, changed: bool) -> Result<Info, Failure> {
        let mut fp = Fp::new();
        let mut info = Info {
            changed,
            next_value: self.m.next_value,
            recv: self.m.recv.clone(),
            upds: self.m.upds.iter().map(|u| (u.sender, u.seq)).collect(),
            nest_created: self.m.elems.iter().any(|e| e.value == NEST),
            keys_written: (0..KEYS.len()).filter(|k| self.m.writes.iter().any(|w| w.key == *k)).map(|k| k + 1).max().unwrap_or(0),
            last_emitted: match self.executed.last() {
                Some(Step::Deliver { .. }) | None => false,
                _ => changed,
            },
            ..Default::default()
        };
        for r in 0..self.reps.len() {
            let content = self.reps[r].content();
            let pos = self.pos();
            let v = self.m.view(r, content, &pos)?;
            info.nest_ok.push(v.only_nest().map(|i| v.arr[i].id.is_some()).unwrap_or(false));
            info.identified.push(v.fully_identified());
            let txn = self.reps[r].doc.transact();
            at("ReadTxn::encode_state_as_update_v1(&empty)");
            txn.encode_state_as_update_v1(&StateVector::default()).hash(&mut fp);
            at("ReadTxn::encode_diff_v1(&empty)");
            txn.encode_diff_v1(&StateVector::default()).hash(&mut fp);
            at("Store::pending_update / Store::pending_ds");
            let store = txn.store();
            if let Some(p) = store.pending_update() {
                p.update.encode_v1().hash(&mut fp);
                let mut missing: Vec<(u64, u32)> = p.missing.iter().map(|(c, k)| (c.get(), *k)).collect();
                missing.sort();
                missing.hash(&mut fp);
            }
            format!("{:?}", store.pending_ds()).hash(&mut fp);
            v.content.hash(&mut fp);
            self.m.recv[r].hash(&mut fp);
            info.contents.push(v.content);
        }
        for u in &self.m.upds {
            (u.sender, u.seq, u.deps, u.has_del, u.by_undo).hash(&mut fp);
            for p in &u.parts {
                p.0.hash(&mut fp);
            }
        }
        for e in &self.m.elems {
            (e.value, e.kind, e.parent, e.ins, e.dels).hash(&mut fp);
        }
        for p in &self.m.places {
            (&p.elems, p.left, p.right, p.upd, p.clean).hash(&mut fp);
        }
        let mut order: Vec<(usize, usize)> = self.m.before.keys().copied().collect();
        order.sort();
        order.hash(&mut fp);
        // which extensions are enumerated depends on the last step (see `Family::children`): two
        // histories are merged only when that is the same for both
        match self.executed.last() {
            None => 0u8.hash(&mut fp),
            Some(Step::Deliver { to, .. }) => (1u8, *to).hash(&mut fp),
            Some(Step::Txn { r, .. }) | Some(Step::Undo { r }) | Some(Step::Redo { r }) => (2u8, *r, changed).hash(&mut fp),
        }
        self.m.tainted.hash(&mut fp);
        if let Some(mgr) = &self.undo {
            info.can_undo = mgr.can_undo();
            info.can_redo = mgr.can_redo();
            for (tag, stack) in [(0u8, mgr.undo_stack()), (1u8, mgr.redo_stack())] {
                tag.hash(&mut fp);
                for item in stack {
                    format!("{:?} {:?}", item.insertions(), item.deletions()).hash(&mut fp);
                }
            }
        }
        info.fingerprint = fp.value();
        Ok(info)
    }
}

/// Runs the case. `thorough` (replay): (S1) after every step; otherwise after the last step only
/// (every prefix is a case of its own); (S2) (S3) (S4) (S6) run on every state in both modes.
/// On a disagreement: the steps executed so far (closing deliveries included) and the failure.
fn execute(case: &Case, thorough: bool, need_info: bool) -> Result<Info, (Vec<Step>, Failure)> {
    let mut done: Vec<Step> = Vec::new();
    let r = guarded(|| {
        let mut w = World::new(case)?;
        let res = catch_unwind(AssertUnwindSafe(|| -> Result<Info, Failure> {
            let last = case.steps.len();
            let mut changed = true;
            for (i, step) in case.steps.iter().enumerate() {
                w.current = Some(step.clone());
                changed = w.step(step, thorough || i + 1 == last)?;
                w.current = None;
            }
            let info = if need_info { w.info(changed)? } else { Info::default() };
            w.close()?;
            Ok(info)
        }));
        done = w.executed.clone();
        match res {
            Ok(r) => r,
            Err(payload) => {
                // the step that raised the panic belongs to the witness
                if let Some(c) = w.current.take() {
                    if done.last() != Some(&c) {
                        done.push(c);
                    }
                }
                std::panic::resume_unwind(payload)
            }
        }
    });
    r.map_err(|f| (done, f))
}

// ---------------------------------------------------------------------------
// enumeration
// ---------------------------------------------------------------------------

#[derive(Clone, Copy, PartialEq)]
enum Enc {
    V1,
    V2,
    /// v1 to replicas 1 and 3, v2 to replica 2: one update is decoded from both forms in one history.
    ByReceiver,
}

#[derive(Clone)]
struct Family {
    name: String,
    /// `conv_seq` | `conv_map` | `conv_nested`
    group: &'static str,
    clients: Vec<u64>,
    gc: bool,
    undo: bool,
    text: bool,
    array: bool,
    map: bool,
    nested: bool,
    /// Insertions of two elements (one block) are enumerated too.
    multi: bool,
    deletes: bool,
    /// Transactions of two operations (insert + insert, insert + remove).
    two_ops: bool,
    depth: usize,
    max_txns: usize,
    max_len: usize,
    max_undo: usize,
    enc: Enc,
    /// Merged batches: every pair of updates with something new, and everything outstanding.
    batches: bool,
    /// Only batches of everything outstanding (no partial deliveries at all).
    all_or_nothing: bool,
    /// Updates already received are delivered again.
    dups: bool,
    /// Histories start with these steps (not counted in `depth`).
    prefix: Vec<Step>,
}

impl Family {
    fn base(name: &str, group: &'static str, clients: &[u64]) -> Family {
        Family {
            name: name.to_string(),
            group,
            clients: clients.to_vec(),
            gc: true,
            undo: false,
            text: false,
            array: false,
            map: false,
            nested: false,
            multi: false,
            deletes: false,
            two_ops: false,
            depth: 1,
            max_txns: 3,
            max_len: 4,
            max_undo: 0,
            enc: Enc::V1,
            batches: false,
            all_or_nothing: false,
            dups: false,
            prefix: Vec::new(),
        }
    }

    fn seq_ops(&self, text: bool, len: usize, out: &mut Vec<Vec<Op>>) {
        let ins = |index: u32, count: u32| if text { Op::TIns { index, count } } else { Op::AIns { index, count } };
        let del = |index: u32| if text { Op::TDel { index } } else { Op::ADel { index } };
        for index in 0..=len as u32 {
            for count in 1..=(if self.multi { 2 } else { 1 }) {
                if len + count as usize <= self.max_len {
                    out.push(vec![ins(index, count)]);
                }
            }
        }
        if self.deletes {
            for index in 0..len as u32 {
                out.push(vec![del(index)]);
            }
        }
        if self.two_ops {
            // two insertions (the second anywhere in the result), an insertion and a removal of an older element
            if len + 2 <= self.max_len {
                for i in 0..=len as u32 {
                    for j in 0..=len as u32 + 1 {
                        out.push(vec![ins(i, 1), ins(j, 1)]);
                    }
                }
            }
            if len + 1 <= self.max_len {
                for i in 0..=len as u32 {
                    for j in 0..=len as u32 {
                        if j != i {
                            out.push(vec![ins(i, 1), del(j)]);
                        }
                    }
                }
            }
        }
    }

    fn txns(&self, r: usize, info: &Info) -> Vec<Vec<Op>> {
        let c = &info.contents[r];
        let mut out = Vec::new();
        if !info.identified[r] {
            // removals need attributed targets; keep it simple: such a replica only receives
            return out;
        }
        if self.text {
            self.seq_ops(true, c.text.len(), &mut out);
        }
        if self.array {
            self.seq_ops(false, c.arr.len(), &mut out);
        }
        if self.map {
            let used = self.keys_used(info);
            for key in 0..KEYS.len().min(used + 1) {
                out.push(vec![Op::MSet { key }]);
                if c.map[key].is_some() && self.deletes {
                    out.push(vec![Op::MDel { key }]);
                }
            }
        }
        if self.nested {
            if !info.nest_created {
                if r == 0 {
                    out.push(vec![Op::NNew { index: 0, count: 2 }]);
                    out.push(vec![Op::NNew { index: 0, count: 1 }]);
                }
            } else if info.nest_ok[r] {
                let (at, children) = c
                    .arr
                    .iter()
                    .enumerate()
                    .find_map(|(i, x)| match x {
                        Cell::Nest(ch) => Some((i, ch.len())),
                        _ => None,
                    })
                    .unwrap();
                if children + 1 <= self.max_len {
                    out.push(vec![Op::NIns { index: children as u32, count: 1 }]);
                    if children > 0 {
                        out.push(vec![Op::NIns { index: 0, count: 1 }]);
                    }
                    if children > 1 && !self.undo {
                        out.push(vec![Op::NIns { index: 1, count: 1 }]);
                    }
                }
                for index in 0..children as u32 {
                    // with undo / redo in the alphabet: the first and the last child only
                    if !self.undo || index == 0 || index + 1 == children as u32 {
                        out.push(vec![Op::NDel { index }]);
                    }
                }
                out.push(vec![Op::ADel { index: at as u32 }]);
            }
        }
        out.retain(|ops| info.next_value + ops.iter().map(|o| o.fresh()).sum::<u32>() <= MAX_VALUES);
        out
    }

    /// Keys are introduced in order.
    fn keys_used(&self, info: &Info) -> usize {
        let mut used = 0;
        for c in &info.contents {
            for k in 0..KEYS.len() {
                if c.map[k].is_some() {
                    used = used.max(k + 1);
                }
            }
        }
        // a key that was written and removed everywhere: count the writes instead
        used.max(info.keys_written)
    }

    fn v2_for(&self, to: usize) -> bool {
        match self.enc {
            Enc::V1 => false,
            Enc::V2 => true,
            Enc::ByReceiver => to % 2 == 1,
        }
    }

    fn children(&self, steps: &[Step], info: &Info) -> Vec<Step> {
        let n = self.clients.len();
        let mut out = Vec::new();
        if !info.changed {
            return out;
        }
        let own = &steps[self.prefix.len().min(steps.len())..];
        let txns = own.iter().filter(|s| matches!(s, Step::Txn { .. })).count();
        let undos = own.iter().filter(|s| matches!(s, Step::Undo { .. } | Step::Redo { .. })).count();
        let last = steps.last();
        // Adjacent independent steps are enumerated in ONE order (deliveries before local steps,
        // lower replica first); the other order is the same history up to the numbering of values.
        let local_allowed = |r: usize| -> bool {
            match last {
                Some(Step::Txn { r: p, .. }) | Some(Step::Undo { r: p }) | Some(Step::Redo { r: p }) => *p <= r,
                _ => true,
            }
        };
        let newest: Option<(usize, usize)> = match last {
            Some(Step::Txn { r, .. }) | Some(Step::Undo { r }) | Some(Step::Redo { r }) => {
                info.upds.iter().rev().find(|(s, _)| s == r).copied().filter(|_| info.last_emitted)
            }
            _ => None,
        };
        let deliver_allowed = |to: usize, upds: &[(usize, usize)]| -> bool {
            match last {
                Some(Step::Deliver { to: p, .. }) => *p <= to,
                Some(Step::Txn { r: p, .. }) | Some(Step::Undo { r: p }) | Some(Step::Redo { r: p }) => {
                    // could the delivery have come before the local step? then that order is the enumerated one
                    *p == to || newest.map(|nw| upds.contains(&nw)).unwrap_or(false)
                }
                None => true,
            }
        };
        if txns < self.max_txns {
            for r in 0..n {
                if !local_allowed(r) {
                    continue;
                }
                for ops in self.txns(r, info) {
                    out.push(Step::Txn { r, ops });
                }
            }
        }
        if self.undo && undos < self.max_undo && local_allowed(0) && info.identified[0] {
            if info.can_undo {
                out.push(Step::Undo { r: 0 });
            }
            if info.can_redo {
                out.push(Step::Redo { r: 0 });
            }
        }
        for to in 0..n {
            let v2 = self.v2_for(to);
            let foreign: Vec<(usize, (usize, usize))> = info.upds.iter().copied().enumerate().filter(|(_, (s, _))| *s != to).collect();
            let outstanding: Vec<(usize, usize)> = foreign.iter().filter(|(i, _)| !bit(info.recv[to], *i)).map(|(_, u)| *u).collect();
            let mut push = |upds: Vec<(usize, usize)>| {
                if deliver_allowed(to, &upds) {
                    out.push(Step::Deliver { to, upds, v2 });
                }
            };
            if self.all_or_nothing {
                if !outstanding.is_empty() {
                    push(outstanding.clone());
                }
                continue;
            }
            for (i, u) in &foreign {
                if !bit(info.recv[to], *i) || self.dups {
                    push(vec![*u]);
                }
            }
            if self.batches {
                for (a, (i, u)) in foreign.iter().enumerate() {
                    for (j, w) in foreign.iter().skip(a + 1) {
                        if !bit(info.recv[to], *i) || !bit(info.recv[to], *j) {
                            push(vec![*u, *w]);
                            if u.0 == w.0 {
                                // the later update first: merge_updates must sort it out
                                push(vec![*w, *u]);
                            }
                        }
                    }
                }
                if outstanding.len() >= 3 {
                    push(outstanding.clone());
                }
            }
        }
        out
    }
}

/// Comparisons (S1) left out because of the known shape K6 (see `World::do_deliver`).
static K6_SKIPS: std::sync::atomic::AtomicU64 = std::sync::atomic::AtomicU64::new(0);

const ID_32_7: u64 = (1 << 32) + 7;
const ID_32_1: u64 = (1 << 32) + 1;
const ID_MAX: u64 = (1 << 53) - 1;

fn families(universe: u32, target: &str) -> Vec<Family> {
    let u = universe.clamp(1, 9) as usize;
    let d = |less: usize| u.saturating_sub(less).max(1);
    let mut out: Vec<Family> = Vec::new();
    let id_name = |c: u64| -> String {
        match c {
            ID_32_7 => "2p32+7".to_string(),
            ID_32_1 => "2p32+1".to_string(),
            ID_MAX => "2p53-1".to_string(),
            c => c.to_string(),
        }
    };
    // every ordered pair of ids: single insertions into the text, every delivery order
    for a in IDS {
        for b in IDS {
            if a != b {
                let mut f = Family::base(&format!("ids_text_{}_{}", id_name(a), id_name(b)), "conv_seq", &[a, b]);
                f.text = true;
                f.depth = d(2).min(4);
                f.max_txns = 3;
                f.max_len = 3;
                f.enc = Enc::ByReceiver;
                out.push(f);
            }
        }
    }
    // three replicas, ids that collide / straddle
    for (k, ids) in [[7, ID_32_7, 1], [ID_32_1, 1, ID_MAX], [2, ID_32_1, 7], [ID_MAX, ID_32_7, 2]].iter().enumerate() {
        let mut f = Family::base(&format!("ids_text_3_replicas_{}", k + 1), "conv_seq", ids);
        f.text = true;
        f.depth = d(3).min(4);
        f.max_txns = 3;
        f.max_len = 3;
        f.enc = Enc::ByReceiver;
        out.push(f);
    }
    // the core: text, insert / remove one element anywhere, any delivery order, duplicates
    for ids in [[2u64, 1], [1, 2], [ID_32_7, 7]] {
        let mut f = Family::base(&format!("text_{}_{}", id_name(ids[0]), id_name(ids[1])), "conv_seq", &ids);
        f.text = true;
        f.deletes = true;
        f.dups = true;
        f.depth = d(0) + 1;
        f.max_txns = 4;
        f.enc = if ids[0] == 2 { Enc::V1 } else { Enc::ByReceiver };
        out.push(f);
    }
    {
        // merged batches, two-element insertions
        let mut f = Family::base("text_batches_2_1", "conv_seq", &[2, 1]);
        f.text = true;
        f.multi = true;
        f.deletes = true;
        f.batches = true;
        f.depth = d(1);
        f.max_txns = 4;
        f.enc = Enc::V2;
        out.push(f);
        let mut f = Family::base("array_batches_7_2p32+7", "conv_seq", &[7, ID_32_7]);
        f.array = true;
        f.multi = true;
        f.deletes = true;
        f.batches = true;
        f.depth = d(1);
        f.max_txns = 4;
        f.enc = Enc::ByReceiver;
        out.push(f);
        let mut f = Family::base("array_nogc_2p53-1_1", "conv_seq", &[ID_MAX, 1]);
        f.array = true;
        f.deletes = true;
        f.gc = false;
        f.dups = true;
        f.depth = d(0);
        f.max_txns = 4;
        f.enc = Enc::V2;
        out.push(f);
        let mut f = Family::base("text_two_ops_1_2p32+1", "conv_seq", &[1, ID_32_1]);
        f.text = true;
        f.two_ops = true;
        f.depth = d(1);
        f.max_txns = 3;
        f.enc = Enc::ByReceiver;
        out.push(f);
    }
    for ids in [[2u64, 1, 7], [7, ID_32_7, 2]] {
        let mut f = Family::base(&format!("text_3_replicas_{}_{}_{}", id_name(ids[0]), id_name(ids[1]), id_name(ids[2])), "conv_seq", &ids);
        f.text = true;
        f.deletes = true;
        f.depth = d(0);
        f.max_txns = 4;
        f.max_len = 3;
        f.enc = Enc::ByReceiver;
        out.push(f);
    }
    {
        let mut f = Family::base("text_batches_3_replicas_1_7_2", "conv_seq", &[1, 7, 2]);
        f.text = true;
        f.batches = true;
        f.depth = d(1);
        f.max_txns = 3;
        f.max_len = 3;
        f.enc = Enc::ByReceiver;
        out.push(f);
    }
    // map
    for ids in [vec![2u64, 1], vec![7, ID_32_7], vec![ID_MAX, ID_32_1, 1]] {
        let mut f = Family::base(
            &format!("map_{}", ids.iter().map(|c| id_name(*c)).collect::<Vec<_>>().join("_")),
            "conv_map",
            &ids,
        );
        f.map = true;
        f.deletes = true;
        f.dups = ids.len() == 2;
        f.batches = ids[0] == 7;
        f.depth = if ids.len() == 2 { d(0) } else { d(1) };
        f.max_txns = 4;
        f.enc = Enc::ByReceiver;
        out.push(f);
    }
    {
        // three replicas, merged batches: two replicas can hold the same INCOMPLETE set, packaged differently
        let mut f = Family::base("map_batches_3_replicas_2_1_7", "conv_map", &[2, 1, 7]);
        f.map = true;
        f.batches = true;
        f.depth = d(0);
        f.max_txns = 3;
        f.enc = Enc::ByReceiver;
        out.push(f);
    }
    // nested array with undo / redo on replica 1
    for (ids, first) in [([2u64, 1], 2u32), ([1, 2], 2), ([ID_32_7, 7], 2), ([2, 1], 1)] {
        let mut f = Family::base(&format!("nested_undo_{}_{}_{}", id_name(ids[0]), id_name(ids[1]), first), "conv_nested", &ids);
        f.nested = true;
        f.undo = true;
        f.all_or_nothing = true;
        f.depth = d(0) + 1;
        f.max_txns = 3;
        f.max_undo = 2;
        f.max_len = 3;
        f.enc = Enc::ByReceiver;
        f.prefix = vec![Step::Txn {
            r: 0,
            ops: vec![Op::NNew { index: 0, count: first }],
        }];
        out.push(f);
    }
    {
        // nested array without undo: any delivery order of single updates
        let mut f = Family::base("nested_2_1", "conv_nested", &[2, 1]);
        f.nested = true;
        f.depth = d(0);
        f.max_txns = 4;
        f.max_len = 3;
        f.enc = Enc::ByReceiver;
        out.push(f);
    }
    if let Ok(only) = std::env::var("VX_CONV_ONLY") {
        out.retain(|f| f.name.contains(&only));
    }
    match target {
        "converge" => out,
        group => out.into_iter().filter(|f| f.group == group).collect(),
    }
}

pub fn cmd_search(target: &str, universe: u32, jobs: usize, deadline: Option<Instant>) -> i32 {
    let mut h = Hunt {
        jobs: jobs.max(1),
        deadline,
        cases: 0,
    };
    let fams = families(universe, target);
    let times = std::env::var_os("VX_CONV_TIMES").is_some();
    let deepest = fams.iter().map(|f| f.depth).max().unwrap_or(0);
    let mut frontiers: Vec<Vec<(Vec<Step>, Info)>> = fams.iter().map(|_| Vec::new()).collect();
    let mut seen: Vec<HashSet<u128>> = fams.iter().map(|_| HashSet::new()).collect();
    let mut counts = vec![0u64; fams.len()];
    let mut millis = vec![0u128; fams.len()];
    let mut states = 0u64;
    let skipped = std::sync::atomic::AtomicU64::new(0);
    let mut res: Result<(), Stop> = Ok(());
    // iterative deepening on the number of steps, all families in turn: a witness is as short as possible
    'deepening: for d in 0..=deepest {
        for (fi, f) in fams.iter().enumerate() {
            if d > f.depth {
                continue;
            }
            let started = Instant::now();
            let make = |steps: Vec<Step>| Case {
                target: target.to_string(),
                family: f.name.clone(),
                clients: f.clients.clone(),
                gc: f.gc,
                undo: f.undo,
                tie_break: true,
                known_shapes: true,
                steps,
            };
            let last_level = d == f.depth;
            let before = h.cases;
            let skipped = &skipped;
            let run_one = |tally: &mut Tally, steps: Vec<Step>| -> Result<Option<(Vec<Step>, Info)>, Stop> {
                if tally.expired() {
                    return Err(Stop::Timeout);
                }
                let case = make(steps);
                match execute(&case, false, !last_level) {
                    Ok(info) => {
                        tally.cases += 1;
                        Ok(if last_level { None } else { Some((case.steps, info)) })
                    }
                    Err((_, f)) if is_invalid(&f) => {
                        skipped.fetch_add(1, std::sync::atomic::Ordering::Relaxed);
                        Ok(None)
                    }
                    Err((done, failure)) => Err(Stop::Found(Box::new(Found {
                        fields: case.fields(&done),
                        failure,
                    }))),
                }
            };
            let produced: Result<Vec<Vec<(Vec<Step>, Info)>>, Stop> = if d == 0 {
                h.par(1, &|tally: &mut Tally, _| Ok(run_one(tally, f.prefix.clone())?.into_iter().collect()))
            } else {
                let fr = &frontiers[fi];
                h.par(fr.len(), &|tally: &mut Tally, i: usize| {
                    let (steps, info) = &fr[i];
                    let mut kept = Vec::new();
                    for child in f.children(steps, info) {
                        let mut s = steps.clone();
                        s.push(child);
                        if let Some(k) = run_one(tally, s)? {
                            kept.push(k);
                        }
                    }
                    Ok(kept)
                })
            };
            counts[fi] += h.cases - before;
            millis[fi] += started.elapsed().as_millis();
            match produced {
                Ok(lists) => {
                    // a state reached before (same replicas, same oracle bookkeeping) has the same futures
                    let mut next = Vec::new();
                    for (steps, info) in lists.into_iter().flatten() {
                        if seen[fi].insert(info.fingerprint) {
                            next.push((steps, info));
                        }
                    }
                    states += next.len() as u64;
                    frontiers[fi] = next;
                }
                Err(stop) => {
                    res = Err(stop);
                    break 'deepening;
                }
            }
        }
    }
    if times {
        for (fi, f) in fams.iter().enumerate() {
            eprintln!("{:>9} cases {:>7} ms  depth {}  {}", counts[fi], millis[fi], f.depth, f.name);
        }
    }
    // the 30 + 4 id families as one number
    let mut per_family: Vec<(String, J)> = Vec::new();
    let ids_total: u64 = fams.iter().enumerate().filter(|(_, f)| f.name.starts_with("ids_text_")).map(|(i, _)| counts[i]).sum();
    if ids_total > 0 {
        per_family.push(("ids_text_(every ordered pair of ids, 4 triples)".to_string(), J::Num(ids_total as i64)));
    }
    for (fi, f) in fams.iter().enumerate() {
        if !f.name.starts_with("ids_text_") {
            per_family.push((f.name.clone(), J::Num(counts[fi] as i64)));
        }
    }
    let extra = vec![
        ("cases_per_family", J::Obj(per_family)),
        ("distinct_states_extended", J::Num(states as i64)),
        ("histories_the_oracle_cannot_attribute", J::Num(skipped.load(std::sync::atomic::Ordering::Relaxed) as i64)),
        ("comparisons_left_out_known_k6_packaging", J::Num(K6_SKIPS.load(std::sync::atomic::Ordering::Relaxed) as i64)),
    ];
    finish(target, universe, res, &h, extra)
}

/// `replay` of a witness of this module; `Err`: usage error (exit 2).
pub fn cmd_replay(j: &J) -> Result<i32, String> {
    let case = Case::from_json(j)?;
    match execute(&case, true, true) {
        Ok(info) => Ok(finish_replay(Ok(J::obj(vec![
            ("all_checks_passed", J::Bool(true)),
            ("steps", J::Num(case.steps.len() as i64)),
            ("updates", J::Num(info.upds.len() as i64)),
            ("content_after_the_steps", J::Arr(info.contents.iter().map(|c| c.json()).collect())),
        ])))),
        Err((_, f)) if is_invalid(&f) => Err(f.why),
        Err((_, f)) => Ok(finish_replay(Err(f))),
    }
}
